#!/usr/bin/env python3
"""Regenerate /verif/MANIFEST.json from the table below (keeps it valid at all times)."""
import json
import subprocess
from pathlib import Path

VERIF = Path(__file__).resolve().parent.parent
PY = "/venv/bin/python"

# property -> (technique, level text, level note, design ref)
CLAIMED = {}
NOT_APPLICABLE = {}


def claim(pid, technique, text, note, ref):
    CLAIMED[pid] = (technique, text, note, ref)


def na(pid, reason):
    NOT_APPLICABLE[pid] = reason


TB = ("Trusted base: CPython data model and stdlib semantics listed in DESIGN.md §0; the ast module parses the grammar the library runs under; "
      "callee resolution is exact for self./cls./ClassName./super()./imported names and annotated parameters, by method name otherwise (listed as 'dynamic' in evidence).")

exec((VERIF / "tools" / "claims.py").read_text())

fix_commits = subprocess.run(["git", "-C", "/repo", "log", "--format=%h %s", "--grep=^fix:"], capture_output=True, text=True).stdout.strip().splitlines()

manifest = {
    "version": 1,
    "setup_cmd": f"{PY} -m compileall -q sa",
    "hooks": {
        "guard": "PERMUTA_VERIF",
        "enable": "no hook is needed: every check parses the source of /repo's working tree (static analysis); the guard name is declared but unused",
        "baseline_off_cmd": "cd /repo && /venv/bin/python -m pytest -ra -q -p no:cacheprovider --timeout=900 --continue-on-collection-errors",
        "source_commits": [c.split()[0] for c in fix_commits],
        "add_only": True,
    },
    "engines": [
        {"name": "sa", "path": "sa/", "serves_properties": sorted(CLAIMED), "kind_free_text": "custom static analysis over stdlib ast: repo model + resolver (E0), one-shot iterable discipline (E4), boolean/aggregate skeleton comparison (E5), eq/hash/order lint (E6), effect/purity inference (E3), lock/alias analysis (E2), affine D4 abstract interpreter (E7), persistence protocol (E8), registries/templates (E9)"}
    ],
    "checks": [],
    "notes": "All checks are static: they never import or run permuta. Exit 0 pass (KNOWN-FINDING lines possible), 1 VIOLATION, 2 ANALYSIS-ERROR (anchor vanished / idiom not recognised / instance floor not met / self-test failed). fix: commits in /repo: " + "; ".join(fix_commits),
    "not_applicable": [{"property_id": k, "reason": v} for k, v in sorted(NOT_APPLICABLE.items())],
}
for pid in sorted(CLAIMED):
    technique, text, note, ref = CLAIMED[pid]
    manifest["checks"].append({
        "property_id": pid,
        "quick_cmd": f"{PY} -m sa check {pid} --tier quick",
        "thorough_cmd": f"{PY} -m sa check {pid} --tier thorough",
        "evidence_file": f"/verif/evidence/{pid}.json",
        "replay_cmd_template": f"{PY} -m sa replay {{path}}",
        "engine": "sa",
        "level_claimed": {"category": "other", "text": text, "design_ref": ref},
        "level_note": note + " " + TB,
        "technique": technique,
    })
(VERIF / "MANIFEST.json").write_text(json.dumps(manifest, indent=1) + "\n")
print("claimed:", sorted(CLAIMED), "n/a:", sorted(NOT_APPLICABLE))
