#!/bin/bash
# usage: tools/run_all.sh [quick|thorough] [ids...]
tier=${1:-quick}; shift
ids=${@:-$(/venv/bin/python -m sa list)}
cd /verif
for p in $ids; do
  [ -f sa/props/$(echo $p | tr A-Z a-z).py ] || { echo "$p (not built)"; continue; }
  start=$(date +%s.%N)
  out=$(/venv/bin/python -m sa check $p --tier $tier 2>&1); code=$?
  end=$(date +%s.%N)
  printf "%s exit=%d %.1fs %s\n" $p $code $(echo "$end - $start" | bc) "$(echo "$out" | grep -E '^(OK|ANALYSIS-ERROR|VIOLATION)' | head -2 | cut -c1-200 | tr '\n' ' ')"
done
