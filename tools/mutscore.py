#!/usr/bin/env python3
"""Exploratory: statement-level mutants of the functions a check reports obligations on.

For every such function, each simple statement is (a) deleted and (b) each comparison operator is flipped
/ each `and`<->`or` swapped / each integer literal bumped; the property's check is run on a scratch copy.
Prints the mutants on which the check stays SILENT (candidates for blind spots; many are equivalent or
outside the claimed clauses – they are reviewed by hand, nothing here is a verdict).
usage: mutscore.py C02 [C07 ...]
"""
import ast
import copy
import json
import os
import shutil
import subprocess
import sys
import tempfile
from concurrent.futures import ProcessPoolExecutor
from pathlib import Path

sys.path.insert(0, str(Path(__file__).resolve().parent.parent))
from sa.core import Repo  # noqa: E402

VERIF = Path(__file__).resolve().parent.parent


def functions_of(prop):
    ev = json.loads((VERIF / "evidence" / f"{prop}.json").read_text())
    repo = Repo()
    wheres = set()
    # all obligations are not in samples; recompute
    from sa.__main__ import evaluate

    ctx = evaluate(prop)
    for o in ctx.obligations:
        w = o["where"].split("[")[0]
        if w in repo.funcs:
            wheres.add(w)
    return repo, sorted(wheres)


def mutants_for(fi):
    """yield (description, edit(tree)) for function fi"""
    qual = fi.qual.replace(".<locals>.", ".")
    src_tree = fi.node
    simple = [n for n in ast.walk(src_tree) if isinstance(n, (ast.Assign, ast.AugAssign, ast.Expr, ast.Return, ast.Raise, ast.Assert, ast.AnnAssign, ast.Continue, ast.Break))
              and not (isinstance(n, ast.Expr) and isinstance(n.value, ast.Constant))]
    for idx, st in enumerate(simple):
        yield f"delete stmt #{idx} L{st.lineno}: {ast.unparse(st)[:70]}", ("del", idx)
    cmps = [n for n in ast.walk(src_tree) if isinstance(n, ast.Compare) and len(n.ops) == 1]
    for idx, c in enumerate(cmps):
        yield f"flip cmp #{idx} L{c.lineno}: {ast.unparse(c)[:70]}", ("cmp", idx)
    bools = [n for n in ast.walk(src_tree) if isinstance(n, ast.BoolOp)]
    for idx, b in enumerate(bools):
        yield f"swap and/or #{idx} L{b.lineno}: {ast.unparse(b)[:70]}", ("bool", idx)
    ints = [n for n in ast.walk(src_tree) if isinstance(n, ast.Constant) and isinstance(n.value, int) and not isinstance(n.value, bool)]
    for idx, k in enumerate(ints):
        yield f"bump int #{idx} L{k.lineno}: {k.value} -> {k.value + 1}", ("int", idx)


FLIP = {ast.Lt: ast.LtE, ast.LtE: ast.Lt, ast.Gt: ast.GtE, ast.GtE: ast.Gt, ast.Eq: ast.NotEq, ast.NotEq: ast.Eq, ast.In: ast.NotIn, ast.NotIn: ast.In, ast.Is: ast.IsNot, ast.IsNot: ast.Is}


def apply(tree, qual, kind, idx):
    node = tree
    for part in qual.split("."):
        node = next(n for n in ast.walk(node) if isinstance(n, (ast.FunctionDef, ast.ClassDef)) and n.name == part and n is not node)
    if kind == "del":
        simple = [n for n in ast.walk(node) if isinstance(n, (ast.Assign, ast.AugAssign, ast.Expr, ast.Return, ast.Raise, ast.Assert, ast.AnnAssign, ast.Continue, ast.Break))
                  and not (isinstance(n, ast.Expr) and isinstance(n.value, ast.Constant))]
        target = simple[idx]
        for parent in ast.walk(node):
            for field in ("body", "orelse", "finalbody"):
                lst = getattr(parent, field, None)
                if isinstance(lst, list) and target in lst:
                    lst[lst.index(target)] = ast.Pass()
                    return
    elif kind == "cmp":
        c = [n for n in ast.walk(node) if isinstance(n, ast.Compare) and len(n.ops) == 1][idx]
        c.ops = [FLIP[type(c.ops[0])]()]
    elif kind == "bool":
        b = [n for n in ast.walk(node) if isinstance(n, ast.BoolOp)][idx]
        b.op = ast.Or() if isinstance(b.op, ast.And) else ast.And()
    elif kind == "int":
        k = [n for n in ast.walk(node) if isinstance(n, ast.Constant) and isinstance(n.value, int) and not isinstance(n.value, bool)][idx]
        k.value = k.value + 1


def run_one(args):
    prop, relpath, qual, desc, kind, idx = args
    tmp = Path(tempfile.mkdtemp(prefix="mutscore_"))
    try:
        shutil.copytree("/repo/permuta", tmp / "permuta", ignore=shutil.ignore_patterns("__pycache__", "resources"))
        p = tmp / relpath
        tree = ast.parse(p.read_text())
        try:
            apply(tree, qual, kind, idx)
        except Exception as exc:  # noqa
            return (desc, "SKIP " + str(exc)[:60])
        ast.fix_missing_locations(tree)
        p.write_text(ast.unparse(tree))
        env = dict(os.environ, VERIF_REPO=str(tmp), PYTHONDONTWRITEBYTECODE="1")
        code = ("from sa.__main__ import evaluate\nfrom sa.core import AnalysisError\nfrom sa.report import load_known\n"
                f"try:\n ctx=evaluate('{prop}')\n k,_=load_known(); new=[f for f in ctx.findings if f.key not in k]\n print('FIRED' if new else 'SILENT')\nexcept AnalysisError as e:\n print('UNDECIDED')")
        out = subprocess.run(["/venv/bin/python", "-c", code], cwd=VERIF, env=env, capture_output=True, text=True)
        return (desc, out.stdout.strip().split("\n")[0] or "CRASH " + out.stderr[-100:])
    finally:
        shutil.rmtree(tmp, ignore_errors=True)


def main():
    for prop in sys.argv[1:]:
        repo, wheres = functions_of(prop)
        jobs = []
        for w in wheres:
            fi = repo.funcs[w]
            qual = fi.qual.replace(".<locals>.", ".")
            for desc, (kind, idx) in mutants_for(fi):
                jobs.append((prop, fi.module.relpath, qual, f"{fi.qual}: {desc}", kind, idx))
        with ProcessPoolExecutor(16) as ex:
            res = list(ex.map(run_one, jobs, chunksize=4))
        counts = {}
        for _d, r in res:
            counts[r.split()[0]] = counts.get(r.split()[0], 0) + 1
        print(f"== {prop}: {len(jobs)} mutants over {len(wheres)} functions: {counts}")
        for d, r in res:
            if r.startswith("SILENT") or r.startswith("CRASH"):
                print("   ", r.split()[0], d)


if __name__ == "__main__":
    main()
