#!/usr/bin/env python3
"""Exploratory companion of mutscore.py: of the single-edit mutants on which a property's check stays SILENT, which
ones also survive the pinned test suite?  Those are the realistic blind-spot candidates (reviewed by hand; many are
equivalent mutants or outside the claimed clauses).  Scratch copies live under a mkdtemp directory and are removed.

usage: mutsurvive.py <mutscore-output-file>...     (files produced by `mutscore.py PROP > file`)
"""
import ast
import json
import os
import re
import shutil
import subprocess
import sys
import tempfile
from concurrent.futures import ThreadPoolExecutor
from pathlib import Path

sys.path.insert(0, str(Path(__file__).resolve().parent.parent))
from sa.core import Repo  # noqa: E402
from tools.mutscore import apply  # noqa: E402

KIND = {"delete stmt": "del", "flip cmp": "cmp", "swap and/or": "bool", "bump int": "int"}


def parse(files):
    repo = Repo()
    by_qual = {}
    for fi in repo.all_funcs():
        by_qual.setdefault(fi.qual, fi)
    seen = {}
    for f in files:
        prop = Path(f).stem
        for line in Path(f).read_text().splitlines():
            m = re.match(r"\s+SILENT (.+?): (delete stmt|flip cmp|swap and/or|bump int) #(\d+) (.*)", line)
            if not m:
                continue
            qual, kind, idx, rest = m.group(1), KIND[m.group(2)], int(m.group(3)), m.group(4)
            fi = by_qual.get(qual)
            if fi is None:
                continue
            key = (fi.module.relpath, qual.replace(".<locals>.", "."), kind, idx)
            seen.setdefault(key, (prop, f"{qual}: {m.group(2)} #{idx} {rest}"))
    return seen


def run_one(item):
    (relpath, qual, kind, idx), (prop, desc) = item
    tmp = Path(tempfile.mkdtemp(prefix="mutsurv_"))
    try:
        shutil.copytree("/repo", tmp / "r", ignore=shutil.ignore_patterns(".git", "__pycache__", "dfa_db", ".benchmarks", "*.egg-info"))
        p = tmp / "r" / relpath
        tree = ast.parse(p.read_text())
        try:
            apply(tree, qual, kind, idx)
        except Exception as exc:  # noqa
            return desc, prop, "SKIP " + str(exc)[:60]
        ast.fix_missing_locations(tree)
        # keep docstrings (doctests are part of the suite): ast.unparse keeps them
        p.write_text(ast.unparse(tree))
        out = subprocess.run(["/venv/bin/python", "-m", "pytest", "-x", "-q", "-p", "no:cacheprovider", "--timeout=900", "-n", "4"], cwd=tmp / "r", capture_output=True, text=True,
                             env=dict(os.environ, PYTHONDONTWRITEBYTECODE="1"))
        tail = out.stdout.strip().splitlines()[-1] if out.stdout.strip() else out.stderr[-200:]
        return desc, prop, ("SURVIVES " if out.returncode == 0 else "killed ") + tail[:80]
    finally:
        shutil.rmtree(tmp, ignore_errors=True)


def main():
    items = list(parse(sys.argv[1:]).items())
    print(f"{len(items)} distinct silent mutants", flush=True)
    with ThreadPoolExecutor(4) as ex:
        for desc, prop, res in ex.map(run_one, items):
            if res.startswith("SURVIVES") or res.startswith("SKIP"):
                print(f"[{prop}] {res} :: {desc}", flush=True)
    print("done", flush=True)


if __name__ == "__main__":
    main()
