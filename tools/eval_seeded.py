#!/usr/bin/env python3
"""Run every check against every seeded change under /verif/seeded/<name>/patch.diff.

Each patch is applied to a scratch copy of /repo's permuta/ (mkdtemp, removed afterwards);
the checks run with VERIF_REPO pointing at the copy.  Output: a table on stdout and
/verif/seeded/RESULTS.json.   usage: eval_seeded.py [name ...]
"""
import json
import os
import shutil
import subprocess
import sys
import tempfile
from concurrent.futures import ProcessPoolExecutor
from pathlib import Path

VERIF = Path(os.environ.get("EVAL_VERIF") or Path(__file__).resolve().parent.parent)
HOME = Path(__file__).resolve().parent.parent
SEEDED = HOME / ("benign" if "--benign" in sys.argv else "seeded")
BENIGN = "--benign" in sys.argv
PROPS = ["C01", "C02", "C03", "C04", "C05", "C06", "C07", "C08", "C09", "C11", "C12", "C13", "C14", "C16", "C17", "C18", "C19", "C20"]


def run_one(name: str):
    d = SEEDED / name
    tmp = Path(tempfile.mkdtemp(prefix="seeded_"))
    try:
        shutil.copytree("/repo/permuta", tmp / "permuta", ignore=shutil.ignore_patterns("__pycache__", "resources"))
        r = subprocess.run(["patch", "-p1", "-s", "-i", str(d / "patch.diff")], cwd=tmp, capture_output=True, text=True)
        if r.returncode != 0:
            return name, {"error": "patch failed: " + (r.stdout + r.stderr)[-300:]}
        res = {}
        env = dict(os.environ, VERIF_REPO=str(tmp), PYTHONDONTWRITEBYTECODE="1")
        for p in PROPS:
            out = subprocess.run(["/venv/bin/python", "-c", f"import sys; sys.argv=['sa','check','{p}']; from sa.__main__ import evaluate; from sa.core import AnalysisError\n"
                                  f"try:\n ctx=evaluate('{p}')\n from sa.report import load_known; k,_=load_known(); new=[f for f in ctx.findings if f.key not in k]\n print('FIRED' if new else 'SILENT'); [print('  ', f) for f in new[:4]]\nexcept AnalysisError as e:\n print('UNDECIDED', str(e)[:300])"],
                                 cwd=VERIF, env=env, capture_output=True, text=True)
            txt = out.stdout.strip() if out.stdout.strip().split("\n")[0].split(" ")[0] in ("FIRED", "SILENT", "UNDECIDED") else "UNDECIDED crash: " + (out.stderr.strip()[-300:] or out.stdout.strip()[-300:])
            res[p] = txt
        return name, res
    finally:
        shutil.rmtree(tmp, ignore_errors=True)


def main():
    names = [a for a in sys.argv[1:] if not a.startswith("--")] or sorted(p.name for p in SEEDED.iterdir() if (p / "patch.diff").exists())
    with ProcessPoolExecutor(8) as ex:
        results = dict(ex.map(run_one, names))
    summary = {}
    for name in names:
        res = results[name]
        meta = json.loads((SEEDED / name / "meta.json").read_text()) if (SEEDED / name / "meta.json").exists() else {}
        target = meta.get("property", "?")
        if "error" in res:
            print(f"{name}: {res['error']}")
            continue
        fired = [p for p, t in res.items() if t.startswith("FIRED")]
        undec = [p for p, t in res.items() if t.startswith("UNDECIDED")]
        verdict = "CAUGHT" if target in fired else ("caught-by-other" if fired else ("UNDECIDED(exit 2)" if undec else "MISSED"))
        if BENIGN:
            verdict = "FALSE-ALARM" if fired else ("undecided(exit 2)" if undec else "silent")
        print(f"{name:28s} target={target} {verdict:18s} fired={fired} undecided={undec}")
        for p in fired + undec:
            print("      ", p, res[p].splitlines()[1].strip()[:200] if len(res[p].splitlines()) > 1 else res[p][:200])
        summary[name] = {"target": target, "verdict": verdict, "fired": fired, "undecided": undec, "detail": {p: res[p] for p in fired + undec}}
    out = Path(os.environ["EVAL_OUT"]) if os.environ.get("EVAL_OUT") else SEEDED / "RESULTS.json"
    if [a for a in sys.argv[1:] if not a.startswith("--")] and out.exists():
        # a partial run updates the entries it evaluated and keeps the others
        old = json.loads(out.read_text())
        old.update(summary)
        summary = {k: old[k] for k in sorted(old) if (SEEDED / k / "patch.diff").exists()}
    if out.exists():
        # patches made against an earlier /repo head that no longer apply after a fix: commit keep their last verdict, marked stale
        for k, v in json.loads(out.read_text()).items():
            if k not in summary and v.get("stale") and (SEEDED / k / "patch.diff").exists():
                summary[k] = v
        summary = {k: summary[k] for k in sorted(summary)}
    out.write_text(json.dumps(summary, indent=1))


if __name__ == "__main__":
    main()
