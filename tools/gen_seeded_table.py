#!/venv/bin/python
"""Print the DESIGN.md table for one round of seeded changes from seeded/<id>/meta.json, seeded/FIRST_RUN_<tag>.json
and seeded/RESULTS.json (the current verdicts).  usage: tools/gen_seeded_table.py r3"""
import json
import re
import sys
from pathlib import Path

tag = sys.argv[1]
root = Path("/verif/seeded")
first = json.loads((root / f"FIRST_RUN_{tag}.json").read_text())
res = json.loads((root / "RESULTS.json").read_text())
print("| change | what it does | first run | now |")
print("|---|---|---|---|")
tally = {}
for d in sorted(root.iterdir()):
    if not d.is_dir() or f"-{tag}m" not in d.name:
        continue
    meta = json.loads((d / "meta.json").read_text())
    summ = re.sub(r"\s+", " ", meta.get("summary", "")).replace("|", "/")
    if len(summ) > 230:
        summ = summ[:227] + "..."
    r = res.get(d.name, {})
    v = r.get("verdict", "?")
    rules = sorted(set(re.findall(r"\[(C\d\d-[A-Za-z0-9]+)\]", " ".join(r.get("detail", {}).values()))))
    now = {"CAUGHT": "caught", "MISSED": "missed"}.get(v, v.lower())
    if rules and "caught" in now.lower():
        now += " – **" + ", ".join(rules[:3]) + "**"
    tally[now.split(" ")[0].split("(")[0]] = tally.get(now.split(" ")[0].split("(")[0], 0) + 1
    print(f"| {d.name} | {summ} | {first.get(d.name, '?')} | {now} |")
print()
print("tally now:", tally)
