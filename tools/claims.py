# executed by gen_manifest.py: claim(...) / na(...)
claim("C01", "static analysis: memo purity/effect inference + skeleton comparison (ast)",
      "Clause-level static decision: the per-pattern search table is history independent (memo on the object, pure value, no mutating reader) and contains/avoids/avoids_set/in/counts are fixed aggregates of occurrences_in, for every execution. Does NOT decide that the backtracking search lists exactly the occurrences.",
      "Decides the 'histories' quantifier and the derived-API clause only.", "DESIGN.md §3 C01")
claim("C08", "static analysis: equality/hash/order class-hierarchy lint (ast)",
      "Static decision of the eq/hash/order laws from the class hierarchy: co-definition, value-based hash, hash fields within compared fields, one hash per equality group, symmetric acceptance, ordering guards covering the group, key order consistent with equality, hashed state written only by constructors.",
      "Holds for every object and allocation history given the trusted base.", "DESIGN.md §3 C08")
claim("C13", "static analysis: one-shot iterable dataflow + memo purity + registry/sibling-template checks (ast)",
      "Static decision of container/history/order independence (one-shot discipline with callee summaries, pure process-wide memo tables, commutative combinators) and of necessary conditions for the 'all ten types' / 'all four shapes' tests (table exhaustiveness, sibling agreement with their names, mask constant, odd quarter turn). Does NOT decide that each structural test recognises its class.",
      "Value-level correctness of the type tests is not claimed.", "DESIGN.md §3 C13")
for pid in ["C02", "C03", "C04", "C05", "C06", "C07", "C09", "C11", "C12", "C14", "C16", "C17", "C18", "C19", "C20"]:
    na(pid, "check under construction in this session (see DESIGN.md §3); will be claimed once its rules are evaluated and self-tested")
na("C10", "bijectivity, group laws, decomposition/re-assembly are identities between computed values for all arguments; the operations insert/delete/standardise and are not affine in a form the abstract interpreter can extract, so no sound static argument is in reach")
na("C15", "language equivalence between a constructed NFA and a semantic predicate over infinitely many words; the structural fragments (difference taken from M, database protocol) are evaluated under C16-W2 and C20-D1 and are too marginal to carry a claim for C15")
