# executed by gen_manifest.py: claim(...) / na(...)
claim("C01", "static analysis: memo purity/effect inference + skeleton comparison (ast)",
      "Clause-level static decision: the per-pattern search table is history independent (memo on the object, pure value, no mutating reader) and contains/avoids/avoids_set/in/counts are fixed aggregates of occurrences_in, for every execution. Does NOT decide that the backtracking search lists exactly the occurrences.",
      "Decides the 'histories' quantifier and the derived-API clause only.", "DESIGN.md §3 C01")
claim("C08", "static analysis: equality/hash/order class-hierarchy lint (ast)",
      "Static decision of the eq/hash/order laws from the class hierarchy: co-definition, value-based hash, hash fields within compared fields, one hash per equality group, symmetric acceptance, ordering guards covering the group, key order consistent with equality, hashed state written only by constructors.",
      "Holds for every object and allocation history given the trusted base.", "DESIGN.md §3 C08")
claim("C13", "static analysis: one-shot iterable dataflow + memo purity + registry/sibling-template checks (ast)",
      "Static decision of container/history/order independence (one-shot discipline with callee summaries, pure process-wide memo tables, commutative combinators) and of necessary conditions for the 'all ten types' / 'all four shapes' tests (table exhaustiveness, sibling agreement with their names, mask constant, odd quarter turn). Does NOT decide that each structural test recognises its class.",
      "Value-level correctness of the type tests is not claimed.", "DESIGN.md §3 C13")
claim("C02", "static analysis: alias/effect analysis of the shared level cache + skeleton comparison (ast)",
      "Static decision of the 'histories' half: published levels keep their key set, the level list is monotone (compaction = key-preserving copy), per-instance state is fresh, the identity map is touched only by construction/clear_cache, lookup-or-insert is complete, and count/of_length/in/enumeration/up_to_length/first/is_subclass are fixed aggregates of the level reached through the ensure step. Does NOT decide that a level equals the set of avoiders.",
      "One known finding (Av._all early exit for mesh bases) is listed in known_findings.jsonl.", "DESIGN.md §3 C02")
claim("C05", "static analysis: structural check of the sort-then-prune constructor + one-shot dataflow + eq/order lint (ast)",
      "Static decision that pruning only ever sees the canonically sorted list of all inputs (order/repetition independence), that mixtures of mesh-type patterns are sortable, that one-shot iterables are accepted, that equal bases map to one class object and that text parsing standardises tokens. Does NOT decide minimality/fixed point of the greedy pruning.",
      "Minimality is documented as undecidable here (MeshPatt sort key is not a linear extension of containment).", "DESIGN.md §3 C05")
claim("C07", "static analysis: lock-discipline / lock-held-on-entry fixpoint / dominance of unlocked reads (ast)",
      "Lock discipline decided for every schedule: all writes to the shared level cache (and its aliases) under the one class lock, lock bound once, no re-entry, unlocked reads dominated by a locked ensure of the same index, published levels key-stable and list monotone. Shows 'same result as when run alone', not that the result is right.",
      "Relative to GIL atomicity of single list/dict operations.", "DESIGN.md §3 C07")
claim("C11", "static analysis: skeleton comparison of count/list pairs and tools, reviewed label->method table, one-shot dataflow (ast)",
      "Static decision that each derived counting form is the size of the listing of the same concept, that the statistics table binds every known label to the method of that concept, that the preservation/transformation/equidistribution tools implement their defining identities, and that comprehension-defined statistics state their mathematical definition. Does NOT decide loop/recursion-computed statistics.",
      "Two known findings (LIS/LDS labels bound to longest-run functions; pinned by the README doctest).", "DESIGN.md §3 C11")
claim("C19", "static analysis: skeleton comparison + registry exhaustiveness over the class hierarchy + one-shot dataflow (ast)",
      "Static decision that core strategies are tried on every symmetry, that the core test is 'needed patterns excluded And all other elements valid extensions', that every concrete strategy is registered exactly once and quick = slow minus the slow strategies, that the basis is normalised to a frozenset and accepted as a one-shot iterable. Does NOT decide the shape helpers or the corollaries' pattern sets.",
      "", "DESIGN.md §3 C19")
for pid in ["C03", "C04", "C06", "C09", "C12", "C14", "C16", "C17", "C18", "C20"]:
    na(pid, "check under construction in this session (see DESIGN.md §3); will be claimed once its rules are evaluated and self-tested")
na("C10", "bijectivity, group laws, decomposition/re-assembly are identities between computed values for all arguments; the operations insert/delete/standardise and are not affine in a form the abstract interpreter can extract, so no sound static argument is in reach")
na("C15", "language equivalence between a constructed NFA and a semantic predicate over infinitely many words; the structural fragments (difference taken from M, database protocol) are evaluated under C16-W2 and C20-D1 and are too marginal to carry a claim for C15")
