#!/usr/bin/env python3
"""Confirm a sub-agent's behaviour-preserving change and keep it under /verif/benign/.

usage: confirm_benign.py <PROP> <k> [--skip-suite]     (worktree /tmp/wt/<PROP>b, files in _out/b<k>/)
Checks: equiv.py prints the same DIGEST on the pristine worktree and with the patch applied, the patch
touches only permuta/, the pinned test suite passes with the patch; then the worktree is restored.
"""
import json
import re
import shutil
import subprocess
import sys
from pathlib import Path

prop, k = sys.argv[1], sys.argv[2]
skip_suite = "--skip-suite" in sys.argv
tag = sys.argv[sys.argv.index("--tag") + 1] if "--tag" in sys.argv else ""
wt = Path(sys.argv[sys.argv.index("--wt") + 1]) if "--wt" in sys.argv else Path(f"/tmp/wt/{prop}b")
src = wt / "_out" / f"b{k}"
PY = "/venv/bin/python"


def sh(cmd, **kw):
    return subprocess.run(cmd, cwd=wt, capture_output=True, text=True, **kw)


def digest():
    r = sh([PY, str(src / "equiv.py")], timeout=1800)
    m = re.search(r"DIGEST ([0-9a-f]{16,})", r.stdout)
    assert r.returncode == 0 and m, f"equiv.py failed: {(r.stdout + r.stderr)[-300:]}"
    return m.group(1)


assert (src / "patch.diff").exists(), f"{src}/patch.diff missing"
st = sh(["git", "status", "--short", "--", "permuta", "tests"]).stdout.strip()
assert not st, f"worktree not pristine: {st}"
rec = {"digest_pristine": digest()}
r = sh(["git", "apply", str(src / "patch.diff")])
assert r.returncode == 0, f"patch does not apply: {r.stderr}"
try:
    files = sh(["git", "diff", "--name-only"]).stdout.split()
    assert files and all(f.startswith("permuta/") for f in files), f"patch touches {files}"
    rec["digest_patched"] = digest()
    assert rec["digest_patched"] == rec["digest_pristine"], f"digests differ: {rec}"
    if not skip_suite:
        r = sh([PY, "-m", "pytest", "-q", "-p", "no:cacheprovider", "--timeout=900", "-n", "6"], timeout=3600)
        tail = r.stdout.strip().splitlines()[-1] if r.stdout.strip() else r.stderr[-200:]
        rec["suite_patched"] = tail
        assert r.returncode == 0 and "542 passed" in tail, f"suite does not pass with the patch: {tail}"
finally:
    sh(["git", "checkout", "--", "permuta"])
dst = Path(f"/verif/benign/{prop}-{tag}b{k}")
dst.mkdir(parents=True, exist_ok=True)
shutil.copy(src / "patch.diff", dst / "patch.diff")
shutil.copy(src / "equiv.py", dst / "equiv.py")
meta = json.loads((src / "meta.json").read_text())
meta["property"] = prop
meta["files"] = files
meta["confirmed"] = {"by": "tools/confirm_benign.py in scratch worktree " + str(wt), **rec}
(dst / "meta.json").write_text(json.dumps(meta, indent=1))
print(f"kept {dst}: {rec}")
