#!/usr/bin/env python3
"""Confirm a sub-agent's seeded change in its scratch worktree and keep it under /verif/seeded/.

usage: confirm_seeded.py <PROP> <k> [--skip-suite]
Checks: demo passes on the pristine worktree, patch applies, demo fails with the patch, the pinned
test suite passes with the patch; then the worktree is restored.
"""
import json
import shutil
import subprocess
import sys
from pathlib import Path

prop, k = sys.argv[1], sys.argv[2]
skip_suite = "--skip-suite" in sys.argv
tag = ""
if "--tag" in sys.argv:
    tag = sys.argv[sys.argv.index("--tag") + 1]
wt = Path(f"/tmp/wt/{prop}{tag}")
src = wt / "_out" / f"m{k}"
PY = "/venv/bin/python"


def sh(cmd, **kw):
    return subprocess.run(cmd, cwd=wt, capture_output=True, text=True, **kw)


assert (src / "patch.diff").exists(), f"{src}/patch.diff missing"
st = sh(["git", "status", "--short", "--", "permuta", "tests"]).stdout.strip()
assert not st, f"worktree not pristine: {st}"
rec = {}
r = sh([PY, str(src / "demo.py")], timeout=900)
rec["demo_pristine"] = {"exit": r.returncode, "tail": (r.stdout + r.stderr)[-200:]}
assert r.returncode == 0, f"demo fails on pristine code: {rec}"
r = sh(["git", "apply", str(src / "patch.diff")])
assert r.returncode == 0, f"patch does not apply: {r.stderr}"
try:
    files = sh(["git", "diff", "--name-only"]).stdout.split()
    assert files and all(f.startswith("permuta/") for f in files), f"patch touches {files}"
    r = sh([PY, "-c", "import permuta"])
    assert r.returncode == 0, "import fails with the patch"
    r = sh([PY, str(src / "demo.py")], timeout=900)
    rec["demo_patched"] = {"exit": r.returncode, "tail": (r.stdout + r.stderr)[-300:]}
    assert r.returncode != 0, "demo does not fail with the patch"
    if not skip_suite:
        r = sh([PY, "-m", "pytest", "-q", "-p", "no:cacheprovider", "--timeout=900", "-n", "6"], timeout=1800)
        tail = r.stdout.strip().splitlines()[-1] if r.stdout.strip() else r.stderr[-200:]
        rec["suite_patched"] = tail
        assert r.returncode == 0 and "542 passed" in tail, f"suite does not pass with the patch: {tail}"
finally:
    sh(["git", "checkout", "--", "permuta"])
    shutil.rmtree(wt / "dfa_db", ignore_errors=True) if False else None
dst = Path(f"/verif/seeded/{prop}-{tag}m{k}")
dst.mkdir(parents=True, exist_ok=True)
shutil.copy(src / "patch.diff", dst / "patch.diff")
shutil.copy(src / "demo.py", dst / "demo.py")
meta = json.loads((src / "meta.json").read_text())
meta["property"] = prop
meta["files"] = files
meta["confirmed"] = {"by": "tools/confirm_seeded.py in scratch worktree " + str(wt), **rec,
                     "ran": [f"cd {wt} && {PY} _out/m{k}/demo.py (pristine: exit 0)", f"git apply _out/m{k}/patch.diff", f"{PY} _out/m{k}/demo.py (patched: non-zero)",
                             f"{PY} -m pytest -q -p no:cacheprovider --timeout=900 -n 6 (patched: 542 passed)", "git checkout -- permuta"]}
(dst / "meta.json").write_text(json.dumps(meta, indent=1))
print(f"kept {dst}: {rec}")
