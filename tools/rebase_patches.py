#!/usr/bin/env python3
"""Re-base kept patches (seeded/, benign/) that no longer apply to /repo's HEAD after a fix: commit.
Uses `git apply --3way` in a scratch worktree (the patches carry blob ids); a patch that merges without conflict is
rewritten as a diff against HEAD (the original is kept as patch.orig.diff), others are reported."""
import subprocess
import sys
import tempfile
import shutil
from pathlib import Path

VERIF = Path(__file__).resolve().parent.parent


def sh(cmd, cwd):
    return subprocess.run(cmd, cwd=cwd, capture_output=True, text=True)


def main():
    wt = Path(tempfile.mkdtemp(prefix="rebase_")) / "wt"
    assert sh(["git", "-C", "/repo", "worktree", "add", "--detach", str(wt), "HEAD"], "/repo").returncode == 0
    try:
        for kind in ("seeded", "benign"):
            for d in sorted((VERIF / kind).iterdir()):
                p = d / "patch.diff"
                if not p.exists():
                    continue
                if sh(["git", "apply", "--check", str(p)], wt).returncode == 0:
                    continue
                r = sh(["git", "apply", "--3way", str(p)], wt)
                st = sh(["git", "status", "--short"], wt).stdout
                if r.returncode == 0 and "UU" not in st and "AA" not in st:
                    new = sh(["git", "diff", "HEAD"], wt).stdout
                    if not (d / "patch.orig.diff").exists():
                        shutil.copy(p, d / "patch.orig.diff")
                    p.write_text(new)
                    print(f"rebased {kind}/{d.name}")
                else:
                    print(f"CONFLICT {kind}/{d.name}: {r.stderr.strip()[:120]}")
                sh(["git", "reset", "--hard", "-q", "HEAD"], wt)
                sh(["git", "clean", "-fdq"], wt)
    finally:
        sh(["git", "-C", "/repo", "worktree", "remove", "--force", str(wt)], "/repo")
        shutil.rmtree(wt.parent, ignore_errors=True)


if __name__ == "__main__":
    main()
