#!/venv/bin/python
"""Write reference/shapes.json: canonical token sequences of every function of /repo as reviewed (run by hand on the pinned
tree with the fix commits applied; never run by a check)."""
import json
import subprocess
import sys
from pathlib import Path

sys.path.insert(0, str(Path(__file__).resolve().parent.parent))
from sa.core import Repo  # noqa: E402
from sa.shapes import REF_FILE, tokens_of  # noqa: E402
from sa.canon import stored_names  # noqa: E402

repo = Repo()
out = {fi.where: tokens_of(fi.node) for fi in repo.all_funcs()}
head = subprocess.run(["git", "-C", str(repo.root), "rev-parse", "HEAD"], capture_output=True, text=True).stdout.strip()
dirty = subprocess.run(["git", "-C", str(repo.root), "status", "--short", "--", "permuta"], capture_output=True, text=True).stdout.strip()
assert not dirty, "the working tree of the repository is not clean"
REF_FILE.parent.mkdir(exist_ok=True)
consts = {m.name: sorted(m.assigns) for m in repo.modules.values()}
locs = {fi.where: sorted(stored_names(fi.node)) for fi in repo.all_funcs()}
numbered = {fi.where: tokens_of(fi.node, numbered=True) for fi in repo.all_funcs()}
REF_FILE.write_text(json.dumps({"commit": head, "functions": out, "functions_numbered": numbered, "module_names": consts, "locals": locs}))
print(len(out), "functions", head)
