#!/venv/bin/python
"""Point-wise equivalence sweep (run by hand; not a registered check).

The thorough tier applies every behaviour-preserving rewrite of sa/selftest.py to a WHOLE file.  A whole-file rewrite moves
many functions far from their reviewed shape, where textual rules abstain anyway (sa/shapes.py).  The dangerous case is the
opposite one: ONE small benign edit in ONE function, which the gate trusts.  This tool applies each rewrite to one statement
(or, when the rewrite changes the number of statements, one function) at a time, in the functions a property's rules actually
look at, and runs that property's check on a scratch copy.  A check that fires is a false alarm.

usage: point_equiv.py [PROP ...] [--all-functions] [--jobs N]      output: table on stdout, reference/point_equiv.json
"""
from __future__ import annotations

import ast
import copy
import json
import multiprocessing as mp
import os
import shutil
import sys
from pathlib import Path

HOME = Path(__file__).resolve().parent.parent
sys.path.insert(0, str(HOME))
from sa.__main__ import evaluate, load_prop  # noqa: E402
from sa.core import AnalysisError  # noqa: E402
from sa.report import load_known  # noqa: E402
from sa.selftest import equiv_table, make_scratch, repo_root  # noqa: E402

PROPS = ["C01", "C02", "C03", "C04", "C05", "C06", "C07", "C08", "C09", "C11", "C12", "C13", "C14", "C16", "C17", "C18", "C19", "C20"]


def functions(tree: ast.Module):
    """(qualname, node) of every function, nested ones included"""
    out = []

    def walk(body, qual):
        for st in body:
            if isinstance(st, ast.ClassDef):
                walk(st.body, f"{qual}.{st.name}" if qual else st.name)
            elif isinstance(st, (ast.FunctionDef, ast.AsyncFunctionDef)):
                q = f"{qual}.{st.name}" if qual else st.name
                out.append((q, st))
                walk(st.body, f"{q}.<locals>")
    walk(tree.body, "")
    return out


def consulted(prop: str):
    """where-keys of the functions the property's rules have obligations or findings on (clean tree)"""
    try:
        ctx = evaluate(prop)
    except AnalysisError:
        return None
    keys = {o["where"] for o in ctx.obligations} | {f.where for f in ctx.findings}
    return keys


def plan(prop: str, all_functions: bool):
    mod = load_prop(prop)
    files = getattr(mod, "GENERIC_FILES", [])
    keys = None if all_functions else consulted(prop)
    jobs = []
    for rel in files:
        path = repo_root() / rel
        src = path.read_text(encoding="utf-8")
        base = ast.parse(src)
        module = rel[:-3].replace("/", ".")
        base_funcs = dict(functions(base))
        base_text = {q: ast.unparse(n) for q, n in base_funcs.items()}
        for ti, (tag, fn, _note) in enumerate(equiv_table()):
            tree = copy.deepcopy(base)
            try:
                fn(tree)
            except Exception:  # pylint: disable=broad-except
                continue
            for q, node in functions(tree):
                if q not in base_text or ast.unparse(node) == base_text[q]:
                    continue
                if keys is not None and f"{module}:{q}" not in keys:
                    continue
                if any(q.startswith(o + ".<locals>") for o in base_text if o != q and ast.unparse(dict(functions(tree))[o]) != base_text[o]) and False:
                    continue
                old = base_funcs[q]
                if len(old.body) == len(node.body):
                    idxs = [i for i in range(len(old.body)) if ast.unparse(old.body[i]) != ast.unparse(node.body[i])]
                    for i in idxs:
                        jobs.append((prop, rel, ti, tag, q, i))
                    if tag in ("swap-assigns",):
                        jobs = [j for j in jobs if not (j[4] == q and j[3] == tag and j[5] is not None)]
                    if len(idxs) > 1 or tag in ("swap-assigns",):
                        jobs.append((prop, rel, ti, tag, q, None))
                else:
                    jobs.append((prop, rel, ti, tag, q, None))
    return jobs


def run(job):
    prop, rel, ti, tag, q, idx = job
    res = {"prop": prop, "file": rel, "rewrite": tag, "function": q, "statement": idx}
    tmp = None
    try:
        tmp = make_scratch(repo_root())
        path = tmp / rel
        base = ast.parse(path.read_text(encoding="utf-8"))
        tree = copy.deepcopy(base)
        equiv_table()[ti][1](tree)
        new = dict(functions(tree))[q]
        tgt = dict(functions(base))[q]
        if idx is None:
            tgt.body = new.body
            tgt.args = new.args
        else:
            tgt.body[idx] = new.body[idx]
        # module-level additions of the rewrite (imports, constants) are kept when the function needs them
        extra = [st for st in tree.body if isinstance(st, (ast.Import, ast.ImportFrom, ast.Assign)) and ast.unparse(st) not in {ast.unparse(x) for x in base.body}]
        names_used = {n.id for n in ast.walk(tgt) if isinstance(n, ast.Name)}
        keep = [st for st in extra if any((a.asname or a.name).split(".")[0] in names_used for a in getattr(st, "names", [])) or
                (isinstance(st, ast.Assign) and any(isinstance(t, ast.Name) and t.id in names_used for t in st.targets))]
        if keep:
            pos = next((i for i, st in enumerate(base.body) if not (isinstance(st, (ast.Import, ast.ImportFrom)) or (isinstance(st, ast.Expr) and isinstance(st.value, ast.Constant)))), 0)
            base.body[pos:pos] = keep
        ast.fix_missing_locations(base)
        text = ast.unparse(base) + "\n"
        compile(text, rel, "exec")
        path.write_text(text, encoding="utf-8")
        try:
            ctx = evaluate(prop, tmp)
        except AnalysisError as exc:
            res.update(outcome="undecided", detail=str(exc)[:200])
            return res
        known, _ = load_known()
        new_f = [f for f in ctx.findings if f.key not in known]
        if new_f:
            res.update(outcome="FIRED", detail="; ".join(f"[{f.rule}] {f.where.split(':')[-1]}: {f.message[:160]}" for f in new_f[:3]), after=ast.unparse(tgt.body[idx])[:300] if idx is not None else "")
        else:
            res.update(outcome="silent", detail="")
        return res
    except Exception as exc:  # pylint: disable=broad-except
        res.update(outcome="crash", detail=f"{type(exc).__name__}: {exc}"[:200])
        return res
    finally:
        if tmp is not None:
            shutil.rmtree(tmp, ignore_errors=True)


def main():
    args = [a for a in sys.argv[1:] if not a.startswith("--")]
    all_functions = "--all-functions" in sys.argv
    njobs = int(sys.argv[sys.argv.index("--jobs") + 1]) if "--jobs" in sys.argv else min(16, os.cpu_count() or 4)
    if "--jobs" in sys.argv:
        args = [a for a in args if a != sys.argv[sys.argv.index("--jobs") + 1]]
    props = args or PROPS
    out_file = HOME / "reference" / "point_equiv.json"
    summary = json.loads(out_file.read_text()) if out_file.exists() else {}
    for prop in props:
        jobs = plan(prop, all_functions)
        with mp.get_context("fork").Pool(njobs) as pool:
            results = pool.map(run, jobs, chunksize=4)
        count = {}
        for r in results:
            count[r["outcome"]] = count.get(r["outcome"], 0) + 1
        print(f"{prop}: {len(results)} point rewrites: {count}", flush=True)
        for r in results:
            if r["outcome"] in ("FIRED", "crash"):
                print(f"   {r['outcome']} {r['rewrite']} @ {r['function']}[{r['statement']}]: {r['detail'][:300]}")
                if r.get("after"):
                    print(f"        now: {r['after'][:200]}")
        summary[prop] = {"variants": len(results), **count, "fired": [r for r in results if r["outcome"] == "FIRED"]}
        out_file.write_text(json.dumps(summary, indent=1))


if __name__ == "__main__":
    main()
