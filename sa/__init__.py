"""Static-analysis verification machinery for PermutaTriangle/Permuta.

Everything in this package decides properties from the *source* of /repo
(``ast`` only).  Nothing here imports ``permuta`` or executes library code.
"""
