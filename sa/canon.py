"""Source canonicalisation applied to every module when it is parsed.

Rules that compare program text (``unparse(node) == "..."``) are only as robust as the text is canonical.  The
rewrites below are behaviour preserving on any Python program whose sub-expressions are evaluated for value only
(comparison operands evaluated in the other order, a name/constant evaluated twice): they erase small syntactic
freedom so that the rules see one spelling:

* ``a > b`` -> ``b < a``;  ``a >= b`` -> ``b <= a``
* ``a == b`` / ``a != b``: a literal operand goes to the right, otherwise the operands are ordered by their text
* ``a < b < c`` -> ``a < b and b < c`` when ``b`` is a name, an attribute chain or a constant
* ``not (a == b)`` -> ``a != b`` (and the other single comparisons), ``not not c`` -> ``c``, ``not (A and B)`` -> ``not A or not B``
* ``a, b = x, y`` -> ``a = x; b = y`` when no right-hand side mentions a target
* ``if C: x = A`` / ``else: x = B`` -> ``x = A if C else B``
* ``if A: return X`` followed by ``if B: return X`` -> ``if A or B: return X`` (same single exit statement)
* ``X if not c else Y`` -> ``Y if c else X``;  ``if not c: A else: B`` -> ``if c: B else: A`` (no elif chain); the same for the
  negative comparisons ``!=``, ``not in``, ``is not`` and for ``a <= b`` (written ``b < a`` with the branches exchanged)
* ``x[len(x) - 1]`` -> ``x[-1]``;  keyword arguments in name order;  ``n - 1 - i`` -> ``n - i - 1`` (integer +/- chains: positive terms,
  negative terms, folded constant)
* ``range(0, n)`` -> ``range(n)``;  ``1 + i`` -> ``i + 1`` (integer constant operand of + and * goes to the right)
* ``if a: if b: X`` -> ``if a and b: X`` (no else branches);  a loop body ``if c: continue; REST`` -> ``if not c: REST``
* ``x = x + 1`` -> ``x += 1`` (name target, integer constant);  ``x += [y]`` -> ``x.append(y)``;  ``list()`` / ``dict()`` -> ``[]`` / ``{}``
* inside functions ``x: T = e`` -> ``x = e`` for a plain local
* ``x = list(E); x.sort()`` -> ``x = sorted(E)``;  ``for v in E: yield v`` -> ``yield from E``;  ``t = E; <statement reading t once in its header>`` -> the statement with ``E`` in
  place of ``t`` when ``t`` occurs nowhere else in the function
* ``t = E; return t`` -> ``return E`` when ``t`` is a plain local that no nested function or lambda refers to

Line numbers are kept (``copy_location``), so reports still point at the source.
"""

from __future__ import annotations

import ast
import copy
import os
from typing import List

_NEG = {ast.Eq: ast.NotEq, ast.NotEq: ast.Eq, ast.Lt: ast.GtE, ast.GtE: ast.Lt, ast.Gt: ast.LtE, ast.LtE: ast.Gt, ast.In: ast.NotIn, ast.NotIn: ast.In, ast.Is: ast.IsNot, ast.IsNot: ast.Is}


def _is_literal(n: ast.AST) -> bool:
    if isinstance(n, ast.Constant):
        return True
    if isinstance(n, ast.UnaryOp) and isinstance(n.op, ast.USub) and isinstance(n.operand, ast.Constant):
        return True
    if isinstance(n, (ast.Tuple, ast.List, ast.Set)):
        return all(_is_literal(e) for e in n.elts)
    if isinstance(n, ast.Call) and isinstance(n.func, ast.Name) and n.func.id in ("set", "frozenset", "tuple", "list", "dict") and not n.keywords \
            and (not n.args or (len(n.args) == 1 and _is_literal(n.args[0]))):
        return True  # set(), set([]), frozenset() ...
    return False


def _simple(n: ast.AST) -> bool:
    if isinstance(n, (ast.Name, ast.Constant)):
        return True
    if isinstance(n, ast.Attribute):
        return _simple(n.value)
    return False


class Canon(ast.NodeTransformer):
    def visit_Compare(self, node: ast.Compare):
        self.generic_visit(node)
        if len(node.ops) > 1:
            if all(_simple(c) for c in node.comparators[:-1]):
                parts = []
                left = node.left
                for op, right in zip(node.ops, node.comparators):
                    parts.append(self._single(ast.copy_location(ast.Compare(left=copy.deepcopy(left), ops=[op], comparators=[right]), node)))
                    left = right
                return ast.copy_location(ast.BoolOp(op=ast.And(), values=parts), node)
            return node
        return self._single(node)

    @staticmethod
    def _single(node: ast.Compare) -> ast.Compare:
        op, a, b = node.ops[0], node.left, node.comparators[0]
        if isinstance(op, ast.Gt):
            return ast.copy_location(ast.Compare(left=b, ops=[ast.Lt()], comparators=[a]), node)
        if isinstance(op, ast.GtE):
            return ast.copy_location(ast.Compare(left=b, ops=[ast.LtE()], comparators=[a]), node)
        if isinstance(op, (ast.Eq, ast.NotEq)):
            la, lb = _is_literal(a), _is_literal(b)
            swap = (la and not lb) or (la == lb and ast.unparse(b) < ast.unparse(a))
            if swap:
                return ast.copy_location(ast.Compare(left=b, ops=[op], comparators=[a]), node)
        return node

    def visit_UnaryOp(self, node: ast.UnaryOp):
        self.generic_visit(node)
        if isinstance(node.op, ast.Not):
            x = node.operand
            if isinstance(x, ast.BoolOp):
                # De Morgan: the negation goes to the operands (and from there into comparisons)
                op = ast.Or() if isinstance(x.op, ast.And) else ast.And()
                vals = [self.visit_UnaryOp(ast.copy_location(ast.UnaryOp(op=ast.Not(), operand=v), v)) for v in x.values]
                return ast.copy_location(ast.BoolOp(op=op, values=vals), node)
            if isinstance(x, ast.UnaryOp) and isinstance(x.op, ast.Not):
                return x.operand
            if isinstance(x, ast.Compare) and len(x.ops) == 1 and type(x.ops[0]) in _NEG:
                return self._single(ast.copy_location(ast.Compare(left=x.left, ops=[_NEG[type(x.ops[0])]()], comparators=x.comparators), node))
        return node

    def _positive(self, t: ast.AST):
        """(test', flipped) – a two-way branch is written with the positive form of its test: `not c` -> c, `a != b` -> a == b,
        `a not in b` -> a in b, `a is not b` -> a is b, `a <= b` -> b < a (branches exchanged)"""
        if isinstance(t, ast.UnaryOp) and isinstance(t.op, ast.Not):
            return t.operand, True
        if isinstance(t, ast.Compare) and len(t.ops) == 1 and isinstance(t.ops[0], (ast.NotEq, ast.NotIn, ast.IsNot, ast.LtE)):
            return self._single(ast.copy_location(ast.Compare(left=t.left, ops=[_NEG[type(t.ops[0])]()], comparators=t.comparators), t)), True
        return t, False

    def visit_IfExp(self, node: ast.IfExp):
        self.generic_visit(node)
        t, flipped = self._positive(node.test)
        if flipped:
            return ast.copy_location(ast.IfExp(test=t, body=node.orelse, orelse=node.body), node)
        return node

    def visit_If(self, node: ast.If):
        self.generic_visit(node)
        node.body = self._stmts(node.body)
        node.orelse = self._stmts(node.orelse)
        # if C: x = A  else: x = B   ->   x = A if C else B   (one plain-name assignment in each branch, same name)
        if len(node.body) == 1 and len(node.orelse) == 1 and all(isinstance(b, ast.Assign) and len(b.targets) == 1 and isinstance(b.targets[0], ast.Name) for b in (node.body[0], node.orelse[0])) \
                and node.body[0].targets[0].id == node.orelse[0].targets[0].id:
            ife = self.visit_IfExp(ast.copy_location(ast.IfExp(test=node.test, body=node.body[0].value, orelse=node.orelse[0].value), node))
            return ast.copy_location(ast.Assign(targets=[node.body[0].targets[0]], value=ife), node)
        if not node.orelse and len(node.body) == 1 and isinstance(node.body[0], ast.If) and not node.body[0].orelse:
            # if a: if b: X  ->  if a and b: X
            inner = node.body[0]
            vals = (list(node.test.values) if isinstance(node.test, ast.BoolOp) and isinstance(node.test.op, ast.And) else [node.test]) + \
                   (list(inner.test.values) if isinstance(inner.test, ast.BoolOp) and isinstance(inner.test.op, ast.And) else [inner.test])
            return ast.copy_location(ast.If(test=ast.copy_location(ast.BoolOp(op=ast.And(), values=vals), node.test), body=inner.body, orelse=[]), node)
        if node.orelse and not (len(node.orelse) == 1 and isinstance(node.orelse[0], ast.If)) and not (len(node.body) == 1 and isinstance(node.body[0], ast.If) and node.body[0].orelse):
            t, flipped = self._positive(node.test)
            if flipped:
                return ast.copy_location(ast.If(test=t, body=node.orelse, orelse=node.body), node)
        return node

    def visit_Subscript(self, node: ast.Subscript):
        self.generic_visit(node)
        # x[len(x) - k] -> x[-k]
        sl = node.slice
        if isinstance(sl, ast.BinOp) and isinstance(sl.op, ast.Sub) and isinstance(sl.right, ast.Constant) and type(sl.right.value) is int and sl.right.value >= 1 \
                and isinstance(sl.left, ast.Call) and isinstance(sl.left.func, ast.Name) and sl.left.func.id == "len" and len(sl.left.args) == 1 \
                and ast.dump(sl.left.args[0]) == ast.dump(node.value) and isinstance(node.value, (ast.Name, ast.Attribute)):
            node.slice = ast.copy_location(ast.UnaryOp(op=ast.USub(), operand=ast.Constant(value=sl.right.value)), sl)
        # slices without a step: x[0:k] -> x[:k];  x[a:len(x)] -> x[a:];  x[a:len(x) - 1] -> x[a:-1]   (also through a local
        # `n = len(x)` of a sequence the function neither rebinds nor resizes)
        if isinstance(sl, ast.Slice) and sl.step is None:
            if isinstance(sl.lower, ast.Constant) and type(sl.lower.value) is int and sl.lower.value == 0:
                sl.lower = None
            if sl.upper is not None and isinstance(node.value, (ast.Name, ast.Attribute)):
                if self._is_len_of(sl.upper, node.value):
                    sl.upper = None
                elif isinstance(sl.upper, ast.BinOp) and isinstance(sl.upper.op, ast.Sub) and isinstance(sl.upper.right, ast.Constant) and sl.upper.right.value == 1 and type(sl.upper.right.value) is int \
                        and self._is_len_of(sl.upper.left, node.value):
                    sl.upper = ast.copy_location(ast.UnaryOp(op=ast.USub(), operand=ast.Constant(value=1)), sl.upper)
        return node

    _len_alias: dict = {}

    def _is_len_of(self, e: ast.AST, seq: ast.AST) -> bool:
        if isinstance(e, ast.Call) and isinstance(e.func, ast.Name) and e.func.id == "len" and len(e.args) == 1 and not e.keywords and ast.dump(e.args[0]) == ast.dump(seq):
            return True
        return isinstance(e, ast.Name) and isinstance(seq, ast.Name) and self._len_alias.get(e.id) == seq.id

    @staticmethod
    def _length_aliases(fn) -> dict:
        """{n: x} for locals bound exactly once as `n = len(x)` where x is a name the function never rebinds, resizes or hands out"""
        binds: dict = {}
        stores: dict = {a.arg: 1 for a in fn.args.posonlyargs + fn.args.args + fn.args.kwonlyargs}
        unsafe: set = set()
        for n in ast.walk(fn):
            if isinstance(n, ast.Name) and isinstance(n.ctx, (ast.Store, ast.Del)):
                stores[n.id] = stores.get(n.id, 0) + 1
            if isinstance(n, ast.Assign) and len(n.targets) == 1:
                pairs = [(n.targets[0], n.value)]
                if isinstance(n.targets[0], ast.Tuple) and isinstance(n.value, ast.Tuple) and len(n.targets[0].elts) == len(n.value.elts):
                    pairs = list(zip(n.targets[0].elts, n.value.elts))  # n, i = len(x), 1
                for t, v in pairs:
                    if isinstance(t, ast.Name) and isinstance(v, ast.Call) and isinstance(v.func, ast.Name) and v.func.id == "len" and len(v.args) == 1 and isinstance(v.args[0], ast.Name) and not v.keywords:
                        binds[t.id] = v.args[0].id
            if isinstance(n, ast.Call) and isinstance(n.func, ast.Attribute) and isinstance(n.func.value, ast.Name) and n.func.attr in ("append", "extend", "insert", "pop", "remove", "clear", "add", "discard", "update", "popitem",
                                                                                                                              "appendleft", "popleft", "setdefault"):
                unsafe.add(n.func.value.id)
            if isinstance(n, (ast.Subscript,)) and isinstance(n.ctx, (ast.Store, ast.Del)) and isinstance(n.value, ast.Name):
                unsafe.add(n.value.id)
            if isinstance(n, ast.AugAssign) and isinstance(n.target, ast.Name):
                unsafe.add(n.target.id)
                stores[n.target.id] = stores.get(n.target.id, 0) + 1
            if isinstance(n, (ast.Global, ast.Nonlocal)):
                unsafe |= set(n.names)
        return {k: x for k, x in binds.items() if stores.get(k) == 1 and stores.get(x, 0) == 1 and x not in unsafe and k not in unsafe}

    def visit_Call(self, node: ast.Call):
        self.generic_visit(node)
        self._keywords_to_positional(node)
        if len(node.keywords) > 1 and all(k.arg is not None for k in node.keywords):
            node.keywords = sorted(node.keywords, key=lambda k: k.arg)  # keyword arguments in name order
        if isinstance(node.func, ast.Name) and not node.args and not node.keywords and node.func.id in ("list", "dict"):
            return ast.copy_location(ast.List(elts=[], ctx=ast.Load()) if node.func.id == "list" else ast.Dict(keys=[], values=[]), node)
        if isinstance(node.func, ast.Name) and node.func.id == "range" and len(node.args) == 2 and not node.keywords and isinstance(node.args[0], ast.Constant) and node.args[0].value == 0 \
                and type(node.args[0].value) is int:
            node.args = [node.args[1]]
        return node

    _fdepth = 0

    def visit_AnnAssign(self, node: ast.AnnAssign):
        self.generic_visit(node)
        # inside a function an annotated assignment of a plain local is an assignment (class-level annotations carry meaning)
        if self._fdepth and node.value is not None and isinstance(node.target, ast.Name):
            return ast.copy_location(ast.Assign(targets=[node.target], value=node.value), node)
        return node

    _cls_table: dict = {}
    _cls_name = None
    _mod_table: dict = {}

    @staticmethod
    def _signature(fn, method: bool):
        """positional parameter names of a def that can be called by keyword or by position alike (None otherwise)"""
        a = fn.args
        if a.vararg or a.kwarg or a.posonlyargs:
            return None
        names = [x.arg for x in a.args]
        if method and not any(isinstance(d, ast.Name) and d.id == "staticmethod" for d in fn.decorator_list):
            names = names[1:]
        return names

    def visit_Module(self, node: ast.Module):
        self._mod_table = {st.name: self._signature(st, False) for st in node.body if isinstance(st, ast.FunctionDef) and self._signature(st, False) is not None}
        rebound = {n.id for n in ast.walk(node) if isinstance(n, ast.Name) and isinstance(n.ctx, ast.Store)} | {a.arg for n in ast.walk(node) if isinstance(n, ast.arguments) for a in ast.walk(n) if isinstance(a, ast.arg)}
        self._mod_table = {k: v for k, v in self._mod_table.items() if k not in rebound}
        self.generic_visit(node)
        return node

    def visit_ClassDef(self, node: ast.ClassDef):
        d, self._fdepth = self._fdepth, 0
        saved = (self._cls_table, self._cls_name)
        self._cls_table = {st.name: self._signature(st, True) for st in node.body if isinstance(st, ast.FunctionDef) and self._signature(st, True) is not None
                           and not any(isinstance(dd, ast.Name) and dd.id == "property" for dd in st.decorator_list)}
        self._cls_name = node.name
        self.generic_visit(node)
        self._cls_table, self._cls_name = saved
        self._fdepth = d
        return node

    def _keywords_to_positional(self, node: ast.Call) -> None:
        """f(a, k=b) -> f(a, b) when f is a function of this module / a method of the enclosing class called through self, cls or
        the class name, and the keywords are exactly the next parameters in order"""
        if not node.keywords or any(k.arg is None for k in node.keywords) or any(isinstance(a, ast.Starred) for a in node.args):
            return
        params = None
        f = node.func
        if isinstance(f, ast.Name) and f.id in self._mod_table:
            params = self._mod_table[f.id]
        elif isinstance(f, ast.Attribute) and isinstance(f.value, ast.Name) and f.value.id in ("self", "cls", self._cls_name) and f.attr in self._cls_table:
            params = self._cls_table[f.attr]
        if params is None:
            return
        kw = {k.arg: k.value for k in node.keywords}
        extra = []
        for name in params[len(node.args):]:
            if name in kw:
                extra.append(kw.pop(name))
            else:
                break
        if not kw and extra:
            node.args = list(node.args) + extra
            node.keywords = []

    def visit_AugAssign(self, node: ast.AugAssign):
        self.generic_visit(node)
        # x += [y]  ->  x.append(y)   (in-place growth of a list by one element)
        if isinstance(node.op, ast.Add) and isinstance(node.target, ast.Name) and isinstance(node.value, ast.List) and len(node.value.elts) == 1 and not isinstance(node.value.elts[0], ast.Starred):
            call = ast.Call(func=ast.Attribute(value=ast.Name(id=node.target.id, ctx=ast.Load()), attr="append", ctx=ast.Load()), args=[node.value.elts[0]], keywords=[])
            return ast.copy_location(ast.Expr(value=ast.copy_location(call, node)), node)
        return node

    @staticmethod
    def _additive_terms(node: ast.AST, sign: int, out: list) -> bool:
        """flatten a +/- chain into (sign, atom) terms; False when an atom is not a plain numeric-looking operand"""
        if isinstance(node, ast.BinOp) and isinstance(node.op, (ast.Add, ast.Sub)):
            return Canon._additive_terms(node.left, sign, out) and Canon._additive_terms(node.right, sign if isinstance(node.op, ast.Add) else -sign, out)
        if isinstance(node, ast.UnaryOp) and isinstance(node.op, ast.USub):
            return Canon._additive_terms(node.operand, -sign, out)
        if isinstance(node, ast.Constant) and type(node.value) is int:
            out.append((sign, node))
            return True
        if isinstance(node, (ast.Name, ast.Attribute)) or (isinstance(node, ast.Call) and isinstance(node.func, ast.Name) and node.func.id == "len") \
                or (isinstance(node, ast.Subscript) and isinstance(node.value, (ast.Name, ast.Attribute)) and not isinstance(node.slice, ast.Slice)):
            out.append((sign, node))
            return True
        return False

    def _canon_additive(self, node: ast.BinOp):
        """n - 1 - i -> n - i - 1: in a +/- chain that contains an integer constant (hence integer arithmetic) the positive terms come
        first (by text), then the negative ones, then the folded constant"""
        terms: list = []
        if not self._additive_terms(node, 1, terms) or len(terms) < 3:
            return node
        const = sum(sg * t.value for sg, t in terms if isinstance(t, ast.Constant))
        rest = [(sg, t) for sg, t in terms if not isinstance(t, ast.Constant)]
        if len(rest) == len(terms) or not rest:
            return node
        pos = sorted((t for sg, t in rest if sg > 0), key=ast.unparse)
        neg = sorted((t for sg, t in rest if sg < 0), key=ast.unparse)
        if not pos:
            return node
        cur: ast.AST = pos[0]
        for t in pos[1:]:
            cur = ast.copy_location(ast.BinOp(left=cur, op=ast.Add(), right=t), node)
        for t in neg:
            cur = ast.copy_location(ast.BinOp(left=cur, op=ast.Sub(), right=t), node)
        if const > 0:
            cur = ast.copy_location(ast.BinOp(left=cur, op=ast.Add(), right=ast.Constant(value=const)), node)
        elif const < 0:
            cur = ast.copy_location(ast.BinOp(left=cur, op=ast.Sub(), right=ast.Constant(value=-const)), node)
        return cur

    def visit_BinOp(self, node: ast.BinOp):
        if isinstance(node.op, (ast.Add, ast.Sub)) and not getattr(node, "_chain_done", False):
            new = self._canon_additive(node)
            if new is not node:
                for sub in ast.walk(new):
                    if isinstance(sub, ast.BinOp):
                        sub._chain_done = True  # type: ignore[attr-defined]
                self.generic_visit(new)
                return new
        self.generic_visit(node)
        if isinstance(node.op, (ast.Add, ast.Mult)) and isinstance(node.left, ast.Constant) and type(node.left.value) is int and not isinstance(node.right, ast.Constant):
            return ast.copy_location(ast.BinOp(left=node.right, op=node.op, right=node.left), node)
        return node

    def visit_Assign(self, node: ast.Assign):
        self.generic_visit(node)
        if len(node.targets) == 1 and isinstance(node.targets[0], ast.Name) and isinstance(node.value, ast.BinOp) and isinstance(node.value.left, ast.Name) \
                and node.value.left.id == node.targets[0].id and isinstance(node.value.right, ast.Constant) and type(node.value.right.value) is int \
                and isinstance(node.value.op, (ast.Add, ast.Sub, ast.Mult, ast.FloorDiv)):
            return ast.copy_location(ast.AugAssign(target=ast.Name(id=node.targets[0].id, ctx=ast.Store()), op=node.value.op, value=node.value.right), node)
        return node

    # -- statement lists: t = E; return t  ->  return E
    @staticmethod
    def _split_tuple_assign(st: ast.stmt) -> List[ast.stmt]:
        """a, b = x, y  ->  a = x; b = y   when the targets are plain names and no right-hand side mentions a target (so the
        simultaneous assignment is the sequential one)"""
        if isinstance(st, ast.Assign) and len(st.targets) == 1 and isinstance(st.targets[0], ast.Tuple) and isinstance(st.value, ast.Tuple) \
                and len(st.targets[0].elts) == len(st.value.elts) >= 2 and all(isinstance(t, ast.Name) for t in st.targets[0].elts) \
                and not any(isinstance(v, ast.Starred) for v in st.value.elts):
            names = {t.id for t in st.targets[0].elts}
            if len(names) == len(st.targets[0].elts) and not any(isinstance(n, ast.Name) and n.id in names for v in st.value.elts for n in ast.walk(v)):
                return [ast.copy_location(ast.Assign(targets=[ast.copy_location(ast.Name(id=t.id, ctx=ast.Store()), t)], value=v), st) for t, v in zip(st.targets[0].elts, st.value.elts)]
        return [st]

    @staticmethod
    def _merge_same_exit_ifs(stmts: List[ast.stmt]) -> List[ast.stmt]:
        """if A: <exit X>  \n  if B: <exit X>   ->   if A or B: <exit X>    (consecutive ifs without else whose bodies are the same single
        return / raise / continue / break)"""
        out: List[ast.stmt] = []
        for st in stmts:
            prev = out[-1] if out else None
            if isinstance(st, ast.If) and not st.orelse and len(st.body) == 1 and isinstance(st.body[0], (ast.Return, ast.Raise, ast.Continue, ast.Break)) \
                    and isinstance(prev, ast.If) and not prev.orelse and len(prev.body) == 1 and ast.dump(prev.body[0]) == ast.dump(st.body[0]):
                vals = (list(prev.test.values) if isinstance(prev.test, ast.BoolOp) and isinstance(prev.test.op, ast.Or) else [prev.test]) + \
                       (list(st.test.values) if isinstance(st.test, ast.BoolOp) and isinstance(st.test.op, ast.Or) else [st.test])
                out[-1] = ast.copy_location(ast.If(test=ast.copy_location(ast.BoolOp(op=ast.Or(), values=vals), prev.test), body=prev.body, orelse=[]), prev)
            else:
                out.append(st)
        return out

    def _stmts(self, stmts: List[ast.stmt]) -> List[ast.stmt]:
        stmts = self._merge_same_exit_ifs([x for st in stmts for x in self._split_tuple_assign(self._yield_loop(st))])
        out: List[ast.stmt] = []
        i = 0
        while i < len(stmts):
            st = stmts[i]
            nxt = stmts[i + 1] if i + 1 < len(stmts) else None
            # x = list(E); x.sort(**kw)  ->  x = sorted(E, **kw)
            if isinstance(st, ast.Assign) and len(st.targets) == 1 and isinstance(st.targets[0], ast.Name) and isinstance(st.value, ast.ListComp) and isinstance(nxt, ast.Expr) \
                    and isinstance(nxt.value, ast.Call) and isinstance(nxt.value.func, ast.Attribute) and nxt.value.func.attr == "sort" and isinstance(nxt.value.func.value, ast.Name) \
                    and nxt.value.func.value.id == st.targets[0].id and not nxt.value.args:
                # x = [..comprehension..]; x.sort(**kw)  ->  x = sorted([..], **kw)
                call = ast.copy_location(ast.Call(func=ast.Name(id="sorted", ctx=ast.Load()), args=[st.value], keywords=nxt.value.keywords), st.value)
                out.append(ast.copy_location(ast.Assign(targets=st.targets, value=call), st))
                i += 2
                continue
            if isinstance(st, ast.Assign) and len(st.targets) == 1 and isinstance(st.targets[0], ast.Name) and isinstance(st.value, ast.Call) and isinstance(st.value.func, ast.Name) \
                    and st.value.func.id == "list" and len(st.value.args) == 1 and not st.value.keywords and isinstance(nxt, ast.Expr) and isinstance(nxt.value, ast.Call) \
                    and isinstance(nxt.value.func, ast.Attribute) and nxt.value.func.attr == "sort" and isinstance(nxt.value.func.value, ast.Name) and nxt.value.func.value.id == st.targets[0].id \
                    and not nxt.value.args:
                call = ast.copy_location(ast.Call(func=ast.Name(id="sorted", ctx=ast.Load()), args=[st.value.args[0]], keywords=nxt.value.keywords), st.value)
                out.append(ast.copy_location(ast.Assign(targets=st.targets, value=call), st))
                i += 2
                continue
            # t = E; <statement whose header reads t exactly once>  ->  the statement with E in place of t   (t used nowhere else)
            if isinstance(st, ast.Assign) and len(st.targets) == 1 and isinstance(st.targets[0], ast.Name) and nxt is not None and self._name_count.get(st.targets[0].id, 0) == 2 \
                    and st.targets[0].id not in self._captured and not isinstance(st.value, (ast.Yield, ast.YieldFrom, ast.Await)):
                header = self._header_of(nxt)
                if header is not None:
                    hits = [n for h in header for n in ast.walk(h) if isinstance(n, ast.Name) and n.id == st.targets[0].id and isinstance(n.ctx, ast.Load)]
                    inside_closure = any(isinstance(c, (ast.GeneratorExp, ast.ListComp, ast.SetComp, ast.DictComp, ast.Lambda)) and any(x is hits[0] for x in ast.walk(c))
                                         for h in header for c in ast.walk(h)) if len(hits) == 1 else True
                    # only a whole test / a direct operand of an `and`/`or` test is put back (the inverse of naming a condition)
                    direct = len(hits) == 1 and isinstance(nxt, ast.If) and (nxt.test is hits[0] or (isinstance(nxt.test, ast.BoolOp) and any(v is hits[0] for v in nxt.test.values))
                                                                               or (isinstance(nxt.test, ast.UnaryOp) and nxt.test.operand is hits[0]))
                    if len(hits) == 1 and not inside_closure and direct:
                        name, val = st.targets[0].id, st.value

                        class _Sub(ast.NodeTransformer):
                            def visit_Name(self, node):
                                return ast.copy_location(copy.deepcopy(val), node) if node.id == name and isinstance(node.ctx, ast.Load) else node

                        self._sub_header(nxt, _Sub())
                        i += 1
                        continue
            if isinstance(st, (ast.Assign, ast.AnnAssign)) and isinstance(nxt, ast.Return) and isinstance(nxt.value, ast.Name) and st.value is not None:
                tgt = st.targets[0] if isinstance(st, ast.Assign) and len(st.targets) == 1 else (st.target if isinstance(st, ast.AnnAssign) else None)
                if isinstance(tgt, ast.Name) and tgt.id == nxt.value.id and tgt.id not in self._captured:
                    out.append(ast.copy_location(ast.Return(value=st.value), st))
                    i += 2
                    continue
            out.append(st)
            i += 1
        return out

    _captured: set = set()
    _name_count: dict = {}

    @staticmethod
    def _header_of(st: ast.stmt):
        """expressions evaluated first (and once) when the statement starts"""
        if isinstance(st, ast.If):
            return [st.test]
        if isinstance(st, ast.Return) and st.value is not None:
            return [st.value]
        return None  # locals feeding assignments / calls are kept: they name intermediate results the rules refer to

    @staticmethod
    def _sub_header(st: ast.stmt, sub: ast.NodeTransformer) -> None:
        if isinstance(st, ast.If):
            st.test = sub.visit(st.test)
        elif isinstance(st, (ast.Return, ast.Expr, ast.Assign)):
            st.value = sub.visit(st.value)

    @staticmethod
    def _yield_loop(st: ast.stmt) -> ast.stmt:
        """for v in E: yield v  ->  yield from E"""
        if isinstance(st, ast.For) and not st.orelse and isinstance(st.target, ast.Name) and len(st.body) == 1 and isinstance(st.body[0], ast.Expr) and isinstance(st.body[0].value, ast.Yield) \
                and isinstance(st.body[0].value.value, ast.Name) and st.body[0].value.value.id == st.target.id:
            return ast.copy_location(ast.Expr(value=ast.copy_location(ast.YieldFrom(value=st.iter), st)), st)
        return st

    def visit_FunctionDef(self, node: ast.FunctionDef):
        # names that may be read after the function returned (closures) or that are not locals: never inlined
        saved = self._captured
        cap: set = set()
        for n in ast.walk(node):
            if isinstance(n, (ast.Global, ast.Nonlocal)):
                cap |= set(n.names)
            if n is not node and isinstance(n, (ast.FunctionDef, ast.AsyncFunctionDef, ast.Lambda, ast.ClassDef)):
                for m in ast.walk(n):
                    if isinstance(m, ast.Name):
                        cap.add(m.id)
        self._captured = cap
        saved_nc = self._name_count
        nc: dict = {}
        for n in ast.walk(node):
            if isinstance(n, ast.Name):
                nc[n.id] = nc.get(n.id, 0) + 1
        self._name_count = nc
        saved_la = self._len_alias
        self._len_alias = self._length_aliases(node)
        self._fdepth += 1
        self.generic_visit(node)
        self._fdepth -= 1
        self._len_alias = saved_la
        node.body = self._stmts(node.body)
        node.body = self._procedure_guards(node)
        self._captured = saved
        self._name_count = saved_nc
        return node

    def _procedure_guards(self, fn):
        """In a function (not a generator) that returns no value:  if c: return; REST  ->  if not c: REST   (top level of the body, repeatedly)"""
        body = fn.body
        valued = any(isinstance(n, ast.Return) and n.value is not None and not (isinstance(n.value, ast.Constant) and n.value.value is None) for n in _scope_nodes(fn))
        if valued or any(isinstance(n, (ast.Yield, ast.YieldFrom)) for n in _scope_nodes(fn)):
            return body
        for i in range(len(body) - 2, -1, -1):
            st = body[i]
            if isinstance(st, ast.If) and not st.orelse and len(st.body) == 1 and isinstance(st.body[0], ast.Return) and body[i + 1:]:
                neg = self.visit(ast.copy_location(ast.UnaryOp(op=ast.Not(), operand=st.test), st.test))
                body = body[:i] + [ast.copy_location(ast.If(test=neg, body=body[i + 1:], orelse=[]), st)]
        return body

    visit_AsyncFunctionDef = visit_FunctionDef

    def _body_holder(self, node):
        self.generic_visit(node)
        for field in ("body", "orelse", "finalbody"):
            lst = getattr(node, field, None)
            if isinstance(lst, list) and lst and isinstance(lst[0], ast.stmt):
                setattr(node, field, self._stmts(lst))
        return node

    def _loop(self, node):
        node = self._body_holder(node)
        b = node.body
        # for x in it: if c: continue; REST   ->   for x in it: if not c: REST
        if len(b) >= 2 and isinstance(b[0], ast.If) and not b[0].orelse and len(b[0].body) == 1 and isinstance(b[0].body[0], ast.Continue):
            neg = self.visit(ast.copy_location(ast.UnaryOp(op=ast.Not(), operand=b[0].test), b[0].test))
            node.body = [self.visit_If(ast.copy_location(ast.If(test=neg, body=b[1:], orelse=[]), b[0]))] if False else [ast.copy_location(ast.If(test=neg, body=b[1:], orelse=[]), b[0])]
            # the new if may now wrap a single if: merge
            only = node.body[0]
            if len(only.body) == 1 and isinstance(only.body[0], ast.If) and not only.body[0].orelse:
                inner = only.body[0]
                vals = (list(only.test.values) if isinstance(only.test, ast.BoolOp) and isinstance(only.test.op, ast.And) else [only.test]) + \
                       (list(inner.test.values) if isinstance(inner.test, ast.BoolOp) and isinstance(inner.test.op, ast.And) else [inner.test])
                node.body = [ast.copy_location(ast.If(test=ast.copy_location(ast.BoolOp(op=ast.And(), values=vals), only.test), body=inner.body, orelse=[]), only)]
        return node

    visit_For = visit_While = _loop
    visit_With = visit_Try = visit_ExceptHandler = _body_holder


def _scope_nodes(fn):
    todo = list(fn.body)
    while todo:
        n = todo.pop()
        yield n
        if isinstance(n, (ast.FunctionDef, ast.AsyncFunctionDef, ast.ClassDef, ast.Lambda)):
            continue
        todo.extend(ast.iter_child_nodes(n))


def _literal_value(n: ast.AST) -> bool:
    """immutable literal: number / string / tuple of such / frozenset(..) or Perm(..) of such"""
    if isinstance(n, ast.Constant) and isinstance(n.value, (int, float, str, bytes, bool, type(None))):
        return True
    if isinstance(n, ast.UnaryOp) and isinstance(n.op, ast.USub) and isinstance(n.operand, ast.Constant):
        return True
    if isinstance(n, ast.Tuple):
        return all(_literal_value(e) for e in n.elts)
    if isinstance(n, ast.Call) and isinstance(n.func, ast.Name) and n.func.id in ("Perm", "frozenset", "tuple") and len(n.args) == 1 and not n.keywords:
        a = n.args[0]
        return _literal_value(a) or (isinstance(a, (ast.List, ast.Set)) and all(_literal_value(e) for e in a.elts))
    return False


class _InlineNewConstants(ast.NodeTransformer):
    """A module-level name that the reviewed tree did not have, bound exactly once to an immutable literal, is a name somebody
    gave to a literal: inside functions and class bodies the literal is put back (the rules read `Perm((0, 2, 1))`, not the name)."""

    def __init__(self, table):
        self.table = table
        self.depth = 0

    def _scoped(self, node):
        self.depth += 1
        self.generic_visit(node)
        self.depth -= 1
        return node

    visit_FunctionDef = visit_AsyncFunctionDef = visit_ClassDef = visit_Lambda = _scoped

    def visit_Name(self, node: ast.Name):
        if self.depth and isinstance(node.ctx, ast.Load) and node.id in self.table:
            return ast.copy_location(copy.deepcopy(self.table[node.id]), node)
        return node


def _new_literal_constants(tree: ast.Module, module_name):
    from .shapes import reviewed_module_names

    known = reviewed_module_names(module_name) if module_name else None
    if known is None:
        return {}
    binds: dict = {}
    stores: dict = {}
    for st in tree.body:
        tgt = None
        if isinstance(st, ast.Assign) and len(st.targets) == 1 and isinstance(st.targets[0], ast.Name):
            tgt, val = st.targets[0].id, st.value
        elif isinstance(st, ast.AnnAssign) and isinstance(st.target, ast.Name) and st.value is not None:
            tgt, val = st.target.id, st.value
        if tgt is not None:
            stores[tgt] = stores.get(tgt, 0) + 1
            binds[tgt] = val
    for n in ast.walk(tree):
        if isinstance(n, ast.Name) and isinstance(n.ctx, (ast.Store, ast.Del)) and n.id in binds:
            stores[n.id] = stores.get(n.id, 0) + (0 if any(n is t for st in tree.body for t in ast.walk(st) if isinstance(st, (ast.Assign, ast.AnnAssign)) and st in tree.body) else 1)
        if isinstance(n, (ast.Global,)):
            for nm in n.names:
                stores[nm] = 99
    return {k: v for k, v in binds.items() if k not in known and stores.get(k, 0) == 1 and _literal_value(v)}


class _InlineNewLocals:
    """Extract-variable undone.  A local that the reviewed function did not have, bound exactly once by a plain assignment and
    read exactly once, by the statement that immediately follows (in that statement's own expressions: not in a nested block,
    a loop condition, a lambda, a comprehension or a nested function), is a name somebody gave to a sub-expression: the
    expression is put back.  Functions that were not part of the reviewed tree are left alone."""

    def __init__(self, module_name):
        from .shapes import reference

        self.module = module_name
        self.ref = reference()

    def run(self, tree: ast.Module):
        self._scope(tree.body, "")
        return tree

    def _scope(self, body, qual):
        for st in body:
            if isinstance(st, ast.ClassDef):
                self._scope(st.body, f"{qual}.{st.name}" if qual else st.name)
            elif isinstance(st, (ast.FunctionDef, ast.AsyncFunctionDef)):
                q = f"{qual}.{st.name}" if qual else st.name
                self._function(st, q)

    def _function(self, fn, qual):
        for sub in _own_statements(fn):
            if isinstance(sub, (ast.FunctionDef, ast.AsyncFunctionDef)):
                self._function(sub, f"{qual}.<locals>.{sub.name}")
        from .shapes import reviewed_locals

        known = self.ref.get(f"{self.module}:{qual}")
        had = reviewed_locals(f"{self.module}:{qual}")
        if known is None or had is None:
            return
        known = set(had) | {a.arg for a in ast.walk(fn.args) if isinstance(a, ast.arg)}
        # only as many locals as the function has gained are candidates: renaming the reviewed ones creates no new local
        extra = len(stored_names(fn)) - len(had)
        if extra <= 0 or len(self._candidates(fn, known)) > extra:
            return
        while True:
            cands = self._candidates(fn, known)
            if not cands:
                break
            block, i, t = cands[0]
            _Subst(t, block[i].value).apply(block[i + 1])
            del block[i]

    @staticmethod
    def _candidates(fn, known):
        """(block, index, name) of every assignment that introduces a single-use local the reviewed function did not have"""
        stores, loads = {}, {}
        for n in _walk_scope(fn):
            if isinstance(n, ast.Name):
                d = stores if isinstance(n.ctx, (ast.Store, ast.Del)) else loads
                d[n.id] = d.get(n.id, 0) + 1
            elif isinstance(n, (ast.Global, ast.Nonlocal)):
                for nm in n.names:
                    stores[nm] = 99
        # names read from nested scopes count as many reads
        for n in ast.walk(fn):
            if n is not fn and isinstance(n, (ast.FunctionDef, ast.AsyncFunctionDef, ast.Lambda, ast.ListComp, ast.SetComp, ast.DictComp, ast.GeneratorExp)):
                for m in ast.walk(n):
                    if isinstance(m, ast.Name):
                        loads[m.id] = loads.get(m.id, 0) + 9
        params = {a.arg for a in fn.args.posonlyargs + fn.args.args + fn.args.kwonlyargs} | ({fn.args.vararg.arg} if fn.args.vararg else set()) | ({fn.args.kwarg.arg} if fn.args.kwarg else set())
        out = []
        for block in _blocks(fn):
            for i in range(len(block) - 1):
                st, nxt = block[i], block[i + 1]
                if not (isinstance(st, ast.Assign) and len(st.targets) == 1 and isinstance(st.targets[0], ast.Name)):
                    continue
                t = st.targets[0].id
                if t in known or t in params or stores.get(t) != 1 or loads.get(t) != 1:
                    continue
                if any(isinstance(n, (ast.Yield, ast.YieldFrom, ast.Await, ast.NamedExpr)) for n in ast.walk(st.value)):
                    continue
                uses = [n for e in _header_exprs(nxt) for n in ast.walk(e) if isinstance(n, ast.Name) and n.id == t and isinstance(n.ctx, ast.Load)]
                if len(uses) == 1:
                    out.append((block, i, t))
        return out


def stored_names(fn):
    """names bound by statements of the function's own scope (parameters not included)"""
    out = set()
    for n in _walk_scope(fn):
        if isinstance(n, ast.Name) and isinstance(n.ctx, (ast.Store, ast.Del)):
            out.add(n.id)
    return out


def _own_statements(fn):
    """statements of the function, not entering nested functions/classes (which are yielded themselves)"""
    todo = list(fn.body)
    while todo:
        st = todo.pop()
        yield st
        if isinstance(st, (ast.FunctionDef, ast.AsyncFunctionDef, ast.ClassDef)):
            continue
        for f in ("body", "orelse", "finalbody"):
            todo.extend(getattr(st, f, []) or [])
        for h in getattr(st, "handlers", []) or []:
            todo.extend(h.body)
        for c in getattr(st, "cases", []) or []:
            todo.extend(c.body)


def _walk_scope(fn):
    """every node of the function's own scope (nested functions, lambdas and comprehensions not entered)"""
    todo = list(fn.body)
    while todo:
        n = todo.pop()
        yield n
        if isinstance(n, (ast.FunctionDef, ast.AsyncFunctionDef, ast.ClassDef, ast.Lambda, ast.ListComp, ast.SetComp, ast.DictComp, ast.GeneratorExp)):
            continue
        todo.extend(ast.iter_child_nodes(n))


def _blocks(fn):
    yield fn.body
    for st in _own_statements(fn):
        if isinstance(st, (ast.FunctionDef, ast.AsyncFunctionDef, ast.ClassDef)):
            continue
        for f in ("body", "orelse", "finalbody"):
            b = getattr(st, f, None)
            if isinstance(b, list) and b:
                yield b
        for h in getattr(st, "handlers", []) or []:
            yield h.body


def _header_exprs(st):
    """the expressions a statement evaluates once, itself, before any nested block"""
    if isinstance(st, (ast.Return, ast.Expr)):
        return [st.value] if st.value is not None else []
    if isinstance(st, ast.Assign):
        return [st.value] + [t for t in st.targets if not isinstance(t, ast.Name)]
    if isinstance(st, ast.AugAssign):
        return [st.value]
    if isinstance(st, ast.AnnAssign):
        return [st.value] if st.value is not None else []
    if isinstance(st, ast.If):
        return [st.test]
    if isinstance(st, (ast.For, ast.AsyncFor)):
        return [st.iter]
    if isinstance(st, ast.Raise):
        return [e for e in (st.exc, st.cause) if e is not None]
    if isinstance(st, ast.Assert):
        return [st.test]
    return []


class _Subst(ast.NodeTransformer):
    def __init__(self, name, value):
        self.name, self.value = name, value

    def apply(self, st):
        for f in ("value", "test", "iter", "exc", "cause"):
            e = getattr(st, f, None)
            if isinstance(e, ast.AST):
                setattr(st, f, self.visit(e))
        if isinstance(st, ast.Assign):
            st.targets = [t if isinstance(t, ast.Name) else self.visit(t) for t in st.targets]

    def visit_Lambda(self, node):
        return node

    visit_ListComp = visit_SetComp = visit_DictComp = visit_GeneratorExp = visit_Lambda

    def visit_Name(self, node):
        if node.id == self.name and isinstance(node.ctx, ast.Load):
            return ast.copy_location(copy.deepcopy(self.value), node)
        return node


def canonicalise(tree: ast.Module, module_name=None) -> ast.Module:
    if os.environ.get("SA_NO_CANON"):
        return tree
    table = _new_literal_constants(tree, module_name)
    if table:
        tree = _InlineNewConstants(table).visit(tree)
    if module_name:
        tree = _InlineNewLocals(module_name).run(tree)
    new = Canon().visit(tree)
    ast.fix_missing_locations(new)
    return new
