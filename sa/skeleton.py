"""E5 – boolean / aggregate skeletons.

Turns an expression (or a small function body) into a normal-form *term* (nested
tuples) over Forall / Exists / Not / And / Or / Count / calls / comparisons, so that an
implementation can be compared with a specification written in the same Python idioms.
Both sides go through the same translation; equality of terms is the verdict.
"""

from __future__ import annotations

import ast
from typing import Dict, List, Optional, Sequence, Set, Tuple

from .core import AnalysisError, FuncInfo, is_const, strip_doc, unparse

Term = tuple

TRUE: Term = ("true",)
FALSE: Term = ("false",)


class Unrecognised(Exception):
    pass


# ------------------------------------------------------------------ logic helpers


def neg(t: Term) -> Term:
    tag = t[0]
    if tag == "true":
        return FALSE
    if tag == "false":
        return TRUE
    if tag == "not":
        return t[1]
    if tag == "forall":
        return ("exists", t[1], neg(t[2]))
    if tag == "exists":
        return ("forall", t[1], neg(t[2]))
    if tag == "and":
        return mk_or([neg(x) for x in t[1]])
    if tag == "or":
        return mk_and([neg(x) for x in t[1]])
    if tag == "cmp":
        flip = {"==": "!=", "!=": "==", "is": "is not", "is not": "is"}
        if t[1] in flip:
            return ("cmp", flip[t[1]], t[2], t[3])
        if t[1] == "<":  # not (a < b)  ==  b <= a
            return ("cmp", "<=", t[3], t[2])
        if t[1] == "<=":
            return ("cmp", "<", t[3], t[2])
    if tag == "ite":
        return ("ite", t[1], neg(t[2]), neg(t[3]))
    return ("not", t)


def _key(t: Term) -> str:
    return repr(t)


def mk_and(items: Sequence[Term]) -> Term:
    flat: List[Term] = []
    for x in items:
        if x == TRUE:
            continue
        if x == FALSE:
            return FALSE
        if x[0] == "and":
            flat.extend(x[1])
        else:
            flat.append(x)
    uniq = sorted({_key(x): x for x in flat}.values(), key=_key)
    if not uniq:
        return TRUE
    if len(uniq) == 1:
        return uniq[0]
    return ("and", tuple(uniq))


def mk_or(items: Sequence[Term]) -> Term:
    flat: List[Term] = []
    for x in items:
        if x == FALSE:
            continue
        if x == TRUE:
            return TRUE
        if x[0] == "or":
            flat.extend(x[1])
        else:
            flat.append(x)
    uniq = sorted({_key(x): x for x in flat}.values(), key=_key)
    if not uniq:
        return FALSE
    if len(uniq) == 1:
        return uniq[0]
    return ("or", tuple(uniq))


def mk_ite(c: Term, a: Term, b: Term) -> Term:
    if a == b:
        return a
    if a == TRUE:
        return mk_or([c, b])
    if a == FALSE:
        return mk_and([neg(c), b])
    if b == FALSE:
        return mk_and([c, a])
    if b == TRUE:
        return mk_or([neg(c), a])
    return ("ite", c, a, b)


# ------------------------------------------------------------------ translation


class Env:
    def __init__(self, names: Optional[Dict[str, Term]] = None, depth: int = 0):
        self.names: Dict[str, Term] = dict(names or {})
        self.depth = depth
        self.unrecognised: List[str] = []

    def child(self) -> "Env":
        e = Env(self.names, self.depth)
        e.unrecognised = self.unrecognised
        return e


CMP_OPS = {ast.Eq: "==", ast.NotEq: "!=", ast.Lt: "<", ast.LtE: "<=", ast.Gt: ">", ast.GtE: ">=", ast.Is: "is", ast.IsNot: "is not", ast.In: "in", ast.NotIn: "not in"}
BIN_OPS = {ast.Add: "+", ast.Sub: "-", ast.Mult: "*", ast.FloorDiv: "//", ast.Mod: "%", ast.Pow: "**", ast.BitOr: "|", ast.BitAnd: "&", ast.BitXor: "^", ast.LShift: "<<", ast.RShift: ">>", ast.Div: "/", ast.MatMult: "@"}


def bind_target(target: ast.AST, env: Env) -> None:
    """Bind the names of a loop/comprehension target to fresh bound-variable terms."""
    idx = [0]

    def rec(t: ast.AST) -> None:
        if isinstance(t, ast.Name):
            env.names[t.id] = ("bv", env.depth, idx[0])
            idx[0] += 1
        elif isinstance(t, (ast.Tuple, ast.List)):
            for e in t.elts:
                rec(e)
        elif isinstance(t, ast.Starred):
            rec(t.value)
        else:
            raise Unrecognised(f"loop target {unparse(t)}")

    rec(target)
    env.depth += 1


def quantify(kind: str, gens: List[ast.comprehension], body_fn, env: Env) -> Term:
    """Build nested quantifiers for comprehension generators; body_fn(env) gives the body term."""
    if not gens:
        return body_fn(env)
    g = gens[0]
    dom = ("iter", T(g.iter, env))
    inner = env.child()
    bind_target(g.target, inner)
    conds = [T(c, inner) for c in g.ifs]
    body = quantify(kind, gens[1:], body_fn, inner)
    if kind == "forall":
        body = mk_or([neg(mk_and(conds)), body]) if conds else body
    else:
        body = mk_and(conds + [body]) if conds else body
    return (kind, dom, body)


def count_term(gens: List[ast.comprehension], env: Env) -> Term:
    g = gens[0]
    dom = ("iter", T(g.iter, env))
    inner = env.child()
    bind_target(g.target, inner)
    conds = [T(c, inner) for c in g.ifs]
    if len(gens) > 1:
        raise Unrecognised("nested count")
    return ("count", dom, mk_and(conds))


def T(node: ast.AST, env: Env) -> Term:
    if isinstance(node, ast.Name):
        if node.id in env.names:
            return env.names[node.id]
        if node.id == "True":
            return TRUE
        return ("name", node.id)
    if isinstance(node, ast.Constant):
        if node.value is True:
            return TRUE
        if node.value is False:
            return FALSE
        return ("const", repr(node.value))
    if isinstance(node, ast.Attribute):
        return ("attr", T(node.value, env), node.attr)
    if isinstance(node, ast.UnaryOp):
        if isinstance(node.op, ast.Not):
            return neg(T(node.operand, env))
        if isinstance(node.op, ast.USub):
            if isinstance(node.operand, ast.Constant):
                return ("const", repr(-node.operand.value))
            return ("neg", T(node.operand, env))
        return ("un", type(node.op).__name__, T(node.operand, env))
    if isinstance(node, ast.BoolOp):
        items = [T(v, env) for v in node.values]
        return mk_and(items) if isinstance(node.op, ast.And) else mk_or(items)
    if isinstance(node, ast.Compare):
        return compare(node, env)
    if isinstance(node, ast.IfExp):
        return mk_ite(T(node.test, env), T(node.body, env), T(node.orelse, env))
    if isinstance(node, ast.Call):
        return call(node, env)
    if isinstance(node, (ast.GeneratorExp, ast.ListComp, ast.SetComp)):
        kind = {ast.GeneratorExp: "gen", ast.ListComp: "list", ast.SetComp: "set"}[type(node)]
        return comp(kind, node.generators, lambda e: T(node.elt, e), env)
    if isinstance(node, ast.DictComp):
        return comp("dict", node.generators, lambda e: ("tuple", (T(node.key, e), T(node.value, e))), env)
    if isinstance(node, (ast.Tuple, ast.List)):
        return ("tuple", tuple(T(e, env) for e in node.elts))
    if isinstance(node, ast.Set):
        return ("setlit", tuple(sorted((T(e, env) for e in node.elts), key=_key)))
    if isinstance(node, ast.BinOp):
        op = BIN_OPS.get(type(node.op), type(node.op).__name__)
        a, b = T(node.left, env), T(node.right, env)
        if op in ("+", "-") and b == ("const", "0"):
            return a
        if op == "+" and a == ("const", "0"):
            return b
        if op in ("+", "*", "|", "&", "^") and _key(b) < _key(a):
            a, b = b, a
        return ("bin", op, a, b)
    if isinstance(node, ast.Subscript):
        return ("sub", T(node.value, env), T(node.slice, env))
    if isinstance(node, ast.Slice):
        return ("slice", T(node.lower, env) if node.lower else None, T(node.upper, env) if node.upper else None, T(node.step, env) if node.step else None)
    if isinstance(node, ast.Starred):
        return ("star", T(node.value, env))
    if isinstance(node, ast.JoinedStr):
        parts = []
        for v in node.values:
            if isinstance(v, ast.Constant):
                parts.append(("const", repr(v.value)))
            elif isinstance(v, ast.FormattedValue):
                parts.append(T(v.value, env))
        return ("fstr", tuple(parts))
    if isinstance(node, ast.Lambda):
        inner = env.child()
        for i, a in enumerate(node.args.args):
            inner.names[a.arg] = ("bv", inner.depth, i)
        inner.depth += 1
        return ("lambda", len(node.args.args), T(node.body, inner))
    if isinstance(node, ast.NamedExpr):
        return T(node.value, env)
    env.unrecognised.append(unparse(node))
    return ("py", unparse(node))


def compare(node: ast.Compare, env: Env) -> Term:
    operands = [node.left] + list(node.comparators)
    parts: List[Term] = []
    for i, op in enumerate(node.ops):
        a_node, b_node = operands[i], operands[i + 1]
        sym = CMP_OPS[type(op)]
        # ``next(X, False) is not False``  ==  X yields something
        if sym in ("is not", "is") and is_const(b_node, None) and isinstance(a_node, ast.Call) and _is_name(a_node.func, "next") and len(a_node.args) == 2 and is_const(a_node.args[1], None):
            # next(X, None) is not None: X yields something (the listings of this package never yield None)
            ne = nonempty(a_node.args[0], env)
            parts.append(ne if sym == "is not" else neg(ne))
            continue
        if sym in ("is not", "is", "!=", "==") and is_const(b_node, False) and isinstance(a_node, ast.Call) and _is_name(a_node.func, "next") and len(a_node.args) == 2 and is_const(a_node.args[1], False):
            ne = nonempty(a_node.args[0], env)
            parts.append(ne if sym in ("is not", "!=") else neg(ne))
            continue
        # ``next(X, SENTINEL) is not SENTINEL``  ==  X yields something (identity with a module-level sentinel object)
        if sym in ("is not", "is") and isinstance(b_node, ast.Name) and isinstance(a_node, ast.Call) and _is_name(a_node.func, "next") and len(a_node.args) == 2 \
                and isinstance(a_node.args[1], ast.Name) and a_node.args[1].id == b_node.id and b_node.id not in env.names and b_node.id.lstrip("_").isupper():
            src = a_node.args[0]
            if isinstance(src, ast.Call) and _is_name(src.func, "iter") and len(src.args) == 1:
                src = src.args[0]
            ne = nonempty(src, env)
            parts.append(ne if sym == "is not" else neg(ne))
            continue
        # ``set(B) <= A`` / ``A >= set(B)``: every element of B is in A (only when one side is syntactically a set construction)
        def _is_set_ctor(n: ast.AST) -> bool:
            return isinstance(n, (ast.Set, ast.SetComp)) or (isinstance(n, ast.Call) and isinstance(n.func, ast.Name) and n.func.id in ("set", "frozenset") and len(n.args) == 1
                                                            and n.func.id not in env.names)

        if sym in ("<=", ">=") and (_is_set_ctor(a_node) or _is_set_ctor(b_node)) and not isinstance(a_node, (ast.Set, ast.SetComp)) and not isinstance(b_node, (ast.Set, ast.SetComp)):
            small_n, big_n = (a_node, b_node) if sym == "<=" else (b_node, a_node)
            inner = env.child()
            dom = ("iter", _unset(small_n, env))
            bv = ("bv", inner.depth, 0)
            parts.append(("forall", dom, ("in", bv, _unset(big_n, env))))
            continue
        a, b = T(a_node, env), T(b_node, env)
        # the subset idiom with the set bound to a local first:  boxes = set(..); boxes <= S
        def _set_term(t):
            if isinstance(t, tuple) and t and t[0] == "call" and t[1] is None and t[2] in ("set", "frozenset") and len(t[3]) == 1 and not t[4]:
                return t[3][0]
            if isinstance(t, tuple) and t and t[0] == "comp" and t[1] == "set":
                return ("comp", "gen") + t[2:]
            return None

        if sym in ("<=", ">=") and (_set_term(a) is not None or _set_term(b) is not None):
            small_t, big_t = (a, b) if sym == "<=" else (b, a)
            small_t = _set_term(small_t) if _set_term(small_t) is not None else small_t
            big_t = _set_term(big_t) if _set_term(big_t) is not None else big_t
            inner = env.child()
            bv = ("bv", inner.depth, 0)
            parts.append(("forall", ("iter", small_t), ("in", bv, big_t)))
            continue
        # the same idiom with the next(...) bound to a local first
        if sym in ("is not", "is") and isinstance(b_node, ast.Name) and b_node.id not in env.names and b_node.id.lstrip("_").isupper() \
                and isinstance(a, tuple) and a and a[0] == "call" and a[1] is None and a[2] == "next" and len(a[3]) == 2 and a[3][1] == b:
            x_t = a[3][0]
            if isinstance(x_t, tuple) and x_t and x_t[0] == "iter":
                x_t = x_t[1]
            ne = ("exists", ("iter", x_t), TRUE)
            parts.append(ne if sym == "is not" else neg(ne))
            continue
        if sym == ">":
            sym, a, b = "<", b, a
        elif sym == ">=":
            sym, a, b = "<=", b, a
        if sym == "in":
            parts.append(("in", a, b))
        elif sym == "not in":
            parts.append(neg(("in", a, b)))
        else:
            if sym in ("==", "!=", "is", "is not") and _key(b) < _key(a):
                a, b = b, a
            parts.append(("cmp", sym, a, b))
    return mk_and(parts) if len(parts) > 1 else parts[0]


def _is_name(node: ast.AST, name: str) -> bool:
    return isinstance(node, ast.Name) and node.id == name


def nonempty(it: ast.AST, env: Env) -> Term:
    """Term for "iterating ``it`` yields at least one element"."""
    if isinstance(it, (ast.GeneratorExp, ast.ListComp)):
        return quantify("exists", list(it.generators), lambda e: TRUE, env)
    return ("exists", ("iter", T(it, env)), TRUE)


def comp(kind: str, gens: List[ast.comprehension], elt_fn, env: Env) -> Term:
    g = gens[0]
    dom = ("iter", T(g.iter, env))
    inner = env.child()
    bind_target(g.target, inner)
    conds = mk_and([T(c, inner) for c in g.ifs])
    if len(gens) > 1:
        body = comp(kind, gens[1:], elt_fn, inner)
    else:
        body = elt_fn(inner)
    return ("comp", kind, dom, conds, body)


def _unset(node: ast.AST, env: Env) -> Term:
    """term of a collection used only for membership / iteration-as-a-set: set(X), frozenset(X), list(X), tuple(X) are X"""
    while isinstance(node, ast.Call) and isinstance(node.func, ast.Name) and node.func.id in ("set", "frozenset", "list", "tuple") and len(node.args) == 1 and not node.keywords \
            and node.func.id not in env.names:
        node = node.args[0]
    return T(node, env)


def call(node: ast.Call, env: Env) -> Term:
    f = node.func
    if isinstance(f, ast.Name) and not node.keywords:
        name, args = f.id, node.args
        if name in ("all", "any") and len(args) == 1 and isinstance(args[0], (ast.GeneratorExp, ast.ListComp, ast.SetComp)):
            ge = args[0]
            kind = "forall" if name == "all" else "exists"
            return quantify(kind, list(ge.generators), lambda e: T(ge.elt, e), env)
        if name in ("all", "any") and len(args) == 1 and isinstance(args[0], (ast.Tuple, ast.List)):
            # any((a, b, c)) / all([a, b]) over a display: a plain disjunction / conjunction (order irrelevant)
            items = [T(e, env) for e in args[0].elts]
            return mk_and(items) if name == "all" else mk_or(items)
        if name in ("all", "any") and len(args) == 1:
            t0 = T(args[0], env)
            if isinstance(t0, tuple) and t0 and t0[0] == "comp" and not (isinstance(t0[4], tuple) and t0[4] and t0[4][0] == "comp"):
                # all(map(f, xs)) / all(<a generator bound earlier>): quantify over the underlying domain
                _c, _kind, dom0, conds0, body0 = t0
                if name == "all":
                    return ("forall", dom0, mk_or([neg(conds0), body0]) if conds0 != TRUE else body0)
                return ("exists", dom0, mk_and([conds0, body0]) if conds0 != TRUE else body0)
            inner = env.child()
            dom = ("iter", T(args[0], env))
            body = ("bv", inner.depth, 0)
            return ("forall" if name == "all" else "exists", dom, body)
        if name == "next" and len(args) == 2 and is_const(args[1], False) and isinstance(args[0], ast.GeneratorExp) and is_const(args[0].elt, True):
            return quantify("exists", list(args[0].generators), lambda e: TRUE, env)
        if name == "sum" and len(args) == 1 and isinstance(args[0], (ast.GeneratorExp, ast.ListComp)) and is_const(args[0].elt, 1):
            return count_term(list(args[0].generators), env)
        if name == "len" and len(args) == 1:
            inner_t = args[0]
            if isinstance(inner_t, ast.Call) and _is_name(inner_t.func, "list") and len(inner_t.args) == 1:
                inner_t = inner_t.args[0]
            if isinstance(inner_t, (ast.ListComp, ast.GeneratorExp)) and len(inner_t.generators) == 1:
                return count_term(list(inner_t.generators), env)
            return ("count", ("iter", T(inner_t, env)), TRUE)
        if name == "map" and len(args) == 2 and isinstance(args[0], (ast.Name, ast.Attribute)):
            # map(f, xs)  ==  (f(x) for x in xs)
            v = ast.Name(id="_m", ctx=ast.Load())
            ge = ast.GeneratorExp(elt=ast.Call(func=args[0], args=[v], keywords=[]), generators=[ast.comprehension(target=ast.Name(id="_m", ctx=ast.Store()), iter=args[1], ifs=[], is_async=0)])
            return T(ge, env)
        if name == "bool" and len(args) == 1:
            return T(args[0], env)
        if name == "chain" and len(args) == 1 and isinstance(args[0], ast.Starred) and isinstance(args[0].value, (ast.GeneratorExp, ast.ListComp)) and len(args[0].value.generators) == 1 \
                and not args[0].value.generators[0].ifs:
            # chain(*(f(x) for x in D))  ==  for x in D: yield from f(x)
            ge = args[0].value
            inner = env.child()
            dom = ("iter", T(ge.generators[0].iter, env))
            bind_target(ge.generators[0].target, inner)
            return ("concat", dom, ("iter", T(ge.elt, inner)))
        if name == "iter" and len(args) == 1:
            return ("iter", T(args[0], env))
    recv: Optional[Term] = None
    if isinstance(f, ast.Attribute) and isinstance(f.value, ast.Name) and f.value.id in ("itertools", "functools", "operator", "collections", "math", "bisect") and f.value.id not in env.names:
        # itertools.islice(..) and islice(..) are the same call
        return call(ast.Call(func=ast.Name(id=f.attr, ctx=ast.Load()), args=node.args, keywords=node.keywords), env)
    if isinstance(f, ast.Attribute) and f.attr == "from_iterable" and isinstance(f.value, ast.Name) and f.value.id == "chain" and len(node.args) == 1 and not node.keywords \
            and isinstance(node.args[0], (ast.GeneratorExp, ast.ListComp)) and len(node.args[0].generators) == 1 and not node.args[0].generators[0].ifs:
        ge = node.args[0]
        inner = env.child()
        dom = ("iter", T(ge.generators[0].iter, env))
        bind_target(ge.generators[0].target, inner)
        return ("concat", dom, ("iter", T(ge.elt, inner)))
    if isinstance(f, ast.Attribute) and isinstance(f.value, ast.Attribute) and isinstance(f.value.value, ast.Name) and f.value.value.id == "itertools" and f.value.attr == "chain" and f.attr == "from_iterable":
        return call(ast.Call(func=ast.Attribute(value=ast.Name(id="chain", ctx=ast.Load()), attr="from_iterable", ctx=ast.Load()), args=node.args, keywords=node.keywords), env)
    if isinstance(f, ast.Attribute) and f.attr in ("issuperset", "issubset") and len(node.args) == 1 and not node.keywords:
        # A.issuperset(B)  ==  all(b in A for b in B);   A.issubset(B)  ==  all(a in B for a in A)
        big, small = (f.value, node.args[0]) if f.attr == "issuperset" else (node.args[0], f.value)
        inner = env.child()
        dom = ("iter", _unset(small, env))
        bv = ("bv", inner.depth, 0)
        inner.depth += 1
        return ("forall", dom, ("in", bv, _unset(big, env)))
    if isinstance(f, ast.Attribute) and f.attr in ("contains", "avoids") and len(node.args) == 1 and not node.keywords and isinstance(node.args[0], ast.Starred):
        # the package's variadic containment tests (Perm / MeshPatt .contains(*ps), .avoids(*ps)) are conjunctions over their
        # arguments: p.contains(*G) == all(p.contains(g) for g in G)
        sv = node.args[0].value
        if isinstance(sv, ast.Call) and isinstance(sv.func, ast.Name) and sv.func.id in ("tuple", "list") and len(sv.args) == 1 and not sv.keywords:
            sv = sv.args[0]
        if isinstance(sv, (ast.GeneratorExp, ast.ListComp)):
            one = lambda e: call(ast.Call(func=f, args=[sv.elt], keywords=[]), e)  # noqa: E731
            return quantify("forall", list(sv.generators), one, env)
    if isinstance(f, ast.Attribute):
        recv = T(f.value, env)
        name = f.attr
    elif isinstance(f, ast.Name):
        if f.id in env.names and env.names[f.id][0] == "name":
            name = env.names[f.id][1]
        elif f.id in env.names:
            recv = env.names[f.id]
            name = "<call>"
        else:
            name = f.id
    else:
        recv = T(f, env)
        name = "<call>"
    args_t = tuple(T(a, env) for a in node.args)
    kw_t = tuple(sorted(((k.arg or "**", T(k.value, env)) for k in node.keywords), key=_key))
    if name == "from_iterable" and recv == ("name", "chain") and len(args_t) == 1 and not kw_t and isinstance(args_t[0], tuple) and args_t[0] and args_t[0][0] == "comp" \
            and args_t[0][3] == TRUE and not (isinstance(args_t[0][4], tuple) and args_t[0][4] and args_t[0][4][0] == "comp"):
        # chain.from_iterable(map(f, D)) / chain.from_iterable(<generator bound earlier>)
        return ("concat", args_t[0][2], ("iter", args_t[0][4]))
    if recv is None and name == "range" and len(args_t) == 1 and not kw_t:
        args_t = (("const", "0"),) + args_t  # range(n) is range(0, n)
    return ("call", recv, name, args_t, kw_t)


# ------------------------------------------------------------------ function bodies


def placeholder_env(fi_node: ast.FunctionDef) -> Env:
    """Map parameters positionally: first param of a method keeps its name if it is
    self/cls; the others become a0, a1, ...; *args -> va, **kwargs -> kw."""
    env = Env()
    a = fi_node.args
    params = [x.arg for x in a.posonlyargs + a.args]
    i = 0
    for p in params:
        if p in ("self", "cls") and i == 0 and not env.names:
            env.names[p] = ("name", p)
            continue
        env.names[p] = ("name", f"a{i}")
        i += 1
    for k in a.kwonlyargs:
        env.names[k.arg] = ("name", f"k_{k.arg}")
    if a.vararg:
        env.names[a.vararg.arg] = ("name", "va")
    if a.kwarg:
        env.names[a.kwarg.arg] = ("name", "kw")
    return env


def body_term(stmts: Sequence[ast.stmt], env: Env) -> Term:
    """Term of the value returned by a statement list (straight-line with early returns,
    single-assignment locals, and early-return search loops)."""
    stmts = list(stmts)
    if not stmts:
        return ("none",)
    st, rest = stmts[0], stmts[1:]
    if isinstance(st, ast.Return):
        return T(st.value, env) if st.value is not None else ("none",)
    if isinstance(st, ast.Expr) and isinstance(st.value, ast.YieldFrom) and not rest:
        return ("iter", T(st.value.value, env))
    if isinstance(st, ast.Expr) and isinstance(st.value, ast.Constant):
        return body_term(rest, env)
    if isinstance(st, ast.AnnAssign) and st.value is None:
        return body_term(rest, env)  # a bare annotation declares, it does not compute
    if isinstance(st, (ast.Assign, ast.AnnAssign)):
        targets = st.targets if isinstance(st, ast.Assign) else [st.target]
        # counting loop:  c = 0; for v in D: [if C:] c += 1
        if len(targets) == 1 and isinstance(targets[0], ast.Name) and isinstance(st.value, ast.Constant) and st.value.value == 0 and type(st.value.value) is int \
                and rest and isinstance(rest[0], ast.For) and not rest[0].orelse and len(rest[0].body) == 1:
            c = targets[0].id
            b = rest[0].body[0]
            cond_node = None
            if isinstance(b, ast.If) and not b.orelse and len(b.body) == 1:
                cond_node, b = b.test, b.body[0]
            if isinstance(b, ast.AugAssign) and isinstance(b.op, ast.Add) and isinstance(b.target, ast.Name) and b.target.id == c and isinstance(b.value, ast.Constant) and b.value.value == 1:
                inner = env.child()
                dom = ("iter", T(rest[0].iter, env))
                bind_target(rest[0].target, inner)
                cond = T(cond_node, inner) if cond_node is not None else TRUE
                env = env.child()
                env.names[c] = ("count", dom, cond)
                return body_term(rest[1:], env)
        if len(targets) == 1 and isinstance(targets[0], ast.Name) and st.value is not None:
            env = env.child()
            env.names[targets[0].id] = T(st.value, env)
            return body_term(rest, env)
        if len(targets) == 1 and isinstance(targets[0], ast.Tuple) and st.value is not None:
            new = env.child()

            def bind(t: ast.AST, v_node: Optional[ast.AST], v_term) -> bool:
                if isinstance(t, ast.Name):
                    new.names[t.id] = v_term if v_term is not None else T(v_node, env)
                    return True
                if isinstance(t, ast.Tuple):
                    if v_node is not None and isinstance(v_node, ast.Tuple) and len(v_node.elts) == len(t.elts):
                        return all(bind(a, b, None) for a, b in zip(t.elts, v_node.elts))
                    base = v_term if v_term is not None else T(v_node, env)
                    return all(bind(a, None, ("unpack", base, i)) for i, a in enumerate(t.elts))
                return False

            if bind(targets[0], st.value, None):
                return body_term(rest, new)
        raise Unrecognised(f"assignment {unparse(st)[:60]}")
    if isinstance(st, ast.Assert):
        return ("assuming", T(st.test, env), body_term(rest, env))
    if isinstance(st, ast.If) and st.body and _only_rebinds(st.body) and _only_rebinds(st.orelse):
        # ``if C: x = e`` (conditional rebinding of locals)
        c = T(st.test, env)
        new = env.child()
        names = {t.targets[0].id for t in list(st.body) + list(st.orelse)}
        then_env, else_env = env.child(), env.child()
        for a in st.body:
            then_env.names[a.targets[0].id] = T(a.value, then_env)
        for a in st.orelse:
            else_env.names[a.targets[0].id] = T(a.value, else_env)
        for nm in names:
            old = env.names.get(nm, ("name", nm))
            new.names[nm] = mk_ite(c, then_env.names.get(nm, old), else_env.names.get(nm, old))
        return body_term(rest, new)
    if isinstance(st, ast.If):
        c = T(st.test, env)
        if _raises(st.body) and not st.orelse:
            return ("guard", c, _raise_name(st.body), body_term(rest, env))
        then_t = body_term(list(st.body) + ([] if _terminates(st.body) else rest), env)
        else_t = body_term(list(st.orelse) + ([] if (st.orelse and _terminates(st.orelse)) else rest), env)
        return mk_ite(c, then_t, else_t)
    if isinstance(st, ast.For) and not st.orelse:
        # search loop:  for v in D: if C: return K   ...  return K'
        if len(st.body) == 1 and isinstance(st.body[0], ast.If) and not st.body[0].orelse and len(st.body[0].body) == 1 and isinstance(st.body[0].body[0], ast.Return):
            inner = env.child()
            dom = ("iter", T(st.iter, env))
            bind_target(st.target, inner)
            c = T(st.body[0].test, inner)
            k = T(st.body[0].body[0].value, inner) if st.body[0].body[0].value is not None else ("none",)
            after = body_term(rest, env)
            if k == TRUE:
                return mk_or([("exists", dom, c), after])
            if k == FALSE:
                return mk_and([("forall", dom, neg(c)), after])
        # several search tests in one loop:  for v in D: if C1: return K; if C2: return K   (same constant K)
        if len(st.body) > 1 and all(isinstance(b, ast.If) and not b.orelse and len(b.body) == 1 and isinstance(b.body[0], ast.Return) and isinstance(b.body[0].value, ast.Constant)
                                    and isinstance(b.body[0].value.value, bool) for b in st.body) and len({b.body[0].value.value for b in st.body}) == 1:
            inner = env.child()
            dom = ("iter", T(st.iter, env))
            bind_target(st.target, inner)
            c = mk_or([T(b.test, inner) for b in st.body])
            after = body_term(rest, env)
            if st.body[0].body[0].value.value is True:
                return mk_or([("exists", dom, c), after])
            return mk_and([("forall", dom, neg(c)), after])
        # nested search loops:  for v in D: for w in E(v): if C: return K
        nested = _nested_search(st, env)
        if nested is not None:
            k, ex = nested
            after = body_term(rest, env)
            if k == TRUE:
                return mk_or([ex, after])
            if k == FALSE:
                return mk_and([neg(ex), after])
        # `for v in D: return K` – the first element decides (non-emptiness)
        if len(st.body) == 1 and isinstance(st.body[0], ast.Return):
            inner = env.child()
            dom = ("iter", T(st.iter, env))
            bind_target(st.target, inner)
            k = T(st.body[0].value, inner) if st.body[0].value is not None else ("none",)
            after = body_term(rest, env)
            if k == TRUE:
                return mk_or([("exists", dom, TRUE), after])
            if k == FALSE:
                return mk_and([("forall", dom, FALSE), after])
        if len(st.body) == 1 and not rest:
            b = st.body[0]
            conds_nodes = []
            while isinstance(b, ast.If) and not b.orelse and len(b.body) == 1:
                conds_nodes.append(b.test)
                b = b.body[0]
            if isinstance(b, ast.Expr) and isinstance(b.value, ast.Yield) and b.value.value is not None:
                ge = ast.GeneratorExp(elt=b.value.value, generators=[ast.comprehension(target=st.target, iter=st.iter, ifs=conds_nodes, is_async=0)])
                return T(ge, env)
        if len(st.body) == 1 and isinstance(st.body[0], ast.Expr) and isinstance(st.body[0].value, ast.YieldFrom) and not rest:
            inner = env.child()
            dom = ("iter", T(st.iter, env))
            bind_target(st.target, inner)
            return ("concat", dom, ("iter", T(st.body[0].value.value, inner)))
        raise Unrecognised(f"loop {unparse(st)[:60]}")
    if isinstance(st, ast.Raise):
        return ("raise", unparse(st.exc.func) if isinstance(st.exc, ast.Call) else unparse(st.exc) if st.exc else "")
    raise Unrecognised(f"statement {type(st).__name__}: {unparse(st)[:60]}")


def _nested_search(st: ast.For, env: Env):
    """(K, Exists v in D: Exists w in E: C) for `for v in D: for w in E: if C: return K` (two or more loop levels,
    constant K); None when the statement is not of that shape."""
    if st.orelse or len(st.body) != 1:
        return None
    inner = env.child()
    dom = ("iter", T(st.iter, env))
    bind_target(st.target, inner)
    b = st.body[0]
    if isinstance(b, ast.For):
        sub = _nested_search(b, inner)
        if sub is None:
            if len(b.body) == 1 and isinstance(b.body[0], ast.If) and not b.body[0].orelse and not b.orelse and len(b.body[0].body) == 1 and isinstance(b.body[0].body[0], ast.Return) \
                    and isinstance(b.body[0].body[0].value, ast.Constant) and isinstance(b.body[0].body[0].value.value, bool):
                inner2 = inner.child()
                dom2 = ("iter", T(b.iter, inner))
                bind_target(b.target, inner2)
                k = T(b.body[0].body[0].value, inner2)
                return k, ("exists", dom, ("exists", dom2, T(b.body[0].test, inner2)))
            return None
        k, ex = sub
        return k, ("exists", dom, ex)
    return None


def _only_rebinds(stmts: Sequence[ast.stmt]) -> bool:
    return all(isinstance(a, ast.Assign) and len(a.targets) == 1 and isinstance(a.targets[0], ast.Name) for a in stmts) and (len(stmts) > 0 or True)


def _terminates(stmts: Sequence[ast.stmt]) -> bool:
    return bool(stmts) and isinstance(stmts[-1], (ast.Return, ast.Raise))


def _raises(stmts: Sequence[ast.stmt]) -> bool:
    return len(stmts) == 1 and isinstance(stmts[0], ast.Raise)


def _raise_name(stmts: Sequence[ast.stmt]) -> str:
    exc = stmts[0].exc  # type: ignore[attr-defined]
    if isinstance(exc, ast.Call):
        return unparse(exc.func)
    return unparse(exc) if exc is not None else ""


def func_term(fi: FuncInfo) -> Term:
    env = placeholder_env(fi.node)
    try:
        return body_term(fi.body, env)
    except Unrecognised as exc:
        raise AnalysisError(f"{fi.where}: body not in the skeleton idiom set ({exc})") from exc


def spec_term(src: str, n_params: int = 4, method: bool = True) -> Term:
    """Parse a specification written as a Python expression over self, a0.., va."""
    node = ast.parse(src, mode="eval").body
    env = Env()
    return T(node, env)


# ------------------------------------------------------------------ comparison


def vocabulary(t: Term) -> Set[str]:
    out: Set[str] = set()

    def rec(x) -> None:
        if isinstance(x, tuple):
            if x and x[0] == "call":
                out.add(f"call:{x[2]}")
            elif x and x[0] == "attr":
                out.add(f"attr:{x[2]}")
            elif x and x[0] == "name":
                out.add(f"name:{x[1]}")
            elif x and x[0] == "const":
                out.add(f"const:{x[1]}")
            elif x and x[0] == "py":
                out.add(f"py:{x[1]}")
            for y in x:
                rec(y)

    rec(t)
    return out


def has_unrecognised(t: Term) -> bool:
    return any(v.startswith("py:") for v in vocabulary(t))


def show(t: Term, depth: int = 0) -> str:
    """Readable rendering of a term."""
    if not isinstance(t, tuple) or not t:
        return repr(t)
    tag = t[0]
    if tag in ("true", "false", "none"):
        return tag.capitalize()
    if tag == "name":
        return t[1]
    if tag == "const":
        return t[1]
    if tag == "bv":
        return f"x{t[1]}{'_' + str(t[2]) if t[2] else ''}"
    if tag == "attr":
        return f"{show(t[1])}.{t[2]}"
    if tag == "call":
        recv = f"{show(t[1])}." if t[1] is not None else ""
        args = ", ".join([show(a) for a in t[3]] + [f"{k}={show(v)}" for k, v in t[4]])
        return f"{recv}{t[2]}({args})"
    if tag in ("forall", "exists"):
        return f"{tag.upper()} x{_bvdepth(t)} in {show(t[1])}: ({show(t[2])})"
    if tag == "iter":
        return show(t[1])
    if tag == "not":
        return f"not {show(t[1])}"
    if tag in ("and", "or"):
        return "(" + f" {tag} ".join(show(x) for x in t[1]) + ")"
    if tag == "cmp":
        return f"{show(t[2])} {t[1]} {show(t[3])}"
    if tag == "in":
        return f"{show(t[1])} in {show(t[2])}"
    if tag == "count":
        return f"COUNT({show(t[1])}{'' if t[2] == TRUE else ' if ' + show(t[2])})"
    if tag == "star":
        return f"*{show(t[1])}"
    if tag == "tuple":
        return "(" + ", ".join(show(x) for x in t[1]) + ")"
    if tag == "ite":
        return f"({show(t[2])} if {show(t[1])} else {show(t[3])})"
    if tag == "guard":
        return f"[raise {t[2]} if {show(t[1])}] {show(t[3])}"
    if tag == "comp":
        return f"{t[1]}[{show(t[4])} for x in {show(t[2])}{'' if t[3] == TRUE else ' if ' + show(t[3])}]"
    if tag == "bin":
        return f"({show(t[2])} {t[1]} {show(t[3])})"
    if tag == "sub":
        return f"{show(t[1])}[{show(t[2])}]"
    if tag == "concat":
        return f"CONCAT x in {show(t[1])}: {show(t[2])}"
    return repr(t)


def _bvdepth(t: Term) -> str:
    return ""
