"""CLI:  python -m sa check <ID> [--tier quick|thorough]
         python -m sa replay <path>
         python -m sa list
Exit codes: 0 pass (maybe KNOWN-FINDING lines), 1 VIOLATION, 2 ANALYSIS-ERROR."""

from __future__ import annotations

import argparse
import importlib
import json
import os
import sys
import time
import traceback
from pathlib import Path

from .core import AnalysisError, Repo
from .report import Ctx, finish

PROPS = ["C01", "C02", "C03", "C04", "C05", "C06", "C07", "C08", "C09", "C11", "C12", "C13", "C14", "C16", "C17", "C18", "C19", "C20"]


def load_prop(prop: str):
    return importlib.import_module(f"sa.props.{prop.lower()}")


def evaluate(prop: str, root=None) -> Ctx:
    """Evaluate all rules of one property on the tree at ``root`` (default /repo)."""
    mod = load_prop(prop)
    repo = Repo(root)
    ctx = Ctx(prop, repo)
    mod.run(ctx)
    # a violation may pre-empt downstream obligations of the same construct, so the
    # floors are relaxed by the number of findings (never below 1)
    slack = len(ctx.findings)
    if not ctx.undecided:
        try:
            for rule, minimum in getattr(mod, "FLOORS", {}).items():
                ctx.floor(rule, max(1, minimum - slack))
        except AnalysisError as exc:
            ctx.undecided.append(str(exc))
    if ctx.undecided:
        from .report import load_known

        known, _ = load_known()
        if not any(f.key not in known for f in ctx.findings):
            raise AnalysisError(" || ".join(ctx.undecided))
        # positively identified violations stand even though another rule could not decide
        for u in ctx.undecided:
            ctx.note(f"undecided rule: {u}")
    return ctx


def cmd_check(prop: str, tier: str) -> int:
    t0 = time.time()
    seed = int(os.environ.get("VERIF_SEED", "0") or 0)
    try:
        mod = load_prop(prop)
        ctx = evaluate(prop)
        extra = {}
        if tier == "thorough":
            if not ctx.findings or all_known(ctx):
                from . import selftest

                extra = selftest.thorough(prop, mod, ctx, seed)
        return finish(ctx, tier, seed, t0, mod.EXPLANATION, extra)
    except AnalysisError as exc:
        print(f"ANALYSIS-ERROR property={prop} reason={exc}")
        return 2
    except Exception as exc:  # pylint: disable=broad-except
        traceback.print_exc()
        print(f"ANALYSIS-ERROR property={prop} reason=internal error {type(exc).__name__}: {exc}")
        return 2


def all_known(ctx: Ctx) -> bool:
    from .report import load_known

    known, _ = load_known()
    return all(f.key in known for f in ctx.findings)


def cmd_replay(path: str) -> int:
    rec = json.loads(Path(path).read_text())
    prop = rec["property"]
    try:
        ctx = evaluate(prop)
    except AnalysisError as exc:
        print(f"ANALYSIS-ERROR property={prop} reason={exc}")
        return 2
    hits = [f for f in ctx.findings if f.rule == rec["rule"] and f.where == rec["where"] and f.stmt == rec["stmt"]]
    if hits:
        for f in hits:
            print(f"  {f}")
            if f.path:
                print("  path: " + " -> ".join(f.path))
        print(f"VIOLATION property={prop} replay={path}")
        return 1
    print(f"not reproduced on the current tree: {rec['rule']} at {rec['where']}")
    return 0


def main(argv=None) -> int:
    ap = argparse.ArgumentParser(prog="sa")
    sub = ap.add_subparsers(dest="cmd", required=True)
    c = sub.add_parser("check")
    c.add_argument("prop")
    c.add_argument("--tier", default=os.environ.get("VERIF_TIER", "quick"), choices=["quick", "thorough"])
    r = sub.add_parser("replay")
    r.add_argument("path")
    sub.add_parser("list")
    args = ap.parse_args(argv)
    if args.cmd == "check":
        return cmd_check(args.prop.upper(), args.tier)
    if args.cmd == "replay":
        return cmd_replay(args.path)
    print("\n".join(PROPS))
    return 0


if __name__ == "__main__":
    sys.exit(main())
