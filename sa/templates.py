"""E9 – sibling templates / clone comparison helpers."""

from __future__ import annotations

import ast
import copy
from typing import Callable, Dict, List, Optional, Sequence, Tuple

from .core import FuncInfo, _AlphaRename, _Canon, local_names, strip_doc


class SlotFiller(ast.NodeTransformer):
    """Replace sub-trees chosen by ``pick(node) -> Optional[str]`` by ``Name(<slot>)`` and
    record what was replaced."""

    def __init__(self, pick: Callable[[ast.AST], Optional[str]]):
        self.pick = pick
        self.slots: List[Tuple[str, ast.AST]] = []

    def generic_visit(self, node: ast.AST):
        slot = self.pick(node)
        if slot is not None:
            self.slots.append((slot, node))
            return ast.copy_location(ast.Name(id=slot, ctx=ast.Load()), node)
        return super().generic_visit(node)

    def visit(self, node: ast.AST):
        slot = self.pick(node)
        if slot is not None:
            self.slots.append((slot, node))
            return ast.copy_location(ast.Name(id=slot, ctx=ast.Load()), node)
        return super().visit(node)


def template_text(fn: ast.FunctionDef, pick: Optional[Callable[[ast.AST], Optional[str]]] = None, canon_cmp: bool = False) -> Tuple[str, List[Tuple[str, ast.AST]]]:
    """Body of ``fn`` as text with locals alpha-renamed (in order of first appearance),
    annotations/docstring dropped and slots replaced."""
    node = copy.deepcopy(fn)
    node.body = strip_doc(node.body) or [ast.Pass()]
    node.decorator_list = []
    node.returns = None
    node.name = "f"
    slots: List[Tuple[str, ast.AST]] = []
    if pick is not None:
        filler = SlotFiller(pick)
        node = filler.visit(node)
        slots = filler.slots
    if canon_cmp:
        node = _Canon().visit(node)
    ren = _AlphaRename(local_names(fn) | {"self", "cls"})
    node = ren.visit(node)
    ast.fix_missing_locations(node)
    return ast.unparse(node), slots


def cmp_ops_in(node: ast.AST) -> List[ast.Compare]:
    return [n for n in ast.walk(node) if isinstance(n, ast.Compare)]
