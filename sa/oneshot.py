"""E4 – one-shot iterable discipline.

A variable that may hold a one-shot iterable (an ``Iterable``/``Iterator`` annotated
parameter, or a local bound to a generator / lazy iterator) must be consumed at most
once on every path and never inside a loop in which it is invariant.
"""

from __future__ import annotations

import ast
from typing import Dict, List, Optional, Set, Tuple

from .core import AnalysisError, FuncInfo, Repo, attr_chain, call_name, unparse, walk_no_nested

FRESH, CONSUMED, MAYBE, FREE = "fresh", "consumed", "maybe", "free"

MATERIALISERS = {"tuple", "list", "sorted", "set", "frozenset", "dict", "Counter", "deque", "str", "bytes"}
NON_CONSUMING = {"isinstance", "len", "type", "id", "bool", "callable", "hasattr", "getattr", "repr", "print", "issubclass"}
# ``cycle``/``count``/``repeat`` are infinite: they cannot be exhausted, so re-iterating them is not a defect
LAZY_WRAPPERS = {"map", "filter", "zip", "enumerate", "reversed", "iter", "chain", "islice", "tee", "product", "permutations",
                 "combinations", "accumulate", "starmap", "takewhile", "dropwhile", "zip_longest", "groupby", "pairwise"}
CONCRETE_TYPES = {"list", "tuple", "set", "frozenset", "dict", "str", "bytes", "range", "List", "Tuple", "Set", "FrozenSet", "Dict", "deque", "Sequence", "Collection", "Sized",
                  "Mapping", "AbstractSet", "MutableSequence", "MutableSet", "MutableMapping"}


class Event:
    def __init__(self, fi: FuncInfo, var: str, node: ast.AST, kind: str, message: str, first: Optional[ast.AST] = None):
        self.fi = fi
        self.var = var
        self.node = node
        self.kind = kind  # 'second' | 'loop' | 'callsite'
        self.message = message
        self.first = first


def annotation_is_iterable(ann: Optional[ast.AST]) -> bool:
    if ann is None:
        return False
    txt = unparse(ann)
    if isinstance(ann, ast.Constant) and isinstance(ann.value, str):
        txt = ann.value
    for tok in ("Iterable[", "Iterator[", "Iterable]", "Iterator]", "Generator["):
        if tok in txt:
            # ``Iterable`` nested as an *element* type (List[Iterable[..]]) does not make the
            # parameter itself one-shot
            return _top_level_iterable(ann)
    return txt.strip() in ("Iterable", "Iterator")


def _top_level_iterable(ann: ast.AST) -> bool:
    if isinstance(ann, ast.Constant) and isinstance(ann.value, str):
        try:
            ann = ast.parse(ann.value, mode="eval").body
        except SyntaxError:
            return False
    if isinstance(ann, ast.Name):
        return ann.id in ("Iterable", "Iterator")
    if isinstance(ann, ast.Attribute):
        return ann.attr in ("Iterable", "Iterator")
    if isinstance(ann, ast.Subscript):
        head = attr_chain(ann.value)
        name = head[-1] if head else ""
        if name in ("Iterable", "Iterator", "Generator"):
            return True
        if name in ("Union", "Optional"):
            sl = ann.slice
            elts = sl.elts if isinstance(sl, ast.Tuple) else [sl]
            return any(_top_level_iterable(e) for e in elts)
        return False
    if isinstance(ann, ast.BinOp) and isinstance(ann.op, ast.BitOr):
        return _top_level_iterable(ann.left) or _top_level_iterable(ann.right)
    return False


def is_generator_func(fi: FuncInfo) -> bool:
    for n in walk_no_nested(fi.node):
        if isinstance(n, (ast.Yield, ast.YieldFrom)):
            return True
    return False


def returns_iterator(fi: FuncInfo) -> bool:
    if is_generator_func(fi):
        return True
    r = fi.node.returns
    if r is None:
        return False
    txt = r.value if isinstance(r, ast.Constant) and isinstance(r.value, str) else unparse(r)
    return txt.startswith("Iterator[") or txt.startswith("Generator[") or txt == "Iterator"


class Analyzer:
    def __init__(self, repo: Repo):
        self.repo = repo
        self._summary: Dict[Tuple[str, str], int] = {}
        self._in_progress: Set[Tuple[str, str]] = set()
        self.dynamic: List[str] = []

    # ------------------------------------------------------------ expression kinds
    def oneshot_expr(self, fi: FuncInfo, node: ast.AST) -> bool:
        """Is ``node`` definitely a one-shot iterator when evaluated?"""
        if isinstance(node, ast.GeneratorExp):
            return True
        if isinstance(node, ast.IfExp):
            return self.oneshot_expr(fi, node.body) and self.oneshot_expr(fi, node.orelse)
        if isinstance(node, ast.Call):
            cn = call_name(node)
            if cn is None:
                return False
            if cn[-1] in LAZY_WRAPPERS and (len(cn) == 1 or cn[0] == "itertools"):
                return True
            cands, exact = self.repo.resolve_call(fi, node)
            if cands and exact and all(returns_iterator(c) for c in cands if c.name not in ("__init__", "__new__")) and not any(c.name in ("__init__", "__new__") for c in cands):
                return True
            if cands and not exact and len(cn) >= 2 and all(returns_iterator(c) for c in cands):
                return True
        return False

    def materialised_expr(self, node: ast.AST, var: Optional[str] = None) -> bool:
        if isinstance(node, (ast.List, ast.Tuple, ast.Set, ast.Dict, ast.ListComp, ast.SetComp, ast.DictComp, ast.Constant)):
            return True
        if isinstance(node, ast.Call):
            cn = call_name(node)
            if cn and cn[-1] in MATERIALISERS and len(cn) == 1:
                return True
        if isinstance(node, ast.IfExp) and var is not None:
            # ``v if isinstance(v, list) else list(v)``
            t = node.test
            if isinstance(t, ast.Call) and call_name(t) == ("isinstance",) and len(t.args) == 2 and isinstance(t.args[0], ast.Name) and t.args[0].id == var:
                if isinstance(node.body, ast.Name) and node.body.id == var and self.materialised_expr(node.orelse):
                    return self.concrete_type_spec(t.args[1])
        return False

    def concrete_type_spec(self, spec: ast.AST) -> bool:
        if isinstance(spec, ast.Name):
            # a module-level constant holding the tuple of types:  _BASIS_TYPES = (Basis, MeshBasis)
            for mod in self.repo.modules.values():
                v = mod.assigns.get(spec.id)
                if isinstance(v, ast.Tuple) and v.elts and all(attr_chain(e) for e in v.elts):
                    spec = v
                    break
        elts = spec.elts if isinstance(spec, ast.Tuple) else [spec]
        for e in elts:
            ch = attr_chain(e)
            if not ch:
                return False
            name = ch[-1]
            if name in CONCRETE_TYPES:
                continue
            if self.repo.has_cls(name) and (self.repo.external_bases(name) & {"tuple", "Tuple", "list", "frozenset", "set", "dict", "NamedTuple"}):
                continue
            return False
        return True

    # ------------------------------------------------------------ summaries
    def summary(self, callee: FuncInfo, param: str) -> int:
        """How often may ``callee`` consume its parameter ``param``: 0, 1 or 2 (= many)."""
        key = (callee.where, param)
        if key in self._summary:
            return self._summary[key]
        if key in self._in_progress:
            return 1
        self._in_progress.add(key)
        try:
            w = _Walker(self, callee, {param: FRESH})
            w.run()
            if any(e.var == param and e.kind in ("second", "loop") for e in w.events):
                res = 2
            elif w.consumed_once.get(param):
                res = 1
            else:
                res = 0
        finally:
            self._in_progress.discard(key)
        self._summary[key] = res
        return res

    # ------------------------------------------------------------ entry points
    def subjects_of(self, fi: FuncInfo) -> Dict[str, str]:
        subs: Dict[str, str] = {}
        a = fi.node.args
        for arg in a.posonlyargs + a.args + a.kwonlyargs:
            if annotation_is_iterable(arg.annotation):
                subs[arg.arg] = FRESH
        return subs

    def analyse(self, fi: FuncInfo) -> Tuple[List[Event], Dict[str, str]]:
        subs = self.subjects_of(fi)
        w = _Walker(self, fi, dict(subs))
        w.run()
        return w.events, {**subs, **{v: "local" for v in w.local_subjects}}


class _Walker:
    def __init__(self, an: Analyzer, fi: FuncInfo, subjects: Dict[str, str]):
        self.an = an
        self.repo = an.repo
        self.fi = fi
        self.state: Dict[str, str] = dict(subjects)
        self.first_use: Dict[str, ast.AST] = {}
        self.bound_depth: Dict[str, int] = {v: 0 for v in subjects}
        self.maybe_cond: Dict[str, Tuple[str, bool]] = {}
        self.events: List[Event] = []
        self.consumed_once: Dict[str, bool] = {}
        self.local_subjects: Set[str] = set()
        self.depth = 0
        self.term_stack: List[Tuple[int, bool]] = []  # (loop depth of the block, block ends in return/raise/break)
        self.cond_stack: List[Tuple[str, bool]] = []
        self.explicit = self._explicit_iterators()
        for v in self.explicit:
            if v in self.state:
                self.state[v] = FREE

    def _explicit_iterators(self) -> Set[str]:
        out: Set[str] = set()
        for n in ast.walk(self.fi.node):
            if isinstance(n, ast.Call) and call_name(n) == ("next",) and n.args and isinstance(n.args[0], ast.Name):
                out.add(n.args[0].id)
            if isinstance(n, ast.Assign) and isinstance(n.value, ast.Call) and call_name(n.value) == ("iter",):
                for t in n.targets:
                    if isinstance(t, ast.Name):
                        out.add(t.id)
        return out

    # ------------------------------------------------------------ driver
    def run(self) -> None:
        self.block(self.fi.body)

    def block(self, stmts: List[ast.stmt]) -> bool:
        """Process statements; return True when the block always leaves (return/raise/break/continue)."""
        ends = bool(stmts) and isinstance(stmts[-1], (ast.Return, ast.Raise, ast.Break))
        self.term_stack.append((self.depth, ends))
        terminated = False
        for st in stmts:
            if self.stmt(st):
                terminated = True
                break
        self.term_stack.pop()
        return terminated

    def stmt(self, st: ast.stmt) -> bool:
        if isinstance(st, (ast.FunctionDef, ast.AsyncFunctionDef, ast.ClassDef)):
            # a nested function referring to a subject may be called any number of times
            for n in ast.walk(st):
                if isinstance(n, ast.Name) and isinstance(n.ctx, ast.Load) and self.state.get(n.id) in (FRESH, CONSUMED, MAYBE):
                    self.depth += 1
                    self.expr(n)
                    self.depth -= 1
            return False
        if isinstance(st, ast.Return):
            if st.value is not None:
                self.expr(st.value)
            return True
        if isinstance(st, ast.Raise):
            if st.exc is not None:
                self.expr(st.exc)
            return True
        if isinstance(st, (ast.Break, ast.Continue)):
            return True
        if isinstance(st, ast.Expr):
            self.expr(st.value)
            return False
        if isinstance(st, ast.Assert):
            self.expr(st.test)
            return False
        if isinstance(st, (ast.Assign, ast.AnnAssign, ast.AugAssign)):
            value = st.value
            if value is not None:
                self.expr(value)
            targets = st.targets if isinstance(st, ast.Assign) else [st.target]
            for t in targets:
                self.bind(t, value)
            return False
        if isinstance(st, ast.If):
            return self.if_stmt(st)
        if isinstance(st, (ast.For, ast.AsyncFor)):
            self.consume_iter(st.iter)
            self.loop_body(st.body, st.target)
            if st.orelse:
                self.block(st.orelse)
            return False
        if isinstance(st, ast.While):
            self.depth += 1
            self.expr(st.test)
            self.depth -= 1
            self.loop_body(st.body, None, test=st.test)
            if st.orelse:
                self.block(st.orelse)
            return False
        if isinstance(st, (ast.With, ast.AsyncWith)):
            for item in st.items:
                self.expr(item.context_expr)
            return self.block(st.body)
        if isinstance(st, ast.Try):
            t = self.block(st.body)
            saved = dict(self.state)
            for h in st.handlers:
                self.state = dict(saved)
                self.block(h.body)
            self.state = saved
            if st.orelse:
                self.block(st.orelse)
            if st.finalbody:
                self.block(st.finalbody)
            return False and t
        if isinstance(st, (ast.Pass, ast.Import, ast.ImportFrom, ast.Global, ast.Nonlocal, ast.Delete)):
            return False
        raise AnalysisError(f"{self.fi.where}: statement kind {type(st).__name__} not handled by the one-shot walker")

    def loop_body(self, body: List[ast.stmt], target: Optional[ast.AST], test: Optional[ast.AST] = None) -> None:
        self.depth += 1
        if target is not None:
            self.bind(target, None)
        before = dict(self.state)
        self.block(body)
        # merge "zero iterations" with "one iteration"
        self.state = self.merge(before, self.state, "<loop>", True)
        self.depth -= 1

    def if_stmt(self, st: ast.If) -> bool:
        self.expr(st.test)
        narrowed_true, narrowed_false = self.narrow(st.test)
        cond = unparse(st.test)
        base = dict(self.state)
        # true branch
        self.state = dict(base)
        for v in narrowed_true:
            if v in self.state:
                self.state[v] = FREE
        self.cond_stack.append((cond, True))
        t_term = self.block(st.body)
        self.cond_stack.pop()
        s_true = self.state
        # false branch
        self.state = dict(base)
        for v in narrowed_false:
            if v in self.state:
                self.state[v] = FREE
        self.cond_stack.append((cond, False))
        f_term = self.block(st.orelse) if st.orelse else False
        self.cond_stack.pop()
        s_false = self.state
        if t_term and f_term:
            self.state = s_false
            return True
        if t_term:
            self.state = s_false
        elif f_term:
            self.state = s_true
        else:
            self.state = self.merge(s_true, s_false, cond, True)
        return False

    def merge(self, a: Dict[str, str], b: Dict[str, str], cond: str, a_polarity: bool) -> Dict[str, str]:
        out: Dict[str, str] = {}
        for v in set(a) | set(b):
            sa, sb = a.get(v, FREE), b.get(v, FREE)
            if sa == sb:
                out[v] = sa
            elif CONSUMED in (sa, sb) or MAYBE in (sa, sb):
                # consumed on one path only
                out[v] = MAYBE
                self.maybe_cond[v] = (cond, a_polarity if sa in (CONSUMED, MAYBE) else not a_polarity)
            elif FRESH in (sa, sb):
                out[v] = FRESH
            else:
                out[v] = FREE
        return out

    def narrow(self, test: ast.AST) -> Tuple[Set[str], Set[str]]:
        """Variables known to be concrete containers when the test is true / false."""
        pos: Set[str] = set()
        neg: Set[str] = set()
        t, flip = test, False
        if isinstance(t, ast.UnaryOp) and isinstance(t.op, ast.Not):
            t, flip = t.operand, True
        if isinstance(t, ast.Call) and call_name(t) == ("isinstance",) and len(t.args) == 2 and isinstance(t.args[0], ast.Name):
            if self.an.concrete_type_spec(t.args[1]):
                (neg if flip else pos).add(t.args[0].id)
        return pos, neg

    # ------------------------------------------------------------ binding
    def bind(self, target: ast.AST, value: Optional[ast.AST]) -> None:
        if isinstance(target, (ast.Tuple, ast.List)):
            tee_like = isinstance(value, ast.Call) and call_name(value) is not None and call_name(value)[-1] == "tee"
            for elt in target.elts:
                if isinstance(elt, ast.Name):
                    if tee_like:
                        self.set_subject(elt.id, FRESH)
                    else:
                        self.state.pop(elt.id, None) if elt.id not in self.state else self.state.__setitem__(elt.id, FREE)
                else:
                    self.bind(elt, None)
            return
        if isinstance(target, ast.Starred):
            self.bind(target.value, None)
            return
        if not isinstance(target, ast.Name):
            return
        name = target.id
        if name in self.explicit:
            self.state[name] = FREE
            return
        if value is None:
            if name in self.state:
                self.state[name] = FREE
            return
        if self.an.materialised_expr(value, name):
            if name in self.state:
                self.state[name] = FREE
            return
        if self.an.oneshot_expr(self.fi, value):
            self.set_subject(name, FRESH)
            return
        if isinstance(value, ast.IfExp) and (self.an.oneshot_expr(self.fi, value.body) or self.an.oneshot_expr(self.fi, value.orelse)):
            self.set_subject(name, FRESH)
            return
        if isinstance(value, ast.IfExp):
            # ``x = x if <test> else list(x)`` with a test that does not establish a re-iterable type: on the branch that
            # keeps x the subject is unchanged; a branch that is another subject makes the target an alias of it
            branches = [b for b in (value.body, value.orelse) if isinstance(b, ast.Name) and self.state.get(b.id) in (FRESH, CONSUMED, MAYBE)]
            if any(self.an.materialised_expr(value, b.id) for b in branches):
                # ``y = x if isinstance(x, list) else list(x)``: a re-iterable value on both branches
                if name in self.state:
                    self.state[name] = FREE
                return
            if any(b.id == name for b in branches):
                t = value.test.operand if isinstance(value.test, ast.UnaryOp) and isinstance(value.test.op, ast.Not) else value.test
                spec = t.args[1] if isinstance(t, ast.Call) and call_name(t) == ("isinstance",) and len(t.args) == 2 else None
                elts = (spec.elts if isinstance(spec, ast.Tuple) else [spec]) if spec is not None else []
                names = [attr_chain(e)[-1] if attr_chain(e) else None for e in elts]
                if names and any(n in ("Iterable", "Iterator", "Generator", "Reversible", "object") for n in names):
                    return  # the kept branch can be a one-shot iterator: still the same subject
                raise AnalysisError(f"{self.fi.where}: `{unparse(value)[:70]}` keeps `{name}` under a test that is not recognised as establishing a re-iterable type; one-shot discipline not decided")
            if branches:
                self.set_subject(name, FRESH)
                return
        if isinstance(value, ast.Name) and self.state.get(value.id) in (FRESH, CONSUMED, MAYBE) and value.id != name:
            # alias of a subject: the alias carries the (already escaped) state
            self.set_subject(name, FRESH)
            return
        if name in self.state:
            self.state[name] = FREE

    def set_subject(self, name: str, st: str) -> None:
        self.state[name] = st
        self.bound_depth[name] = self.depth
        self.first_use.pop(name, None)
        if name not in self.fi.params:
            self.local_subjects.add(name)

    # ------------------------------------------------------------ consumption
    def consume(self, var: str, node: ast.AST, times: int = 1, why: str = "") -> None:
        st = self.state.get(var)
        if st is None or st == FREE or times == 0:
            return
        self.consumed_once[var] = True
        excused_loop = False
        if self.depth > self.bound_depth.get(var, 0):
            # inside a loop/comprehension in which var is invariant
            for d, ends in reversed(self.term_stack):
                if d <= self.bound_depth.get(var, 0):
                    break
                if ends:
                    excused_loop = True
                    break
            if not excused_loop:
                self.events.append(Event(self.fi, var, node, "loop",
                                         f"one-shot iterable '{var}' is consumed inside a loop/comprehension body that runs once per element while '{var}' is not rebound: every iteration after the first sees it exhausted {why}".strip()))
                self.state[var] = CONSUMED
                self.first_use.setdefault(var, node)
                return
        if times >= 2:
            self.events.append(Event(self.fi, var, node, "second", f"one-shot iterable '{var}' is consumed more than once by this use {why}".strip()))
            self.state[var] = CONSUMED
            self.first_use.setdefault(var, node)
            return
        if st == FRESH:
            self.state[var] = CONSUMED
            self.first_use[var] = node
            return
        if st == MAYBE:
            cond = self.maybe_cond.get(var)
            if cond is not None and (cond[0], not cond[1]) in self.cond_stack:
                return  # complementary condition: the earlier consumption did not happen on this path
        first = self.first_use.get(var)
        where = f" (first consumed at line {getattr(first, 'lineno', '?')}: {unparse(first)[:60]})" if first is not None else ""
        self.events.append(Event(self.fi, var, node, "second",
                                 f"one-shot iterable '{var}' is consumed a second time{' on some path' if st == MAYBE else ''}{where} {why}".strip(), first))
        self.state[var] = CONSUMED

    def consume_iter(self, it: ast.AST) -> None:
        if isinstance(it, ast.Name):
            self.consume(it.id, it)
        else:
            self.expr(it)

    # ------------------------------------------------------------ expressions
    def expr(self, node: Optional[ast.AST]) -> None:
        if node is None:
            return
        if isinstance(node, ast.Name):
            if isinstance(node.ctx, ast.Load) and self.state.get(node.id) in (FRESH, CONSUMED, MAYBE):
                # bare value use: the iterable escapes (returned, stored, put in a container)
                self.consume(node.id, node, why="(escapes)")
            return
        if isinstance(node, ast.Constant):
            return
        if isinstance(node, ast.Starred):
            if isinstance(node.value, ast.Name):
                self.consume(node.value.id, node)
            else:
                self.expr(node.value)
            return
        if isinstance(node, ast.Call):
            self.call(node)
            return
        if isinstance(node, (ast.ListComp, ast.SetComp, ast.GeneratorExp, ast.DictComp)):
            self.comprehension(node)
            return
        if isinstance(node, ast.Compare):
            self.compare(node)
            return
        if isinstance(node, ast.IfExp):
            self.expr(node.test)
            base = dict(self.state)
            cond = unparse(node.test)
            pos, neg = self.narrow(node.test)
            for v in pos:
                if v in self.state:
                    self.state[v] = FREE
            self.cond_stack.append((cond, True))
            self.expr(node.body)
            self.cond_stack.pop()
            s_true = self.state
            self.state = dict(base)
            for v in neg:
                if v in self.state:
                    self.state[v] = FREE
            self.cond_stack.append((cond, False))
            self.expr(node.orelse)
            self.cond_stack.pop()
            self.state = self.merge(s_true, self.state, cond, True)
            # narrowing does not survive the expression
            for v in pos | neg:
                if v in base and self.state.get(v) == FREE:
                    self.state[v] = base[v]
            return
        if isinstance(node, ast.Lambda):
            self.depth += 1
            self.expr(node.body)
            self.depth -= 1
            return
        if isinstance(node, ast.Attribute):
            if isinstance(node.value, ast.Name):
                return  # attribute access on the variable does not consume it
            self.expr(node.value)
            return
        if isinstance(node, ast.Subscript):
            if not isinstance(node.value, ast.Name):
                self.expr(node.value)
            self.expr(node.slice)
            return
        if isinstance(node, (ast.YieldFrom, ast.Await)):
            if isinstance(node.value, ast.Name):
                self.consume(node.value.id, node)
            else:
                self.expr(node.value)
            return
        if isinstance(node, ast.NamedExpr):
            self.expr(node.value)
            self.bind(node.target, node.value)
            return
        for child in ast.iter_child_nodes(node):
            if isinstance(child, ast.expr):
                self.expr(child)
            elif isinstance(child, (ast.comprehension, ast.keyword)):
                for sub in ast.iter_child_nodes(child):
                    if isinstance(sub, ast.expr):
                        self.expr(sub)
            elif isinstance(child, ast.FormattedValue):
                self.expr(child.value)

    def compare(self, node: ast.Compare) -> None:
        operands = [node.left] + list(node.comparators)
        for i, operand in enumerate(operands):
            if isinstance(operand, ast.Name) and self.state.get(operand.id) in (FRESH, CONSUMED, MAYBE):
                op_before = node.ops[i - 1] if i > 0 else None
                op_after = node.ops[i] if i < len(node.ops) else None
                if isinstance(op_before, (ast.In, ast.NotIn)):
                    self.consume(operand.id, operand, why="(membership test scans the iterator)")
                # identity / equality / left side of ``in`` do not consume
                _ = op_after
            else:
                self.expr(operand)

    def comprehension(self, node: ast.AST) -> None:
        gens = node.generators  # type: ignore[attr-defined]
        self.consume_iter(gens[0].iter)
        self.depth += 1
        saved_bound = dict(self.bound_depth)
        self.term_stack.append((self.depth, False))
        for tgt in [g.target for g in gens]:
            for n in ast.walk(tgt):
                if isinstance(n, ast.Name) and n.id in self.state:
                    self.state[n.id] = FREE
        for i, g in enumerate(gens):
            if i > 0:
                self.consume_iter(g.iter)
            for cond in g.ifs:
                self.expr(cond)
        if isinstance(node, ast.DictComp):
            self.expr(node.key)
            self.expr(node.value)
        else:
            self.expr(node.elt)  # type: ignore[attr-defined]
        self.term_stack.pop()
        self.bound_depth = saved_bound
        self.depth -= 1

    def call(self, node: ast.Call) -> None:
        cn = call_name(node)
        if cn is None:
            self.expr(node.func)
        elif len(cn) >= 2 and isinstance(node.func, ast.Attribute) and not isinstance(node.func.value, ast.Name):
            self.expr(node.func.value)
        short = cn[-1] if cn else ""
        if cn and len(cn) == 1 and short in NON_CONSUMING:
            for a in node.args[1:] if short in ("isinstance", "getattr", "hasattr") else []:
                self.expr(a)
            for a in node.args:
                if not isinstance(a, ast.Name):
                    self.expr(a)
            return
        if cn == ("next",):
            return
        # how many times each argument is consumed by the callee
        cands, exact = self.repo.resolve_call(self.fi, node) if cn else ([], False)
        cands = [c for c in cands]
        # the same variable passed twice in one call (e.g. product(v, v))
        names = [a.id for a in node.args if isinstance(a, ast.Name)] + [k.value.id for k in node.keywords if isinstance(k.value, ast.Name)]
        for idx, arg in enumerate(node.args):
            self.arg(node, cn, cands, exact, idx, None, arg, names)
        for kw in node.keywords:
            self.arg(node, cn, cands, exact, None, kw.arg, kw.value, names)

    def callee_times(self, cn, cands: List[FuncInfo], exact: bool, idx: Optional[int], kwname: Optional[str], call: ast.Call) -> Tuple[int, Optional[FuncInfo], Optional[str]]:
        """(times, callee, param) for the argument at position idx / keyword kwname."""
        if not cn:
            return 1, None, None
        short = cn[-1]
        if len(cn) == 1 and short in MATERIALISERS | LAZY_WRAPPERS | {"sum", "any", "all", "min", "max", "next"}:
            return 1, None, None
        if not cands:
            return 1, None, None
        if not exact:
            self.an.dynamic.append(f"{self.fi.where}: {unparse(call.func)} resolved by name to {[c.where for c in cands][:4]}")
        worst, worst_c, worst_p = 0, None, None
        for c in cands:
            params = list(c.params)
            # bound call: drop self/cls
            bound = c.cls is not None and not c.is_static
            if bound and params:
                is_unbound_class_call = len(cn) == 2 and self.repo.has_cls(cn[0]) and not c.is_classmethod and c.name not in ("__new__",)
                if c.name == "__new__" and len(cn) == 1:
                    params = params[1:]
                elif not is_unbound_class_call:
                    params = params[1:]
            pname: Optional[str] = None
            if kwname is not None:
                pname = kwname if kwname in params or kwname in [a.arg for a in c.node.args.kwonlyargs] else None
            elif idx is not None:
                if idx < len(params):
                    pname = params[idx]
                elif c.vararg is not None:
                    pname = None  # lands in *args tuple: stored, not consumed
                    continue
            if pname is None:
                continue
            t = self.an.summary(c, pname)
            if t >= worst:
                worst, worst_c, worst_p = t, c, pname
        if worst_c is None:
            return (0 if cands and exact else 1), None, None
        return worst, worst_c, worst_p

    def arg(self, call: ast.Call, cn, cands, exact, idx, kwname, arg: ast.AST, names: List[str]) -> None:
        if isinstance(arg, ast.Starred):
            self.expr(arg)
            return
        if isinstance(arg, ast.Name) and self.state.get(arg.id) in (FRESH, CONSUMED, MAYBE):
            times, callee, pname = self.callee_times(cn, cands, exact, idx, kwname, call)
            if cn and cn[-1] == "tee" and idx == 0:
                times = 1
            if times >= 2 and callee is not None and annotation_is_iterable(callee.annotation(pname)):
                # the root cause is inside the callee and is reported there
                times = 1
            why = f"(passed to {unparse(call.func)})"
            self.consume(arg.id, arg, times, why)
            return
        if self.an.oneshot_expr(self.fi, arg):
            times, callee, pname = self.callee_times(cn, cands, exact, idx, kwname, call)
            if times >= 2 and callee is not None and not annotation_is_iterable(callee.annotation(pname)):
                self.events.append(Event(self.fi, pname or "?", arg, "callsite",
                                         f"a one-shot iterator ({unparse(arg)[:50]}) is passed to {callee.qual}({pname}) which consumes it more than once"))
        self.expr(arg)


# ------------------------------------------------------------------ rule front-end


def report(ctx, rule: str, module_prefixes, floor_names=()):
    """Evaluate the discipline on every function of the given modules (prefix match on the
    dotted module name); one obligation per (function, subject variable)."""
    repo = ctx.repo
    an = Analyzer(repo)
    seen_names = set()
    for fi in repo.all_funcs():
        if not any(fi.module.name == p or fi.module.name.startswith(p + ".") for p in module_prefixes):
            continue
        events, subjects = an.analyse(fi)
        flagged = set()
        for ev in events:
            flagged.add(ev.var)
            path = [fi.where]
            ctx.violation(rule, ev.fi, ev.node if hasattr(ev.node, "lineno") else fi.node, ev.message, path=path, robust=True)
        for var, kind in subjects.items():
            seen_names.add(fi.qual)
            if var not in flagged:
                ctx.ok(rule, fi.where, f"one-shot subject `{var}` ({'Iterable parameter' if kind == FRESH else 'generator-valued local'}) is consumed at most once on every path", fi.node, fi)
    for d in an.dynamic:
        ctx.dynamic.append(d)
    missing = [n for n in floor_names if n not in seen_names]
    if missing:
        raise AnalysisError(f"{rule}: expected one-shot subjects in {missing} (anchors vanished or annotations dropped)")
    return an
