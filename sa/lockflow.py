"""E2 – lock / alias / effect analysis for a class with a shared mutable cache.

Everything is derived from the source: the shared fields (mutable-container fields of a
NamedTuple base, class-level containers), the lock (class/module-level name bound to a
Lock() call), aliases of the shared field inside each function, mutation sites, and the
"lock held on entry" summary (fixpoint over the class's own call graph).
"""

from __future__ import annotations

import ast
from typing import Dict, List, Optional, Set, Tuple

from .core import AnalysisError, ClassInfo, FuncInfo, Repo, attr_chain, call_name, unparse, walk_no_nested

MUTATORS = {"append", "extend", "insert", "pop", "remove", "clear", "update", "setdefault", "popitem", "sort", "reverse", "add", "discard", "appendleft", "popleft", "__setitem__", "__delitem__"}
KEY_MUTATORS = {"pop", "clear", "update", "setdefault", "popitem", "__setitem__", "__delitem__"}
GROWTH = {"append", "extend"}

FIELD, ELEM, VAL, FRESH, KEYV = "field", "elem", "val", "fresh", "key"


class Site:
    def __init__(self, fi: FuncInfo, node: ast.AST, kind: str, target: str, op: str, alias: str, stmt: ast.stmt):
        self.fi = fi
        self.node = node
        self.kind = kind  # alias kind of the mutated object: field / elem / val / fresh
        self.target = target  # source text of the mutated expression
        self.op = op  # 'store' 'del' 'aug' or mutator name or 'rebind'
        self.alias = alias
        self.stmt = stmt


class SharedModel:
    def __init__(self, repo: Repo, cname: str):
        self.repo = repo
        self.cls = repo.cls(cname)
        self.cname = cname
        self.fields = self._shared_fields()
        self.class_containers = self._class_containers()
        self.lock_name, self.lock_kind, self.lock_node = self._lock()
        self.funcs: List[FuncInfo] = self._functions()
        self.aliases: Dict[str, Dict[str, Tuple[str, ast.AST]]] = {}
        self.sites: List[Site] = []
        self.locked_regions: Dict[str, List[ast.With]] = {}
        self.bad_lock_exprs: List[Tuple[FuncInfo, ast.With, str]] = []
        # `L.acquire(timeout=..)` / `L.acquire(False)` whose result is not looked at: the lock may not be held afterwards
        self.unchecked_acquires: List[Tuple[FuncInfo, ast.stmt, str]] = []
        self._lock_aliases: Dict[str, set] = {}
        self.dynamic_lock_exprs: List[Tuple[FuncInfo, ast.With, str, bool]] = []
        for fi in self.funcs:
            self._scan_function(fi)
        self.callers: Dict[str, List[Tuple[FuncInfo, ast.Call, bool]]] = {}
        self._call_graph()
        self.lock_held = self._lock_held_fixpoint()

    # ------------------------------------------------------------------ discovery
    def _shared_fields(self) -> List[str]:
        out = []
        for base in self.repo.mro(self.cname):
            if "NamedTuple" in base.base_names:
                for st in base.node.body:
                    if isinstance(st, ast.AnnAssign) and isinstance(st.target, ast.Name):
                        ann = unparse(st.annotation)
                        head = ann.split("[")[0].split(".")[-1]
                        if head in ("List", "Dict", "Set", "list", "dict", "set", "DefaultDict", "Deque"):
                            out.append(st.target.id)
        if not out:
            raise AnalysisError(f"{self.cname}: no shared mutable NamedTuple field found")
        return out

    def _class_containers(self) -> List[str]:
        out = []
        for name, val in self.cls.assigns.items():
            if isinstance(val, (ast.Dict, ast.List, ast.Set)) or (isinstance(val, ast.Call) and call_name(val) and call_name(val)[-1] in ("dict", "list", "set", "defaultdict")):
                out.append(name)
        return out

    def _lock(self) -> Tuple[str, str, ast.AST]:
        found = []
        for name, val in self.cls.assigns.items():
            if isinstance(val, ast.Call):
                cn = call_name(val)
                if cn and cn[-1] in ("Lock", "RLock") and cn[0] in ("multiprocessing", "threading", "Lock", "RLock"):
                    found.append((name, cn[-1], self.cls.assign_nodes[name]))
        for name, val in self.cls.module.assigns.items():
            if isinstance(val, ast.Call):
                cn = call_name(val)
                if cn and cn[-1] in ("Lock", "RLock"):
                    found.append((name, cn[-1], self.cls.module.assign_nodes[name]))
        if not found:
            return (None, None, None)  # C07 reports it; the cache rules of other properties do not depend on the lock
        if len(found) != 1:
            raise AnalysisError(f"{self.cname}: expected exactly one class/module-level lock, found {[f[0] for f in found]}")
        return found[0]

    def _functions(self) -> List[FuncInfo]:
        out: List[FuncInfo] = []

        def add(fi: FuncInfo) -> None:
            out.append(fi)
            for n in fi.nested.values():
                add(n)

        for fi in self.cls.methods.values():
            add(fi)
        return out

    # ------------------------------------------------------------------ per function
    def is_lock_expr(self, node: ast.AST) -> Optional[bool]:
        """True: the shared lock; False: some other (fresh) lock expression; None: not a lock."""
        ch = attr_chain(node)
        if self.lock_name is not None and ch and ch[-1] == self.lock_name and (len(ch) == 1 or ch[0] in (self.cname, "cls", "self")):
            return True
        if isinstance(node, ast.Call):
            cn = call_name(node)
            if cn and cn[-1] in ("Lock", "RLock"):
                return False
        return None

    def _self_name(self, fi: FuncInfo) -> Optional[str]:
        top = fi
        while top.parent is not None:
            top = top.parent
        if top.is_static or not top.params:
            return None
        return top.params[0] if not top.is_classmethod else None

    def classify(self, fi: FuncInfo, node: ast.AST, env: Dict[str, Tuple[str, ast.AST]]) -> Optional[str]:
        """Alias kind of expression ``node``."""
        self_n = self._self_name(fi)
        ch = attr_chain(node)
        if ch and len(ch) == 2 and ch[0] == self_n and ch[1] in self.fields:
            return FIELD
        if isinstance(node, ast.Name) and node.id in env:
            return env[node.id][0]
        if isinstance(node, ast.Subscript):
            base = self.classify(fi, node.value, env)
            if base == FIELD:
                return ELEM if not isinstance(node.slice, ast.Slice) else FIELD
            if base in (ELEM, FRESH):
                return VAL
        if isinstance(node, ast.Call):
            cn = call_name(node)
            if cn and cn[-1] in ("get",) and isinstance(node.func, ast.Attribute):
                base = self.classify(fi, node.func.value, env)
                if base in (ELEM, FRESH):
                    return VAL
        return None

    def _scan_function(self, fi: FuncInfo) -> None:
        env: Dict[str, Tuple[str, ast.AST]] = {}
        # inherit the closure environment of the enclosing function
        if fi.parent is not None and fi.parent.where in self.aliases:
            env.update(self.aliases[fi.parent.where])
        self_n = self._self_name(fi)
        # pass 1: aliases (flow-insensitive within the function; sound for "may alias")
        changed = True
        rounds = 0
        while changed and rounds < 5:
            changed = False
            rounds += 1
            for node in walk_no_nested(fi.node):
                if isinstance(node, (ast.Assign, ast.AnnAssign)) and node.value is not None:
                    tgts = node.targets if isinstance(node, ast.Assign) else [node.target]
                    for t in tgts:
                        if isinstance(t, ast.Name):
                            kind = self.classify(fi, node.value, env)
                            if kind is None and (isinstance(node.value, (ast.Dict, ast.DictComp)) or (isinstance(node.value, ast.Call) and call_name(node.value) == ("dict",))):
                                kind = FRESH
                            if kind is not None and env.get(t.id, (None,))[0] != kind:
                                env[t.id] = (kind, node)
                                changed = True
                if isinstance(node, (ast.For, ast.comprehension)):
                    it = node.iter
                    if isinstance(it, ast.Call) and isinstance(it.func, ast.Attribute) and it.func.attr in ("items", "values", "keys"):
                        base = self.classify(fi, it.func.value, env)
                        if base in (ELEM, FRESH):
                            tgt = node.target
                            if it.func.attr == "items" and isinstance(tgt, ast.Tuple) and len(tgt.elts) == 2:
                                k, v = tgt.elts
                                if isinstance(k, ast.Name) and env.get(k.id, (None,))[0] != KEYV:
                                    env[k.id] = (KEYV, node)
                                    changed = True
                                if isinstance(v, ast.Name) and env.get(v.id, (None,))[0] != VAL:
                                    env[v.id] = (VAL, node)
                                    changed = True
                            elif it.func.attr == "values" and isinstance(tgt, ast.Name) and env.get(tgt.id, (None,))[0] != VAL:
                                env[tgt.id] = (VAL, node)
                                changed = True
                    else:
                        base = self.classify(fi, it, env)
                        if base == FIELD and isinstance(node.target, ast.Name) and env.get(node.target.id, (None,))[0] != ELEM:
                            env[node.target.id] = (ELEM, node)
                            changed = True
        self.aliases[fi.where] = env
        # pass 2: mutation sites and lock regions
        stmts = [n for n in walk_no_nested(fi.node) if isinstance(n, ast.stmt)]
        lock_aliases = set()
        for st in stmts:
            if isinstance(st, ast.Assign) and len(st.targets) == 1 and isinstance(st.targets[0], ast.Name) and self.is_lock_expr(st.value) is True:
                # a local name for the one shared lock (bound once in this function)
                nm = st.targets[0].id
                binds = [x for x in stmts if isinstance(x, (ast.Assign, ast.AugAssign, ast.AnnAssign)) and any(isinstance(t, ast.Name) and t.id == nm for t in (x.targets if isinstance(x, ast.Assign) else [x.target]))]
                if len(binds) == 1:
                    lock_aliases.add(nm)
        self._lock_aliases[fi.where] = lock_aliases

        def is_lock(e: ast.AST) -> Optional[bool]:
            if isinstance(e, ast.Name) and e.id in lock_aliases:
                return True
            return self.is_lock_expr(e)

        # `L.acquire()` directly followed by `try: ... finally: L.release()` is a locked region (the try body)
        for parent in [fi.node] + list(walk_no_nested(fi.node)):
            for field in ("body", "orelse", "finalbody"):
                lst = getattr(parent, field, None)
                if not isinstance(lst, list):
                    continue
                for a in lst:
                    # an acquisition that can fail (non-blocking or with a timeout) used as a statement: nobody looks at the result
                    if isinstance(a, ast.Expr) and isinstance(a.value, ast.Call) and isinstance(a.value.func, ast.Attribute) and a.value.func.attr == "acquire" and is_lock(a.value.func.value) is True:
                        call = a.value
                        blocking_only = all(isinstance(x, ast.Constant) and x.value is True for x in call.args[:1]) and len(call.args) <= 1 \
                            and all(k.arg == "blocking" and isinstance(k.value, ast.Constant) and k.value.value is True for k in call.keywords)
                        if not blocking_only:
                            self.unchecked_acquires.append((fi, a, unparse(call)))
                for a, b in zip(lst, lst[1:]):
                    if isinstance(a, ast.Expr) and isinstance(a.value, ast.Call) and isinstance(a.value.func, ast.Attribute) and a.value.func.attr == "acquire" \
                            and all(isinstance(x, ast.Constant) and x.value is True for x in a.value.args) and len(a.value.args) <= 1 \
                            and all(k.arg == "blocking" and isinstance(k.value, ast.Constant) and k.value.value is True for k in a.value.keywords) \
                            and is_lock(a.value.func.value) is True and isinstance(b, ast.Try) and not b.handlers and b.finalbody:
                        rel = b.finalbody[0]
                        if isinstance(rel, ast.Expr) and isinstance(rel.value, ast.Call) and isinstance(rel.value.func, ast.Attribute) and rel.value.func.attr == "release" \
                                and unparse(rel.value.func.value) == unparse(a.value.func.value):
                            region = ast.With(items=[ast.withitem(context_expr=a.value.func.value, optional_vars=None)], body=b.body)
                            ast.copy_location(region, b)
                            region._origin = b  # type: ignore[attr-defined]
                            self.locked_regions.setdefault(fi.where, []).append(region)
        for st in stmts:
            if isinstance(st, ast.With):
                for item in st.items:
                    v = is_lock(item.context_expr)
                    if v is True:
                        self.locked_regions.setdefault(fi.where, []).append(st)
                    elif v is False:
                        self.bad_lock_exprs.append((fi, st, unparse(item.context_expr)))
                    elif isinstance(item.context_expr, ast.Name) and item.optional_vars is None:
                        # a lock object obtained at run time: which bindings of the local can reach the `with`?
                        nm = item.context_expr.id
                        fresh = lookup = False
                        for n2 in walk_no_nested(fi.node):
                            if isinstance(n2, (ast.Assign, ast.AnnAssign)) and n2.value is not None:
                                tg = n2.targets if isinstance(n2, ast.Assign) else [n2.target]
                                if any(isinstance(t, ast.Name) and t.id == nm for t in tg):
                                    if self.is_lock_expr(n2.value) is False:
                                        fresh = True
                                    elif any(isinstance(x, ast.Attribute) and x.attr in self.class_containers for x in ast.walk(n2.value)):
                                        lookup = True
                        if fresh or lookup:
                            self.dynamic_lock_exprs.append((fi, st, nm, fresh))
            if isinstance(st, (ast.Assign, ast.AugAssign, ast.AnnAssign)):
                tgts = st.targets if isinstance(st, ast.Assign) else [st.target]
                for t in tgts:
                    leaves = t.elts if isinstance(t, (ast.Tuple, ast.List)) else [t]
                    for leaf in leaves:
                        if isinstance(leaf, ast.Subscript):
                            kind = self.classify(fi, leaf.value, env)
                            if kind in (FIELD, ELEM, VAL, FRESH):
                                op = "aug" if isinstance(st, ast.AugAssign) else ("slice-store" if isinstance(leaf.slice, ast.Slice) else "store")
                                self.sites.append(Site(fi, leaf, kind, unparse(leaf.value), op, unparse(leaf.value), st))
                        elif isinstance(leaf, ast.Attribute):
                            ch = attr_chain(leaf)
                            if ch and len(ch) == 2 and ch[1] in self.fields:
                                self.sites.append(Site(fi, leaf, FIELD, unparse(leaf), "rebind", unparse(leaf), st))
            if isinstance(st, ast.Delete):
                for t in st.targets:
                    if isinstance(t, ast.Subscript):
                        kind = self.classify(fi, t.value, env)
                        if kind in (FIELD, ELEM, VAL, FRESH):
                            self.sites.append(Site(fi, t, kind, unparse(t.value), "del", unparse(t.value), st))
        for node in walk_no_nested(fi.node):
            if isinstance(node, ast.Call) and isinstance(node.func, ast.Attribute) and node.func.attr in MUTATORS:
                kind = self.classify(fi, node.func.value, env)
                if kind in (FIELD, ELEM, VAL, FRESH):
                    st = self.stmt_of(fi, node)
                    self.sites.append(Site(fi, node, kind, unparse(node.func.value), node.func.attr, unparse(node.func.value), st))
        _ = self_n

    def stmt_of(self, fi: FuncInfo, node: ast.AST) -> ast.stmt:
        best: Optional[ast.stmt] = None
        for st in walk_no_nested(fi.node):
            if isinstance(st, ast.stmt):
                for sub in ast.walk(st):
                    if sub is node:
                        if best is None or (st.lineno, -getattr(st, "end_lineno", st.lineno)) >= (best.lineno, -getattr(best, "end_lineno", best.lineno)):
                            # innermost simple statement wins
                            if not isinstance(st, (ast.For, ast.While, ast.If, ast.With, ast.Try, ast.FunctionDef)) or best is None:
                                best = st
                        break
        return best if best is not None else fi.node

    # ------------------------------------------------------------------ lock context
    def in_locked_region(self, fi: FuncInfo, node: ast.AST) -> bool:
        for w in self.locked_regions.get(fi.where, []):
            for sub in ast.walk(w):
                if sub is node:
                    # the context expression itself is evaluated before the lock is taken
                    return not any(sub2 is node for item in w.items for sub2 in ast.walk(item.context_expr))
        return False

    def _call_graph(self) -> None:
        by_name: Dict[str, FuncInfo] = {}
        for fi in self.funcs:
            if fi.parent is None:
                by_name[fi.name] = fi
        for fi in self.funcs:
            self_n = self._self_name(fi)
            for node in walk_no_nested(fi.node):
                if isinstance(node, ast.Call):
                    cn = call_name(node)
                    if not cn:
                        continue
                    callee: Optional[FuncInfo] = None
                    if len(cn) == 1:
                        cur: Optional[FuncInfo] = fi
                        while cur is not None and callee is None:
                            callee = cur.nested.get(cn[0])
                            cur = cur.parent
                    elif len(cn) == 2 and cn[0] in (self_n, "cls", self.cname, "self"):
                        callee = by_name.get(cn[1]) or self.repo.method(self.cname, cn[1])
                        if callee is not None and callee not in self.funcs:
                            callee = None
                    if callee is not None:
                        self.callers.setdefault(callee.where, []).append((fi, node, self.in_locked_region(fi, node)))
                # a method of the class taken as a value (`f = self._a if c else self._b; f(x)`) counts as called where referenced
                if isinstance(node, ast.Attribute) and isinstance(node.ctx, ast.Load) and isinstance(node.value, ast.Name) and node.value.id in (self_n, "cls", self.cname, "self"):
                    is_callee = any(isinstance(n2, ast.Call) and n2.func is node for n2 in walk_no_nested(fi.node))
                    if not is_callee:
                        cal = by_name.get(node.attr) or self.repo.method(self.cname, node.attr)
                        if cal is not None and cal in self.funcs and cal.parent is None and not any("property" in d for d in cal.decorators):
                            # the method value may be bound to a local first and called later: the call sites of that local count
                            local = None
                            for st2 in walk_no_nested(fi.node):
                                if isinstance(st2, ast.Assign) and len(st2.targets) == 1 and isinstance(st2.targets[0], ast.Name) and any(sub is node for sub in ast.walk(st2.value)):
                                    local = st2.targets[0].id
                            call_sites = [n2 for n2 in walk_no_nested(fi.node) if isinstance(n2, ast.Call) and isinstance(n2.func, ast.Name) and n2.func.id == local] if local else []
                            if call_sites:
                                for cs in call_sites:
                                    self.callers.setdefault(cal.where, []).append((fi, cs, self.in_locked_region(fi, cs)))
                            else:
                                self.callers.setdefault(cal.where, []).append((fi, node, self.in_locked_region(fi, node)))
                # a nested function passed around (e.g. as a callback) counts as called where it is referenced
                if isinstance(node, ast.Name) and isinstance(node.ctx, ast.Load) and node.id in fi.nested:
                    parent_call = None
                    for n2 in walk_no_nested(fi.node):
                        if isinstance(n2, ast.Call) and n2.func is node:
                            parent_call = n2
                    if parent_call is None:
                        self.callers.setdefault(fi.nested[node.id].where, []).append((fi, node, self.in_locked_region(fi, node)))

    def _lock_held_fixpoint(self) -> Set[str]:
        held = {fi.where for fi in self.funcs if self.callers.get(fi.where)}
        changed = True
        while changed:
            changed = False
            for w in list(held):
                for caller, _node, locked in self.callers.get(w, []):
                    if not locked and caller.where not in held:
                        held.discard(w)
                        changed = True
                        break
        return held

    def is_protected(self, fi: FuncInfo, node: ast.AST) -> bool:
        return self.in_locked_region(fi, node) or fi.where in self.lock_held

    def unlocked_path(self, fi: FuncInfo) -> List[str]:
        """A call path from an unlocked entry to ``fi`` (for the report)."""
        path = [fi.where]
        cur = fi
        seen = {fi.where}
        while True:
            callers = self.callers.get(cur.where, [])
            nxt = None
            for caller, _n, locked in callers:
                if not locked and caller.where not in self.lock_held and caller.where not in seen:
                    nxt = caller
                    break
            if nxt is None:
                for caller, _n, locked in callers:
                    if not locked and caller.where not in seen:
                        nxt = caller
                        break
            if nxt is None:
                break
            path.append(nxt.where)
            seen.add(nxt.where)
            cur = nxt
        return list(reversed(path))

    # ------------------------------------------------------------------ acquirers
    def acquirers(self) -> Set[str]:
        return set(self.locked_regions)

    def reaches_acquirer(self, start: FuncInfo, depth: int = 0, seen: Optional[Set[str]] = None) -> Optional[List[str]]:
        seen = seen if seen is not None else set()
        if start.where in seen or depth > 12:
            return None
        seen.add(start.where)
        if start.where in self.acquirers():
            return [start.where]
        for callee_where, lst in self.callers.items():
            for caller, _n, _l in lst:
                if caller is start:
                    callee = self.repo.funcs[callee_where]
                    sub = self.reaches_acquirer(callee, depth + 1, seen)
                    if sub:
                        return [start.where] + sub
        return None
