"""Helpers that compare a function's extracted skeleton with a specification."""

from __future__ import annotations

import ast
import textwrap
from typing import Dict, List, Optional, Sequence, Tuple

from .core import AnalysisError, FuncInfo, Repo, strip_doc
from .report import Ctx
from .skeleton import Env, Term, Unrecognised, body_term, func_term, has_unrecognised, placeholder_env, show, vocabulary


def spec_from_src(src: str) -> Term:
    """``src`` is the source of a function ``def spec(self, a0, ...)`` (or just its body
    when it starts with ``return``)."""
    src = textwrap.dedent(src).strip()
    if not src.startswith("def "):
        src = "def spec(self, a0=None, a1=None, a2=None, a3=None, *va, **kw):\n" + textwrap.indent(src, "    ")
    node = ast.parse(src).body[0]
    assert isinstance(node, ast.FunctionDef)
    env = placeholder_env(node)
    return body_term(strip_doc(node.body), env)


def subst(t, mapping: Dict[Term, Term]):
    if isinstance(t, tuple):
        if t in mapping:
            return mapping[t]
        return tuple(subst(x, mapping) for x in t)
    return t


def inline_self_calls(t, repo: Repo, cls_name: str, depth: int = 0):
    """Replace ``self.m(args)`` by the skeleton of m (one level, simple argument shapes)."""
    if not isinstance(t, tuple):
        return t
    if t and t[0] == "call" and t[1] == ("name", "self") and not t[4] and depth < 2:
        m = repo.method(cls_name, t[2])
        if m is not None:
            try:
                body = func_term(m)
            except AnalysisError:
                body = None
            if body is not None:
                args = t[3]
                mapping: Dict[Term, Term] = {}
                ok = True
                if len(args) == 1 and args[0][0] == "star":
                    mapping[("name", "va")] = args[0][1]
                    if [p for p in m.params[1:]]:
                        ok = False
                else:
                    n_pos = len(m.params) - 1
                    if any(a[0] == "star" for a in args) or len(args) > n_pos and m.vararg is None:
                        ok = False
                    else:
                        for i, a in enumerate(args[:n_pos]):
                            mapping[("name", f"a{i}")] = a
                        if m.vararg is not None:
                            mapping[("name", "va")] = ("tuple", tuple(args[n_pos:]))
                if ok:
                    return inline_self_calls(_renorm(subst(body, mapping)), repo, cls_name, depth + 1)
    return tuple(inline_self_calls(x, repo, cls_name, depth) for x in t)


def _renorm(t):
    """Re-apply the smart constructors after a substitution (negations may now simplify)."""
    from .skeleton import mk_and, mk_ite, mk_or, neg

    if not isinstance(t, tuple) or not t:
        return t
    tag = t[0]
    if tag == "not":
        return neg(_renorm(t[1]))
    if tag == "and":
        return mk_and([_renorm(x) for x in t[1]])
    if tag == "or":
        return mk_or([_renorm(x) for x in t[1]])
    if tag == "ite":
        return mk_ite(_renorm(t[1]), _renorm(t[2]), _renorm(t[3]))
    return tuple(_renorm(x) if isinstance(x, tuple) else x for x in t)


def logic_vocab(t: Term) -> set:
    # constants are not building blocks: an implementation that differs from the
    # specification only in a literal (range(i + 2, ..) for range(i + 1, ..)) is decided, not unknown
    return {v for v in vocabulary(t) if not v.startswith("const:")}


def reaches_call(repo: Repo, fi: FuncInfo, name: str, depth: int = 3, seen=None) -> bool:
    """Does ``fi`` (transitively, through exactly resolved in-repo callees) call something named ``name``?"""
    import ast as _ast

    from .core import call_name, walk_no_nested

    seen = seen if seen is not None else set()
    if fi.where in seen or depth < 0:
        return False
    seen.add(fi.where)
    for node in _ast.walk(fi.node):
        if isinstance(node, _ast.Call):
            cn = call_name(node)
            if cn and cn[-1] == name:
                return True
        if isinstance(node, _ast.Attribute) and node.attr == name:
            return True
    for node in _ast.walk(fi.node):
        if isinstance(node, _ast.Call):
            cands, exact = repo.resolve_call(fi, node)
            if exact:
                for c in cands:
                    if reaches_call(repo, c, name, depth - 1, seen):
                        return True
    return False


def strip_assuming(t):
    """Drop assert-preconditions (('assuming', cond, rest) -> rest) everywhere in a term."""
    if not isinstance(t, tuple):
        return t
    if t and t[0] == "assuming":
        return strip_assuming(t[2])
    return tuple(strip_assuming(x) for x in t)


def check_skeleton(ctx: Ctx, rule: str, fi: FuncInfo, specs: Sequence[str], what: str, inline_cls: Optional[str] = None, required_calls: Sequence[str] = (), ignore_asserts: bool = False) -> bool:
    """Compare; record ok / violation; raise AnalysisError when undecidable.
    ``required_calls``: functions the property says must be consulted; if one is not even reachable
    from ``fi`` the implementation cannot be the required computation (violation, not unknown)."""
    impl = func_term(fi)
    if ignore_asserts:
        impl = strip_assuming(impl)
    voc = vocabulary(impl)

    def reachable_from_term(name: str) -> bool:
        # the required function may be consulted inside a helper that the *returned value* calls
        for v in voc:
            if v.startswith("call:"):
                helper = v[5:]
                for cand in ctx.repo.all_funcs():
                    if cand.name == helper and cand is not fi and reaches_call(ctx.repo, cand, name):
                        return True
        return False

    missing = [c for c in required_calls if f"call:{c}" not in voc and f"attr:{c}" not in voc and not reachable_from_term(c)]
    if missing:
        ctx.violation(rule, fi, fi.node, f"{what}: the implementation never consults {', '.join(missing)}  (it computes {show(impl)[:160]})")
        return False
    spec_terms = [spec_from_src(s) for s in specs]
    if ignore_asserts:
        spec_terms = [strip_assuming(s) for s in spec_terms]
    if impl in spec_terms:
        ctx.ok(rule, fi.where, f"{what}: {show(impl)}", fi.node, fi)
        return True
    cands = [impl]
    if inline_cls is not None:
        inl = inline_self_calls(impl, ctx.repo, inline_cls)
        if inl in spec_terms:
            ctx.ok(rule, fi.where, f"{what} (after inlining helpers): {show(inl)}", fi.node, fi)
            return True
        cands.append(inl)
        spec_inl = [inline_self_calls(s, ctx.repo, inline_cls) for s in spec_terms]
        if inl in spec_inl:
            ctx.ok(rule, fi.where, f"{what} (both sides inlined): {show(inl)}", fi.node, fi)
            return True
        spec_terms = spec_terms + spec_inl
    import re as _re

    def modulo_params(v: set) -> set:
        # the function's own parameters (a0, a1, ..) are interchangeable *as building blocks*: using the
        # wrong one (or leaving one unused) is a decided difference, not an unknown idiom
        return {x for x in v if not _re.fullmatch(r"name:a\d+", x)}

    for c in cands:
        if has_unrecognised(c):
            continue
        for s in spec_terms:
            if modulo_params(logic_vocab(c)) == modulo_params(logic_vocab(s)):
                ctx.violation(rule, fi, fi.node, f"{what}: implementation computes  {show(c)}  but the property requires  {show(s)}")
                return False
    raise AnalysisError(
        f"{fi.where}: skeleton {show(impl)[:200]} uses other building blocks than the specification {show(spec_terms[0])[:200]}; cannot decide ({rule})"
    )
