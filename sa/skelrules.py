"""Helpers that compare a function's extracted skeleton with a specification."""

from __future__ import annotations

import ast
import textwrap
from typing import Dict, List, Optional, Sequence, Tuple

from .core import AnalysisError, FuncInfo, Repo, strip_doc
from .report import Ctx
from .skeleton import Env, Term, Unrecognised, body_term, func_term, has_unrecognised, placeholder_env, show, vocabulary


def spec_from_src(src: str) -> Term:
    """``src`` is the source of a function ``def spec(self, a0, ...)`` (or just its body
    when it starts with ``return``)."""
    src = textwrap.dedent(src).strip()
    if not src.startswith("def "):
        src = "def spec(self, a0=None, a1=None, a2=None, a3=None, *va, **kw):\n" + textwrap.indent(src, "    ")
    node = ast.parse(src).body[0]
    assert isinstance(node, ast.FunctionDef)
    env = placeholder_env(node)
    return body_term(strip_doc(node.body), env)


def subst(t, mapping: Dict[Term, Term]):
    if isinstance(t, tuple):
        if t in mapping:
            return mapping[t]
        # a parameter that is called: f(x) with f := obj.m  becomes  obj.m(x);  f := g  becomes  g(x)
        if t and t[0] == "call" and t[1] is None and ("name", t[2]) in mapping:
            fn = mapping[("name", t[2])]
            args = tuple(subst(x, mapping) for x in t[3])
            kw = tuple(subst(x, mapping) for x in t[4]) if isinstance(t[4], tuple) else t[4]
            if isinstance(fn, tuple) and fn and fn[0] == "attr":
                return ("call", fn[1], fn[2], args, kw)
            if isinstance(fn, tuple) and fn and fn[0] == "name":
                return ("call", None, fn[1], args, kw)
        return tuple(subst(x, mapping) for x in t)
    return t


_BINDERS = {"forall": (1,), "exists": (1,), "count": (1,), "concat": (1,), "comp": (2,)}  # tag -> indexes of the domain (evaluated outside the binder)


def shift_bv(t, by: int):
    """Renumber the bound variables of a closed helper skeleton so that it can be placed under ``by`` binders."""
    if by == 0 or not isinstance(t, tuple):
        return t
    if t and t[0] == "bv" and len(t) == 3:
        return ("bv", t[1] + by, t[2])
    return tuple(shift_bv(x, by) for x in t)


def _level_children(t, level: int):
    """(child, level of the child) for every tuple child of a term"""
    if t and isinstance(t[0], str) and t[0] in _BINDERS:
        outside = _BINDERS[t[0]]
        for i, x in enumerate(t):
            yield i, x, (level if i in outside else level + 1)
    else:
        for i, x in enumerate(t):
            yield i, x, level


def inline_self_calls(t, repo: Repo, cls_name: str, depth: int = 0, level: int = 0):
    """Replace ``self.m(args)`` by the skeleton of m (one level, simple argument shapes)."""
    if not isinstance(t, tuple):
        return t
    if t and t[0] == "call" and t[1] == ("name", "self") and not t[4] and depth < 2:
        m = repo.method(cls_name, t[2])
        if m is not None:
            try:
                body = func_term(m)
            except AnalysisError:
                body = None
            if body is not None:
                args = t[3]
                mapping: Dict[Term, Term] = {}
                ok = True
                if len(args) == 1 and args[0][0] == "star":
                    mapping[("name", "va")] = args[0][1]
                    if [p for p in m.params[1:]]:
                        ok = False
                else:
                    n_pos = len(m.params) - 1
                    if any(a[0] == "star" for a in args) or len(args) > n_pos and m.vararg is None:
                        ok = False
                    else:
                        for i, a in enumerate(args[:n_pos]):
                            mapping[("name", f"a{i}")] = a
                        if m.vararg is not None:
                            mapping[("name", "va")] = ("tuple", tuple(args[n_pos:]))
                if ok:
                    return inline_self_calls(_renorm(subst(shift_bv(body, level), mapping)), repo, cls_name, depth + 1, level)
    out = tuple(inline_self_calls(x, repo, cls_name, depth, lv) if isinstance(x, tuple) else x for _i, x, lv in _level_children(t, level))
    return _renorm(out) if out != t else out


def inline_helpers(t, repo: Repo, fi: FuncInfo, keep: set, depth: int = 0, level: int = 0):
    """Replace calls of in-repo helpers that the specification does not mention (`keep` = call names of the
    specification) by the helper's own skeleton: module-level functions of the same module, and static / class methods
    called through the class or `cls`.  Two levels, simple positional arguments."""
    if not isinstance(t, tuple):
        return t
    if t and t[0] == "call" and t[2] not in keep and depth < 2 and not t[4]:
        callee = None
        recv = t[1]
        if recv is None:
            callee = fi.module.functions.get(t[2])
        elif isinstance(recv, tuple) and recv[0] == "name" and fi.cls is not None and recv[1] in ("cls", fi.cls.name):
            m = repo.method(fi.cls.name, t[2])
            if m is not None and (m.is_static or m.is_classmethod):
                callee = m
        elif isinstance(recv, tuple) and recv[0] == "name" and recv[1] == "self" and fi.cls is not None:
            m = repo.method(fi.cls.name, t[2])
            if m is not None and not m.is_static and not m.is_classmethod and not any("property" in d for d in m.decorators):
                callee = m
        if callee is not None and callee is not fi and callee.vararg is None:
            try:
                body = func_term(callee)
            except AnalysisError:
                body = None
            params = callee.params if (callee.cls is None or callee.is_static) else callee.params[1:]
            if body is not None and len(params) == len(t[3]) and not any(isinstance(a, tuple) and a and a[0] == "star" for a in t[3]):
                # func_term names the parameters a0, a1, ... (after self/cls)
                mapping: Dict[Term, Term] = {("name", f"a{i}"): a for i, a in enumerate(t[3])}
                return inline_helpers(_renorm(subst(shift_bv(body, level), mapping)), repo, callee, keep, depth + 1, level)
    out = tuple(inline_helpers(x, repo, fi, keep, depth, lv) if isinstance(x, tuple) else x for _i, x, lv in _level_children(t, level))
    return _renorm(out) if out != t else out


def _renorm(t):
    """Re-apply the smart constructors after a substitution (negations may now simplify)."""
    from .skeleton import mk_and, mk_ite, mk_or, neg

    if not isinstance(t, tuple) or not t:
        return t
    tag = t[0]
    if tag == "not":
        return neg(_renorm(t[1]))
    if tag == "and":
        return mk_and([_renorm(x) for x in t[1]])
    if tag == "or":
        return mk_or([_renorm(x) for x in t[1]])
    if tag == "ite":
        return mk_ite(_renorm(t[1]), _renorm(t[2]), _renorm(t[3]))
    return tuple(_renorm(x) if isinstance(x, tuple) else x for x in t)


def logic_vocab(t: Term) -> set:
    # constants are not building blocks: an implementation that differs from the
    # specification only in a literal (range(i + 2, ..) for range(i + 1, ..)) is decided, not unknown
    return {v for v in vocabulary(t) if not v.startswith("const:")}


def reaches_call(repo: Repo, fi: FuncInfo, name: str, depth: int = 3, seen=None) -> bool:
    """Does ``fi`` (transitively, through exactly resolved in-repo callees) call something named ``name``?"""
    import ast as _ast

    from .core import call_name, walk_no_nested

    seen = seen if seen is not None else set()
    if fi.where in seen or depth < 0:
        return False
    seen.add(fi.where)
    for node in _ast.walk(fi.node):
        if isinstance(node, _ast.Call):
            cn = call_name(node)
            if cn and cn[-1] == name:
                return True
        if isinstance(node, _ast.Attribute) and node.attr == name:
            return True
    for node in _ast.walk(fi.node):
        if isinstance(node, _ast.Call):
            cands, exact = repo.resolve_call(fi, node)
            if exact:
                for c in cands:
                    if reaches_call(repo, c, name, depth - 1, seen):
                        return True
    return False



# ----------------------------------------------------------------------------- semantic comparison of two skeletons

_LOGIC = {"and", "or", "not", "ite", "guard", "assuming", "raise"}


def _canon_q(t):
    """forall(dom, c) is handled as not exists(dom, not c): both spellings share one atom."""
    from .skeleton import neg

    if isinstance(t, tuple) and t and t[0] == "forall":
        return ("not", ("exists", t[1], neg(t[2])))
    if isinstance(t, tuple) and len(t) == 4 and t[0] == "cmp":
        # one atom per comparison and its negation:  a != b is not (a == b),  a is not b is not (a is b),  a <= b is not (b < a)
        if t[1] == "!=":
            return ("not", ("cmp", "==", t[2], t[3]))
        if t[1] == "is not":
            return ("not", ("cmp", "is", t[2], t[3]))
        if t[1] == "<=":
            return ("not", ("cmp", "<", t[3], t[2]))
    return t


def _atoms(t, out: list) -> None:
    t = _canon_q(t)
    if isinstance(t, tuple) and t and t[0] in _LOGIC:
        if t[0] in ("and", "or"):
            for x in t[1]:
                _atoms(x, out)
        elif t[0] == "not":
            _atoms(t[1], out)
        elif t[0] == "ite":
            for x in t[1:]:
                _atoms(x, out)
        elif t[0] == "guard":
            _atoms(t[1], out)
            _atoms(t[3], out)
        elif t[0] == "assuming":
            _atoms(t[1], out)
            _atoms(t[2], out)
        return
    if t in (("const", "True"), ("const", "False")):
        return
    if t not in out:
        out.append(t)


class _Raise:
    def __init__(self, name: str):
        self.name = name

    def __eq__(self, other):
        return isinstance(other, _Raise) and other.name == self.name

    def __hash__(self):
        return hash(("raise", self.name))


def _ev(t, val):
    """Value of a skeleton under a valuation of its atoms: True / False / _Raise / the atom itself (opaque value)."""
    t = _canon_q(t)
    if t == ("const", "True"):
        return True
    if t == ("const", "False"):
        return False
    if isinstance(t, tuple) and t and t[0] in _LOGIC:
        tag = t[0]
        if tag == "raise":
            return _Raise(t[1])
        if tag == "not":
            v = _ev(t[1], val)
            return (not v) if isinstance(v, bool) else v
        if tag in ("and", "or"):
            vs = [_ev(x, val) for x in t[1]]
            decisive = (tag == "or")
            if any(v is decisive for v in vs):
                return decisive
            for v in vs:
                if isinstance(v, _Raise):
                    return v
            opaque = [v for v in vs if not isinstance(v, bool)]
            if opaque:
                return ("opaque", tag, tuple(sorted(map(repr, opaque))))
            return not decisive
        if tag == "ite":
            c = _ev(t[1], val)
            if isinstance(c, _Raise):
                return c
            if not isinstance(c, bool):
                return ("opaque", "ite", repr(c), repr(_ev(t[2], val)), repr(_ev(t[3], val)))
            return _ev(t[2], val) if c else _ev(t[3], val)
        if tag == "guard":
            c = _ev(t[1], val)
            if c is True:
                return _Raise(t[2])
            if c is False:
                return _ev(t[3], val)
            return c if isinstance(c, _Raise) else ("opaque", "guard", repr(c))
        if tag == "assuming":
            c = _ev(t[1], val)
            if c is False:
                return _Raise("AssertionError")
            return _ev(t[2], val)
    v = val.get(t)
    return v if v is not None else ("atom", repr(t))


def _is_boolean_atom(t, where_bool: set) -> bool:
    return t in where_bool


def _bool_positions(t, out: set, boolean: bool = False) -> None:
    """atoms that occur in a position where only their truth value matters"""
    t = _canon_q(t)
    if isinstance(t, tuple) and t and t[0] in _LOGIC:
        tag = t[0]
        if tag in ("and", "or"):
            for x in t[1]:
                _bool_positions(x, out, True)
        elif tag == "not":
            _bool_positions(t[1], out, True)
        elif tag == "ite":
            _bool_positions(t[1], out, True)
            _bool_positions(t[2], out, boolean)
            _bool_positions(t[3], out, boolean)
        elif tag == "guard":
            _bool_positions(t[1], out, True)
            _bool_positions(t[3], out, boolean)
        elif tag == "assuming":
            _bool_positions(t[1], out, True)
            _bool_positions(t[2], out, boolean)
        return
    if boolean:
        out.add(t)


def prop_equivalent(a, b, repo: Optional[Repo] = None, max_atoms: int = 12, alias: Optional[tuple] = None) -> Optional[bool]:
    """Are the two skeletons equal as functions of their atoms (maximal non-propositional subterms), over every
    valuation consistent with the class hierarchy (isinstance(x, Sub) implies isinstance(x, Super))?
    None if there is nothing propositional to compare or too many atoms."""
    atoms: list = []
    _atoms(a, atoms)
    _atoms(b, atoms)
    bools: set = set()
    _bool_positions(a, bools, True)
    _bool_positions(b, bools, True)
    batoms = [x for x in atoms if x in bools]
    if alias is not None:
        # ``alias = (B, A)``: atom B is given the truth value of atom A in every valuation ("if B were A")
        if alias[0] not in batoms or alias[1] not in batoms:
            return None
        batoms = [x for x in batoms if x != alias[0]]
    if not batoms or len(batoms) > max_atoms:
        return None
    if a == b:
        return True
    if not (isinstance(a, tuple) and a and a[0] in _LOGIC) and not (isinstance(b, tuple) and b and b[0] in _LOGIC):
        return None
    # hierarchy constraints
    impl: List[Tuple[int, int]] = []
    if repo is not None:
        inst = []
        for i, x in enumerate(batoms):
            if isinstance(x, tuple) and x[0] == "call" and x[1] is None and x[2] == "isinstance" and len(x[3]) == 2 and x[3][1][0] == "name":
                inst.append((i, x[3][0], x[3][1][1]))
        for i, xi, ci in inst:
            for j, xj, cj in inst:
                if i != j and xi == xj and ci != cj and ci in repo.classes and any(c.name == cj for c in repo.mro(ci)):
                    impl.append((i, j))
    import itertools as _it

    for bits in _it.product((False, True), repeat=len(batoms)):
        if any(bits[i] and not bits[j] for i, j in impl):
            continue
        val = dict(zip(batoms, bits))
        if alias is not None:
            val[alias[0]] = val[alias[1]]
        if _ev(a, val) != _ev(b, val):
            prop_equivalent.witness = {show(k)[:60]: v for k, v in val.items()}  # type: ignore[attr-defined]
            return False
    return True


def same_atoms(a, b) -> bool:
    xa: list = []
    xb: list = []
    _atoms(a, xa)
    _atoms(b, xb)
    return bool(xa) and set(xa) == set(xb)


_EXPR_TAGS = {"bin", "const", "name", "neg", "attr", "sub", "bv", "un", "unpack"}


def _is_expr_leaf(t) -> bool:
    if not isinstance(t, tuple) or not t:
        return True
    if t[0] == "call":
        return t[2] in ("len",) and all(_is_expr_leaf(x) for x in t[3])
    if t[0] == "count":
        return len(t) == 3 and t[2] in (("const", "True"), ("true",)) and isinstance(t[1], tuple) and t[1][0] == "iter" and _is_expr_leaf(t[1][1])
    if t[0] in _EXPR_TAGS:
        return all(_is_expr_leaf(x) for x in t[1:] if isinstance(x, tuple))
    if t[0] == "tuple" and len(t) == 2 and isinstance(t[1], tuple):
        return all(_is_expr_leaf(x) for x in t[1])  # a display of plain expressions, e.g. (x - 1, x)
    return False


def _wrapped(t):
    """children that ``t`` wraps as a unary operator / method call / single-argument function"""
    if not isinstance(t, tuple) or not t:
        return []
    if t[0] in ("not", "neg", "iter"):
        return [t[1]]
    if t[0] == "attr":
        return [t[1]]
    if t[0] == "call":
        out = []
        if t[1] is not None:
            out.append(t[1])
            if len(t[3]) == 1 and not t[4]:
                out.append(t[3][0])  # X.op(v): v passed through a binary operation with X
        elif len(t[3]) == 1 and not t[4]:
            out.append(t[3][0])
        return out
    return []


def _list_dist(xs, ys, budget: int, ordered: bool) -> Optional[int]:
    xs, ys = list(xs), list(ys)
    all_x, all_y = list(xs), list(ys)
    if not ordered:
        for x in list(xs):
            if x in ys:
                xs.remove(x)
                ys.remove(x)
    if len(xs) == len(ys):
        if ordered:
            diffs = [(x, y) for x, y in zip(xs, ys) if x != y]
            if len(diffs) == 2 and diffs[0][0] == diffs[1][1] and diffs[0][1] == diffs[1][0]:
                return 1  # two children exchanged
            total = 0
            for x, y in diffs:
                d = edit_distance(x, y, budget - total)
                if d is None:
                    return None
                total += d
                if total > budget:
                    return None
            return total
        total = 0
        for x in xs:
            best, best_y = None, None
            for y in ys:
                d = edit_distance(x, y, budget - total)
                if d is not None and (best is None or d < best):
                    best, best_y = d, y
            if best is None:
                return None
            ys.remove(best_y)
            total += best
            if total > budget:
                return None
        return total
    if abs(len(xs) - len(ys)) == 1 and budget >= 1:
        longer, shorter = (xs, ys) if len(xs) > len(ys) else (ys, xs)
        for k in range(len(longer)):
            rest = longer[:k] + longer[k + 1:]
            if (rest == shorter) if ordered else (sorted(map(repr, rest)) == sorted(map(repr, shorter))):
                if longer is xs and longer[k] in (("reverse", ("const", "True")), ("reverse", ("true",))):
                    return 1  # sorted(..., reverse=True): the order is reversed
                if longer is xs:
                    # the implementation (first argument) has an EXTRA requirement / alternative / filter / argument: it may
                    # be a correct shortcut or a redundant condition – not decided
                    return None
                return 1  # one child of the specification dropped
    return None


def _swap_names(t, n1, n2):
    if t == n1:
        return n2
    if t == n2:
        return n1
    if isinstance(t, tuple):
        return tuple(_swap_names(x, n1, n2) for x in t)
    return t


def _name_leaves(t, out: set) -> None:
    if isinstance(t, tuple):
        if t and t[0] in ("name", "bv"):
            out.add(t)
        elif t and t[0] == "unpack" and len(t) == 3 and isinstance(t[1], tuple) and t[1] and t[1][0] in ("name", "bv"):
            out.add(t)
        else:
            for x in t:
                _name_leaves(x, out)


def edit_distance(a, b, budget: int = 1, _qfree: bool = False) -> Optional[int]:
    """Number of point edits (relabel a node / operator, replace a leaf expression, exchange two children, add or
    drop one child of a list, insert or remove one unary wrapper such as `not` or a method call) that turn one skeleton
    into the other, if at most ``budget``; None otherwise."""
    if a == b:
        return 0
    if budget <= 0:
        return None
    from .skeleton import neg

    if isinstance(a, tuple) and isinstance(b, tuple):
        try:
            if neg(a) == b or neg(b) == a:
                return 1
        except Exception:  # pylint: disable=broad-except
            pass
    if not isinstance(a, tuple) or not isinstance(b, tuple):
        return 1 if (not isinstance(a, tuple) and not isinstance(b, tuple)) else None
    if _is_expr_leaf(a) and _is_expr_leaf(b):
        return 1
    # `isinstance(x, T)` <-> `type(x) is T` / `type(x) == T`: the exact-type test rejects instances of subclasses of T
    def _exact_type(t):
        if t and t[0] == "cmp" and t[1] in ("is", "==") and isinstance(t[2], tuple) and t[2][:3] == ("call", None, "type") and len(t[2][3]) == 1:
            return (t[2][3][0], t[3])
        return None

    def _inst(t):
        if t and t[:3] == ("call", None, "isinstance") and len(t[3]) == 2:
            return (t[3][0], t[3][1])
        return None

    if (_exact_type(a) is not None and _exact_type(a) == _inst(b)) or (_exact_type(b) is not None and _exact_type(b) == _inst(a)):
        return 1
    # two roles exchanged everywhere (self <-> argument)
    names: set = set()
    _name_leaves(a, names)
    nl = sorted(names, key=repr)
    if 2 <= len(nl) <= 8:
        for i1 in range(len(nl)):
            for i2 in range(i1 + 1, len(nl)):
                if _swap_names(a, nl[i1], nl[i2]) == b:
                    return 1
    # the two coordinates of every unpacked pair exchanged (axes swapped)
    def _swap_idx(t):
        if isinstance(t, tuple):
            if t and t[0] == "unpack" and len(t) == 3 and t[2] in (0, 1):
                return ("unpack", _swap_idx(t[1]), 1 - t[2])
            return tuple(_swap_idx(x) for x in t)
        return t

    if _swap_idx(a) == b:
        return 1
    # receiver and single argument of a method call exchanged
    if a and b and a[0] == "call" and b[0] == "call" and a[2] == b[2] and a[1] is not None and b[1] is not None and len(a[3]) == 1 and len(b[3]) == 1 \
            and a[1] == b[3][0] and b[1] == a[3][0] and a[4] == b[4]:
        return 1
    # a filter / condition added where there was none
    if a in (("true",), ("const", "True")):
        return 1  # the implementation dropped a condition
    if b in (("true",), ("const", "True")):
        return None  # the implementation filters where the specification does not: may be redundant – not decided
    # the same conditions combined into a different boolean function
    if same_atoms(a, b):
        eq = prop_equivalent(a, b)
        if eq is True:
            return 0
        if eq is False:
            return 1
    # operands of a comparison exchanged
    if a and b and a[0] == b[0] and a[0] in ("cmp", "in") and len(a) == len(b):
        if a[0] == "cmp" and a[1] == b[1] and a[2] == b[3] and a[3] == b[2]:
            return 0 if a[1] in ("==", "!=") else 1
        if a[0] == "in" and a[1] == b[2] and a[2] == b[1]:
            return 1
    best: Optional[int] = None
    # the implementation (a) adds one alternative / requirement to the whole specified value, or drops one
    if a and a[0] in ("and", "or") and len(a) == 2 and not (b and b[0] == a[0]) and b in a[1] and len(a[1]) == 2:
        return None  # an added shortcut / extra requirement may be correct: not decided
    if b and b[0] in ("and", "or") and len(b) == 2 and not (a and a[0] == b[0]) and a in b[1] and len(b[1]) == 2:
        return 1
    # symmetric comparison: operands may have been reordered by the normaliser
    if a and b and a[0] == "cmp" and b[0] == "cmp" and a[1] in ("==", "!=") and b[1] in ("==", "!="):
        base = 0 if a[1] == b[1] else 1
        for (x1, y1), (x2, y2) in (((a[2], b[2]), (a[3], b[3])), ((a[2], b[3]), (a[3], b[2]))):
            d1 = edit_distance(x1, y1, budget - base)
            if d1 is None:
                continue
            d2 = edit_distance(x2, y2, budget - base - d1)
            if d2 is None:
                continue
            if best is None or base + d1 + d2 < best:
                best = base + d1 + d2
    for inner in _wrapped(a):
        # the implementation (first argument) wraps the specified value in one more operation: decided only for negation and
        # for operations the specification itself uses (an extra pass of the same operator); `list(..)`, `iter(..)` etc. are not
        if a[0] == "call" and f"call:{a[2]}" not in vocabulary(b):
            continue
        if a[0] in ("attr", "iter"):
            continue
        d = edit_distance(inner, b, budget - 1)
        if d is not None and (best is None or d + 1 < best):
            best = d + 1
    for inner in _wrapped(b):
        d = edit_distance(a, inner, budget - 1)
        if d is not None and (best is None or d + 1 < best):
            best = d + 1
    if a and b and isinstance(a[0], str) and isinstance(b[0], str):
        ta, tb = a[0], b[0]
        if ta in ("and", "or") and tb in ("and", "or") and len(a) == 2 and len(b) == 2:
            base = 0 if ta == tb else 1
            d = _list_dist(a[1], b[1], budget - base, ordered=False)
            if d is not None and (best is None or d + base < best):
                best = d + base
        elif len(a) == len(b):
            base = 0 if ta == tb else 1
            # quantifier pairs and comparison operators may be relabelled; other tags must agree.  Exchanging the kinds
            # of quantifiers along one nesting chain (any/all swapped) counts as a single edit.
            relabel_ok = {ta, tb} <= {"forall", "exists"} or ta == tb
            qfree_here = _qfree
            if base and {ta, tb} <= {"forall", "exists"}:
                if _qfree:
                    base = 0
                qfree_here = True
            if relabel_ok and base <= budget:
                total = base
                ok = True
                for x, y in zip(a[1:], b[1:]):
                    if x == y:
                        continue
                    if isinstance(x, tuple) and isinstance(y, tuple) and (not x or not isinstance(x[0], str)) and (not y or not isinstance(y[0], str)):
                        d = _list_dist(x, y, budget - total, ordered=True)
                    elif isinstance(x, tuple) and isinstance(y, tuple):
                        d = edit_distance(x, y, budget - total, qfree_here) if not (qfree_here and not _qfree and budget - total == 0) else edit_distance(x, y, 1, True)
                        if d is not None and qfree_here and not _qfree and budget - total == 0 and d > 0:
                            # only further quantifier relabels are free
                            d = d if _only_quantifier_relabels(x, y) else None
                            d = 0 if d is not None else None
                    elif isinstance(x, tuple) or isinstance(y, tuple):
                        other = x if isinstance(x, tuple) else y
                        d = 1 if ((x is None or y is None) and _is_expr_leaf(other)) else None
                    else:
                        d = 1
                    if d is None:
                        ok = False
                        break
                    total += d
                    if total > budget:
                        ok = False
                        break
                if ok and (best is None or total < best):
                    best = total
    return best if best is not None and best <= budget else None


def _only_quantifier_relabels(a, b) -> bool:
    if a == b:
        return True
    if not isinstance(a, tuple) or not isinstance(b, tuple) or len(a) != len(b):
        return False
    if a and b and isinstance(a[0], str) and isinstance(b[0], str) and a[0] != b[0]:
        if not {a[0], b[0]} <= {"forall", "exists"}:
            return False
        return all(_only_quantifier_relabels(x, y) for x, y in zip(a[1:], b[1:]))
    return all((x == y) if not (isinstance(x, tuple) and isinstance(y, tuple)) else _only_quantifier_relabels(x, y) for x, y in zip(a, b))


def point_diffs(a, b) -> Optional[int]:
    return edit_distance(a, b, 1)


def strip_assuming(t):
    """Drop assert-preconditions (('assuming', cond, rest) -> rest) everywhere in a term."""
    if not isinstance(t, tuple):
        return t
    if t and t[0] == "assuming":
        return strip_assuming(t[2])
    return tuple(strip_assuming(x) for x in t)


def _canon(t, lift: bool = False, level: int = 0):
    """Canonical form of a skeleton (bottom-up).  ``level`` is the binder depth of ``t``: a quantifier / comprehension at
    depth L binds the variables ("bv", L, i) and its body lives at depth L + 1 (its domain is evaluated at depth L)."""
    if not isinstance(t, tuple):
        return t
    _kids = list(_level_children(t, level))
    t = tuple(_canon(x, lift, lv) for _i, x, lv in _kids) if _kids or not t else t
    if t and t[0] == "cmp" and len(t) == 4 and t[1] in ("==", "!="):
        a, b = sorted((t[2], t[3]), key=repr)
        return ("cmp", t[1], a, b)
    if t and t[0] == "iter" and len(t) == 2 and isinstance(t[1], tuple) and t[1] and t[1][0] in ("iter", "concat"):
        return t[1]  # iterating an iteration is that iteration
    if t and t[0] == "call" and len(t) == 5:
        from .skeleton import mk_ite

        # a call through a method value:  (X.m)(args)  is  X.m(args)
        if t[2] == "<call>" and isinstance(t[1], tuple) and t[1] and t[1][0] == "attr" and len(t[1]) == 3:
            return _canon_l(lift, level, ("call", t[1][1], t[1][2], t[3], t[4]))
        if t[2] == "<call>" and isinstance(t[1], tuple) and t[1] and t[1][0] == "name":
            return _canon_l(lift, level, ("call", None, t[1][1], t[3], t[4]))
        # a conditional receiver / callee / argument is a conditional call:  (f if c else g)(x) == f(x) if c else g(x);  h(a if c else b) == h(a) if c else h(b)
        if lift and isinstance(t[1], tuple) and t[1] and t[1][0] == "ite":
            _i, c, a, b = t[1]
            return _canon_l(lift, level, mk_ite(c, ("call", a, t[2], t[3], t[4]), ("call", b, t[2], t[3], t[4])))
        for k, arg in enumerate(t[3] if lift else ()):
            if isinstance(arg, tuple) and arg and arg[0] == "ite":
                _i, c, a, b = arg
                return _canon_l(lift, level, mk_ite(c, ("call", t[1], t[2], t[3][:k] + (a,) + t[3][k + 1:], t[4]), ("call", t[1], t[2], t[3][:k] + (b,) + t[3][k + 1:], t[4])))
            if isinstance(arg, tuple) and arg and arg[0] == "star" and isinstance(arg[1], tuple) and arg[1] and arg[1][0] == "ite":
                _i, c, a, b = arg[1]
                return _canon_l(lift, level, mk_ite(c, ("call", t[1], t[2], t[3][:k] + (("star", a),) + t[3][k + 1:], t[4]), ("call", t[1], t[2], t[3][:k] + (("star", b),) + t[3][k + 1:], t[4])))
    if t and t[0] == "in" and len(t) == 3 and isinstance(t[2], tuple) and t[2] and t[2][0] == "tuple":
        # membership in a display does not depend on the order of its elements
        return ("in", t[1], ("tuple", tuple(sorted(t[2][1], key=repr))))
    if t and t[0] in ("exists", "forall") and len(t) == 3:
        q = _split_product_quantifier(t, level)
        if q is not None:
            return _canon(q, lift, level)
        q = _display_quantifier(t, level)
        if q is not None:
            return _canon(q, lift, level)
        q = _comp_domain_quantifier(t, level)
        if q is not None:
            return _canon(q, lift, level)
        q = _order_quantifiers(t, level)
        if q is not None:
            return q
    if t and t[0] == "exists" and len(t) == 3 and isinstance(t[2], tuple) and t[2] and t[2][0] == "or":
        # Exists v: (A or B)  ==  (Exists v: A) or (Exists v: B)
        from .skeleton import mk_or

        return mk_or([("exists", t[1], x) for x in t[2][1]])
    if t and t[0] == "forall" and len(t) == 3 and isinstance(t[2], tuple) and t[2] and t[2][0] == "and":
        from .skeleton import mk_and

        return mk_and([("forall", t[1], x) for x in t[2][1]])
    return t



def _bv_levels(t, out: set) -> None:
    if isinstance(t, tuple):
        if t and t[0] == "bv" and len(t) == 3:
            out.add(t[1])
        else:
            for x in t:
                _bv_levels(x, out)


def _quantifier_level(t) -> Optional[int]:
    """level L of the variables a quantifier (kind, dom, body) binds: the smallest bv level of the body that the domain does
    not use ... determined as the smallest level occurring in the body that is larger than every level of the domain"""
    dom_levels: set = set()
    _bv_levels(t[1], dom_levels)
    body_levels: set = set()
    _bv_levels(t[2], body_levels)
    lo = (max(dom_levels) + 1) if dom_levels else 0
    cands = sorted(x for x in body_levels if x >= lo)
    return cands[0] if cands else None


def _map_bv(t, fn):
    if isinstance(t, tuple):
        if t and t[0] == "bv" and len(t) == 3:
            return fn(t)
        return tuple(_map_bv(x, fn) for x in t)
    return t


def _split_product_quantifier(t, L: int):
    """Q p in product(A, B): body   ->   Q a in A: Q b in B: body[p := (a, b)]   (also for a tuple target (a, b))"""
    kind, dom, body = t
    if not (isinstance(dom, tuple) and dom and dom[0] == "iter" and isinstance(dom[1], tuple) and dom[1] and dom[1][0] == "call" and dom[1][1] is None and dom[1][2] == "product"
            and len(dom[1][3]) == 2 and not dom[1][4]):
        return None
    A, B = dom[1][3]
    used = set()

    def collect(x):
        if isinstance(x, tuple):
            if x and x[0] == "bv" and len(x) == 3 and x[1] == L:
                used.add(x[2])
            for y in x:
                collect(y)
    collect(body)
    pair_target = used <= {0, 1} and 1 in used  # for a, b in product(..)
    first, second = ("bv", L, 0), ("bv", L + 1, 0)

    def rewrite(x):
        if not isinstance(x, tuple):
            return x
        if x and x[0] == "unpack" and len(x) == 3 and x[1] == ("bv", L, 0) and not pair_target and x[2] in (0, 1):
            return first if x[2] == 0 else second
        if x and x[0] == "bv" and len(x) == 3:
            if x[1] == L:
                if pair_target:
                    return first if x[2] == 0 else second
                return ("tuple", (first, second))
            if x[1] > L:
                return ("bv", x[1] + 1, x[2])
            return x
        return tuple(rewrite(y) for y in x)

    return (kind, ("iter", A), (kind, ("iter", B), rewrite(body)))


def _display_quantifier(t, L: int):
    """Q v in (e1, e2, ..): body  ->  body[v := e1] (and|or) body[v := e2] ..   for a display of at most four elements"""
    from .skeleton import mk_and, mk_or

    kind, dom, body = t
    if not (isinstance(dom, tuple) and dom and dom[0] == "iter" and isinstance(dom[1], tuple) and dom[1] and dom[1][0] == "tuple" and 1 <= len(dom[1][1]) <= 4):
        return None
    parts = []
    for e in dom[1][1]:
        def rewrite(x, e=e):
            if not isinstance(x, tuple):
                return x
            if x and x[0] == "bv" and len(x) == 3:
                if x[1] == L:
                    return e if x[2] == 0 else ("unpack", e, x[2])
                if x[1] > L:
                    return ("bv", x[1] - 1, x[2])
                return x
            return tuple(rewrite(y) for y in x)
        parts.append(rewrite(body))
    return mk_and(parts) if kind == "forall" else mk_or(parts)


def _comp_domain_quantifier(t, L: int):
    """Q v in (E(x) for x in D if C): body(v)   ->   Q x in D: [C and / C implies] body(E(x))     (also set / list comprehensions:
    a quantifier does not care about multiplicity or order)"""
    from .skeleton import TRUE, mk_and, mk_or, neg

    kind, dom, body = t
    if not (isinstance(dom, tuple) and dom and dom[0] == "iter" and isinstance(dom[1], tuple) and dom[1] and dom[1][0] == "comp" and len(dom[1]) == 5):
        return None
    _c, _k, dom0, conds0, elt = dom[1]
    if isinstance(elt, tuple) and elt and elt[0] == "comp":
        return None
    idxs = set()

    def collect(x):
        if isinstance(x, tuple):
            if x and x[0] == "bv" and len(x) == 3 and x[1] == L:
                idxs.add(x[2])
            for y in x:
                collect(y)
    collect(body)
    tuple_target = any(i > 0 for i in idxs)

    def rewrite(x):
        if not isinstance(x, tuple):
            return x
        if x and x[0] == "bv" and len(x) == 3 and x[1] == L:
            return ("unpack", elt, x[2]) if tuple_target else elt
        return tuple(rewrite(y) for y in x)

    nb = rewrite(body)
    if kind == "forall":
        return ("forall", dom0, mk_or([neg(conds0), nb]) if conds0 != TRUE else nb)
    return ("exists", dom0, mk_and([conds0, nb]) if conds0 != TRUE else nb)


def _order_quantifiers(t, L: int):
    """Q a in A: Q b in B: body  with B independent of a: the two quantifiers commute; the smaller domain text goes outside"""
    kind, dom, body = t
    if not (isinstance(body, tuple) and len(body) == 3 and body[0] == kind):
        return None
    inner_dom = body[1]
    lv: set = set()
    _bv_levels(inner_dom, lv)
    if L in lv or repr(inner_dom) >= repr(dom):
        return None

    def swap(x):
        if x[1] == L:
            return ("bv", L + 1, x[2])
        if x[1] == L + 1:
            return ("bv", L, x[2])
        return x
    return (kind, inner_dom, (kind, dom, _map_bv(body[2], swap)))


def _canon_l(lift: bool, level: int, t):
    return _canon(t, lift, level)


def canon_sym(t):
    """Canonical form used for every comparison of skeletons (see _canon)."""
    return _canon(t, False)


def canon_lift(t):
    """canon_sym plus: a conditional receiver / callee / argument of a call is lifted to a conditional call.  Semantics
    preserving, but it duplicates the surrounding call, so point-edit counting is done on the unlifted form first."""
    return _canon(t, True)

def check_skeleton(ctx: Ctx, rule: str, fi: FuncInfo, specs: Sequence[str], what: str, inline_cls: Optional[str] = None, required_calls: Sequence[str] = (), ignore_asserts: bool = False) -> bool:
    """Compare; record ok / violation; raise AnalysisError when undecidable.
    ``required_calls``: functions the property says must be consulted; if one is not even reachable
    from ``fi`` the implementation cannot be the required computation (violation, not unknown)."""
    impl = func_term(fi)
    if ignore_asserts:
        impl = strip_assuming(impl)
    voc = vocabulary(impl)

    def reachable_from_term(name: str) -> bool:
        # the required function may be consulted inside a helper that the *returned value* calls
        for v in voc:
            if v.startswith("call:"):
                helper = v[5:]
                for cand in ctx.repo.all_funcs():
                    if cand.name == helper and cand is not fi and reaches_call(ctx.repo, cand, name):
                        return True
        return False

    missing = [c for c in required_calls if f"call:{c}" not in voc and f"attr:{c}" not in voc and not reachable_from_term(c)]
    if missing:
        ctx.violation(rule, fi, fi.node, f"{what}: the implementation never consults {', '.join(missing)}  (it computes {show(impl)[:160]})", robust=True)
        return False
    spec_terms = [canon_sym(spec_from_src(s)) for s in specs]
    if ignore_asserts:
        spec_terms = [strip_assuming(s) for s in spec_terms]
    impl = canon_sym(impl)
    if impl in spec_terms:
        ctx.ok(rule, fi.where, f"{what}: {show(impl)}", fi.node, fi)
        return True
    cands = [impl]
    if inline_cls is not None:
        inl = canon_sym(inline_self_calls(impl, ctx.repo, inline_cls))
        if inl in spec_terms:
            ctx.ok(rule, fi.where, f"{what} (after inlining helpers): {show(inl)}", fi.node, fi)
            return True
        cands.append(inl)
        spec_inl = [canon_sym(inline_self_calls(s, ctx.repo, inline_cls)) for s in spec_terms]
        if inl in spec_inl:
            ctx.ok(rule, fi.where, f"{what} (both sides inlined): {show(inl)}", fi.node, fi)
            return True
        spec_terms = spec_terms + spec_inl
    # private helpers the specification does not talk about are looked through
    spec_calls = {v[5:] for sp in spec_terms for v in vocabulary(sp) if v.startswith("call:")}
    try:
        looked = inline_helpers(impl, ctx.repo, fi, spec_calls)
    except Exception:  # pylint: disable=broad-except
        looked = impl
    if looked != impl:
        looked = canon_sym(looked)
        if looked in spec_terms:
            ctx.ok(rule, fi.where, f"{what} (private helpers looked through): {show(looked)[:300]}", fi.node, fi)
            return True
        cands.append(looked)
    # conditional calls lifted on both sides (tried after the plain forms)
    lifted_specs = [canon_lift(sp) for sp in spec_terms]
    if any(ls != sp for ls, sp in zip(lifted_specs, spec_terms)) or any(canon_lift(c) != c for c in cands):
        for c in list(cands):
            lc = canon_lift(c)
            if lc in lifted_specs:
                ctx.ok(rule, fi.where, f"{what}: {show(lc)[:300]}", fi.node, fi)
                return True
            for lsp in lifted_specs:
                if prop_equivalent(lc, lsp, ctx.repo) is True:
                    ctx.ok(rule, fi.where, f"{what}: {show(lc)[:300]}  (propositionally equal to the specification)", fi.node, fi)
                    return True
    # (2) equal as functions of their atoms (case analyses restructured, guards nested differently, ...)
    for c in cands:
        for sp in spec_terms:
            if prop_equivalent(c, sp, ctx.repo) is True:
                ctx.ok(rule, fi.where, f"{what}: {show(c)[:300]}  (propositionally equal to the specification)", fi.node, fi)
                return True
    # (3) a point change of the specification: same shape, exactly one label / operator / leaf differs
    for c in cands:
        if has_unrecognised(c):
            continue
        for sp in spec_terms:
            d = point_diffs(c, sp)
            if d == 1:
                ctx.violation(rule, fi, fi.node, f"{what}: implementation computes  {show(c)}  but the property requires  {show(sp)}", robust=True)
                return False
            # (4) the same conditions combined into a different boolean function (negated, and/or exchanged, a case dropped)
            if same_atoms(c, sp) and prop_equivalent(c, sp, ctx.repo) is False:
                w = getattr(prop_equivalent, "witness", {})
                ctx.violation(rule, fi, fi.node, f"{what}: implementation computes  {show(c)}  but the property requires  {show(sp)}  (they differ when {w})", robust=True)
                return False
            # (5) restructured, and exactly one condition is a point change of the specified one
            off = one_atom_off(c, sp, ctx.repo)
            if off is not None:
                ctx.violation(rule, fi, fi.node, f"{what}: the implementation tests  {show(off[0])[:200]}  where the property requires  {show(off[1])[:200]}  (every other condition agrees)", robust=True)
                return False
    # (6) a point change that shows only once conditional calls are lifted (the edit sits in one branch of a conditional argument)
    for c in cands:
        lc = canon_lift(c)
        if has_unrecognised(lc):
            continue
        for sp in spec_terms:
            lsp = canon_lift(sp)
            if (lc != c or lsp != sp) and point_diffs(lc, lsp) == 1:
                ctx.violation(rule, fi, fi.node, f"{what}: implementation computes  {show(lc)[:300]}  but the property requires  {show(lsp)[:300]}", robust=True)
                return False
    raise AnalysisError(
        f"{fi.where}: skeleton {show(impl)[:200]} is neither the specification nor a point change of it: {show(spec_terms[0])[:200]}; cannot decide ({rule})"
    )


def classify_term(repo, impl, spec_terms) -> Tuple[str, str]:
    """Three-valued comparison of one term with alternative specifications: ('ok', why) when equal or propositionally
    equal to one of them, ('violation', why) on positive evidence (a point change, or the same atoms combined into a
    different boolean function), ('unknown', '') otherwise."""
    impl = canon_sym(impl)
    spec_terms = [canon_sym(s) for s in spec_terms]
    if impl in spec_terms:
        return "ok", "equal"
    for sp in spec_terms:
        if prop_equivalent(impl, sp, repo) is True:
            return "ok", "propositionally equal"
    li = canon_lift(impl)
    for sp in spec_terms:
        lsp = canon_lift(sp)
        if li == lsp or prop_equivalent(li, lsp, repo) is True:
            return "ok", "equal after lifting conditional calls"
    if has_unrecognised(impl):
        return "unknown", ""
    for sp in spec_terms:
        if point_diffs(impl, sp) == 1:
            return "violation", f"computes  {show(impl)}  but the property requires  {show(sp)}"
        if same_atoms(impl, sp) and prop_equivalent(impl, sp, repo) is False:
            w = getattr(prop_equivalent, "witness", {})
            return "violation", f"computes  {show(impl)}  but the property requires  {show(sp)}  (they differ when {w})"
        off = one_atom_off(impl, sp, repo)
        if off is not None:
            return "violation", f"tests  {show(off[0])[:200]}  where the property requires  {show(off[1])[:200]}  (every other condition agrees)"
    return "unknown", ""


def one_atom_off(impl, spec, repo=None) -> Optional[Tuple[object, object]]:
    """The implementation and the specification are the same boolean function of the same conditions except that ONE
    condition of the specification (B) appears in the implementation as a point change of it (A): returns (A, B).
    This is the 'restructured code with one wrong condition' case; None when that is not what separates the two."""
    xa: list = []
    xb: list = []
    _atoms(impl, xa)
    _atoms(spec, xb)
    only_a = [x for x in xa if x not in xb]
    only_b = [x for x in xb if x not in xa]
    if len(only_a) != 1 or len(only_b) != 1:
        return None
    A, B = only_a[0], only_b[0]
    if has_unrecognised(A) or has_unrecognised(B):
        return None
    if edit_distance(A, B, 1) != 1:
        return None
    if prop_equivalent(impl, spec, repo, alias=(B, A)) is True:
        return A, B
    return None
