"""E7 – polynomial / affine abstract interpreter and the dihedral group D4.

Expressions are evaluated in the ring of integer polynomials over symbols (n, I, V, X, Y,
...).  A symmetry operation of a permutation is recovered as a *point map*
(I, V) -> (A, B): the point at position I with value V moves to position A, value B.
Mesh-pattern operations additionally give a *cell map* (X, Y) -> (A, B).  Maps are
compared and composed by polynomial normalisation – identities in n, hence for every size.
"""

from __future__ import annotations

import ast
from typing import Callable, Dict, List, Optional, Sequence, Tuple

from .core import AnalysisError, FuncInfo, Repo, attr_chain, call_name, const_value, is_const, unparse

Mono = Tuple[str, ...]


class Poly:
    __slots__ = ("terms",)

    def __init__(self, terms: Optional[Dict[Mono, int]] = None):
        self.terms: Dict[Mono, int] = {m: c for m, c in (terms or {}).items() if c != 0}

    @staticmethod
    def const(c: int) -> "Poly":
        return Poly({(): c})

    @staticmethod
    def sym(name: str) -> "Poly":
        return Poly({(name,): 1})

    def __add__(self, o: "Poly") -> "Poly":
        t = dict(self.terms)
        for m, c in o.terms.items():
            t[m] = t.get(m, 0) + c
        return Poly(t)

    def __neg__(self) -> "Poly":
        return Poly({m: -c for m, c in self.terms.items()})

    def __sub__(self, o: "Poly") -> "Poly":
        return self + (-o)

    def __mul__(self, o: "Poly") -> "Poly":
        t: Dict[Mono, int] = {}
        for m1, c1 in self.terms.items():
            for m2, c2 in o.terms.items():
                m = tuple(sorted(m1 + m2))
                t[m] = t.get(m, 0) + c1 * c2
        return Poly(t)

    def __eq__(self, o: object) -> bool:
        return isinstance(o, Poly) and self.terms == o.terms

    def __hash__(self) -> int:
        return hash(tuple(sorted(self.terms.items())))

    def subst(self, env: Dict[str, "Poly"]) -> "Poly":
        out = Poly()
        for m, c in self.terms.items():
            term = Poly.const(c)
            for s in m:
                term = term * env.get(s, Poly.sym(s))
            out = out + term
        return out

    def symbols(self) -> set:
        return {s for m in self.terms for s in m}

    def coef(self, *mono: str) -> int:
        return self.terms.get(tuple(sorted(mono)), 0)

    def is_const(self) -> bool:
        return all(m == () for m in self.terms)

    def __repr__(self) -> str:
        if not self.terms:
            return "0"
        parts = []
        for m, c in sorted(self.terms.items(), key=lambda kv: (len(kv[0]), kv[0])):
            name = "*".join(m)
            if not m:
                parts.append(f"{c:+d}")
            elif c == 1:
                parts.append(f"+{name}")
            elif c == -1:
                parts.append(f"-{name}")
            else:
                parts.append(f"{c:+d}*{name}")
        s = "".join(parts)
        return s[1:] if s.startswith("+") else s


N = Poly.sym("n")
ONE = Poly.const(1)


class NotAffine(Exception):
    pass


def poly_of(node: ast.AST, env: Dict[str, Poly], len_names: Sequence[str] = ("self", "self.pattern")) -> Poly:
    """Evaluate an integer expression to a polynomial.  ``len(self)`` / ``len(self.pattern)`` -> n."""
    if isinstance(node, ast.Constant) and isinstance(node.value, int) and not isinstance(node.value, bool):
        return Poly.const(node.value)
    if isinstance(node, ast.Name):
        if node.id in env:
            return env[node.id]
        raise NotAffine(f"unknown name {node.id}")
    if isinstance(node, ast.UnaryOp) and isinstance(node.op, ast.USub):
        return -poly_of(node.operand, env, len_names)
    if isinstance(node, ast.BinOp):
        a, b = poly_of(node.left, env, len_names), poly_of(node.right, env, len_names)
        if isinstance(node.op, ast.Add):
            return a + b
        if isinstance(node.op, ast.Sub):
            return a - b
        if isinstance(node.op, ast.Mult):
            return a * b
        raise NotAffine(f"operator {type(node.op).__name__}")
    if isinstance(node, ast.Call) and call_name(node) == ("len",) and len(node.args) == 1 and unparse(node.args[0]) in len_names:
        return N
    if isinstance(node, ast.Subscript):
        key = unparse(node)
        if key in env:
            return env[key]
    raise NotAffine(f"expression {unparse(node)}")


# ----------------------------------------------------------------------------- maps


class Map2:
    """(P, Q) -> (a, b) with a, b polynomials in P, Q, n."""

    def __init__(self, a: Poly, b: Poly, p: str = "I", q: str = "V"):
        self.a, self.b, self.p, self.q = a, b, p, q

    def then(self, other: "Map2") -> "Map2":
        """self followed by other (other applied to the image of self)."""
        env = {other.p: self.a, other.q: self.b}
        return Map2(other.a.subst(env), other.b.subst(env), self.p, self.q)

    def __eq__(self, o: object) -> bool:
        return isinstance(o, Map2) and self.a == o.a and self.b == o.b

    def __hash__(self) -> int:
        return hash((self.a, self.b))

    def rename(self, p: str, q: str) -> "Map2":
        env = {self.p: Poly.sym(p), self.q: Poly.sym(q)}
        return Map2(self.a.subst(env), self.b.subst(env), p, q)

    def __repr__(self) -> str:
        return f"({self.p},{self.q})->({self.a!r}, {self.b!r})"


I, V, X, Y = Poly.sym("I"), Poly.sym("V"), Poly.sym("X"), Poly.sym("Y")
NM1 = N - ONE

# point maps of the eight symmetries with the library's conventions (rotate(1) = clockwise quarter turn)
D4_POINT: Dict[str, Map2] = {
    "id": Map2(I, V),
    "r1": Map2(V, NM1 - I),
    "r2": Map2(NM1 - I, NM1 - V),
    "r3": Map2(NM1 - V, I),
    "inverse": Map2(V, I),
    "reverse": Map2(NM1 - I, V),
    "complement": Map2(I, NM1 - V),
    "antidiagonal": Map2(NM1 - V, NM1 - I),
}


def name_of_point_map(m: Map2) -> Optional[str]:
    for k, v in D4_POINT.items():
        if v == m:
            return k
    return None


def induced_cell_map(m: Map2) -> Map2:
    """Cell c is the open strip between points c-1 and c: a coordinate t -> t induces c -> c,
    t -> n-1-t induces c -> n-c; swapped coordinates swap."""
    def conv(p: Poly) -> Poly:
        ci, cv, cn, c0 = p.coef("I"), p.coef("V"), p.coef("n"), p.coef()
        if (ci, cv) == (1, 0) and (cn, c0) == (0, 0):
            return X
        if (ci, cv) == (0, 1) and (cn, c0) == (0, 0):
            return Y
        if (ci, cv) == (-1, 0) and (cn, c0) == (1, -1):
            return N - X
        if (ci, cv) == (0, -1) and (cn, c0) == (1, -1):
            return N - Y
        raise AnalysisError(f"point-map component {p!r} is not a signed coordinate with offset 0 or n-1")

    return Map2(conv(m.a), conv(m.b), "X", "Y")


def is_grid_bijection(m: Map2) -> bool:
    """A signed coordinate permutation with offsets in {0, n-1}: maps the n x n grid onto itself."""
    try:
        induced_cell_map(m)
    except AnalysisError:
        return False
    used = []
    for p in (m.a, m.b):
        used.append("I" if p.coef("I") != 0 else "V")
    return sorted(used) == ["I", "V"]


# ----------------------------------------------------------------------------- path walker


class PathResult:
    def __init__(self) -> None:
        self.point: Optional[Map2] = None
        self.cell: Optional[Map2] = None
        self.delegate: Optional[Tuple[str, Tuple[int, ...]]] = None  # perm op applied to self.pattern (mesh) / self (perm)
        self.ret: Optional[ast.AST] = None
        self.kind: str = ""


def eval_test(node: ast.AST, consts: Dict[str, int]) -> Optional[bool]:
    """Evaluate ``name == k`` style tests under known integer constants."""
    if isinstance(node, ast.Compare) and len(node.ops) == 1:
        try:
            l = consts[node.left.id] if isinstance(node.left, ast.Name) and node.left.id in consts else const_value(node.left)
            r = consts[node.comparators[0].id] if isinstance(node.comparators[0], ast.Name) and node.comparators[0].id in consts else const_value(node.comparators[0])
        except (ValueError, AttributeError):
            return None
        op = node.ops[0]
        if isinstance(op, ast.Eq):
            return l == r
        if isinstance(op, ast.NotEq):
            return l != r
        if isinstance(op, ast.Lt):
            return l < r
        if isinstance(op, ast.LtE):
            return l <= r
        if isinstance(op, ast.Gt):
            return l > r
        if isinstance(op, ast.GtE):
            return l >= r
        if isinstance(op, ast.In) and isinstance(node.comparators[0], (ast.Tuple, ast.List, ast.Set)):
            try:
                return l in [const_value(e) for e in node.comparators[0].elts]
            except ValueError:
                return None
    if isinstance(node, ast.UnaryOp) and isinstance(node.op, ast.Not):
        v = eval_test(node.operand, consts)
        return None if v is None else not v
    if isinstance(node, ast.Name) and node.id in consts:
        return bool(consts[node.id])
    return None


def linear_path(fi: FuncInfo, consts: Dict[str, int]) -> List[ast.stmt]:
    """Statements executed when the integer parameters have the values in ``consts`` (branches on
    them are resolved; any other branch makes the extraction undecidable)."""
    out: List[ast.stmt] = []
    consts = dict(consts)

    def walk(stmts: Sequence[ast.stmt]) -> bool:
        for st in stmts:
            if isinstance(st, ast.If):
                v = eval_test(st.test, consts)
                if v is None:
                    # a branch that neither returns nor rebinds a local cannot change the constructed permutation
                    # (e.g. it only copies a cache attribute): it is passed through and skipped by the extractor
                    nodes = [n for b in (st.body, st.orelse) for s2 in b for n in ast.walk(s2)]
                    comp_bound = {id(t) for n in nodes if isinstance(n, ast.comprehension) for t in ast.walk(n.target)}
                    harmless = not any(isinstance(n, (ast.Return, ast.Yield, ast.YieldFrom, ast.Raise, ast.Break, ast.Continue)) for n in nodes) \
                        and not any(isinstance(n, ast.Name) and isinstance(n.ctx, ast.Store) and id(n) not in comp_bound for n in nodes) \
                        and not any(isinstance(n, ast.Subscript) and isinstance(n.ctx, ast.Store) for n in nodes)
                    if harmless:
                        continue
                    raise AnalysisError(f"{fi.where}: branch `{unparse(st.test)}` cannot be resolved for {consts}")
                if walk(st.body if v else st.orelse):
                    return True
                continue
            if isinstance(st, ast.Assign) and len(st.targets) == 1 and isinstance(st.targets[0], ast.Name) and st.targets[0].id not in consts \
                    and any(isinstance(n, ast.Name) and n.id in consts for n in ast.walk(st.value)) and fold_int(st.value, consts) is not None:
                # a new local computed from the known integers only:  quarter_turns = times % 4
                consts[st.targets[0].id] = fold_int(st.value, consts)
                out.append(st)
                continue
            if isinstance(st, ast.Assign) and len(st.targets) == 1 and isinstance(st.targets[0], ast.Name) and st.targets[0].id in consts:
                # re-normalisation of a known integer:  times = times % 4
                val = fold_int(st.value, consts)
                if val is None:
                    raise AnalysisError(f"{fi.where}: cannot fold `{unparse(st)}`")
                consts[st.targets[0].id] = val
                out.append(st)
                continue
            out.append(st)
            if isinstance(st, (ast.Return, ast.Raise)):
                return True
        return False

    walk(fi.body)
    return out


def fold_int(node: ast.AST, consts: Dict[str, int]) -> Optional[int]:
    if isinstance(node, ast.Constant) and isinstance(node.value, int):
        return node.value
    if isinstance(node, ast.Name) and node.id in consts:
        return consts[node.id]
    if isinstance(node, ast.UnaryOp) and isinstance(node.op, ast.USub):
        v = fold_int(node.operand, consts)
        return None if v is None else -v
    if isinstance(node, ast.BinOp):
        a, b = fold_int(node.left, consts), fold_int(node.right, consts)
        if a is None or b is None:
            return None
        if isinstance(node.op, ast.Add):
            return a + b
        if isinstance(node.op, ast.Sub):
            return a - b
        if isinstance(node.op, ast.Mult):
            return a * b
        if isinstance(node.op, ast.Mod) and b != 0:
            return a % b
        if isinstance(node.op, ast.FloorDiv) and b != 0:
            return a // b
    if isinstance(node, ast.Call) and call_name(node) == ("abs",) and len(node.args) == 1:
        v = fold_int(node.args[0], consts)
        return None if v is None else abs(v)
    if isinstance(node, ast.IfExp):
        t = eval_test(node.test, consts)
        return None if t is None else fold_int(node.body if t else node.orelse, consts)
    return None


# ----------------------------------------------------------------------------- permutation constructions


class PermOps:
    """Extracts point maps of Perm methods (memoised per (method, residue))."""

    def __init__(self, repo: Repo):
        self.repo = repo
        self.cache: Dict[Tuple[str, Tuple[Tuple[str, int], ...]], Map2] = {}

    def point_map(self, mname: str, consts: Optional[Dict[str, int]] = None, depth: int = 0) -> Map2:
        consts = consts or {}
        key = (mname, tuple(sorted(consts.items())))
        if key in self.cache:
            return self.cache[key]
        if depth > 4:
            raise AnalysisError(f"Perm.{mname}: delegation too deep")
        fi = self.repo.need_method("Perm", mname)
        m = self._extract(fi, consts, depth)
        self.cache[key] = m
        return m

    def _extract(self, fi: FuncInfo, consts: Dict[str, int], depth: int) -> Map2:
        self_n = fi.params[0]
        path = linear_path(fi, consts)
        env: Dict[str, Poly] = {}
        arrays: Dict[str, Optional[Map2]] = {}
        perm_locals: Dict[str, Map2] = {}
        for st in path:
            if isinstance(st, ast.Assign) and len(st.targets) == 1 and isinstance(st.targets[0], ast.Name):
                name = st.targets[0].id
                if name in consts:
                    continue
                vnames = {n.id for n in ast.walk(st.value) if isinstance(n, ast.Name)}
                if vnames and vnames <= set(consts) and fold_int(st.value, consts) is not None:
                    consts = dict(consts)
                    consts[name] = fold_int(st.value, consts)
                    continue
                # result = [0] * n
                if isinstance(st.value, ast.BinOp) and isinstance(st.value.op, ast.Mult) and isinstance(st.value.left, ast.List):
                    arrays[name] = None
                    continue
                try:
                    env[name] = poly_of(st.value, env, (self_n,))
                except NotAffine as exc:
                    # a local holding the constructed permutation:  result = Perm(...)
                    try:
                        perm_locals[name] = self._ret(fi, st.value, env, arrays, self_n, consts, depth)
                    except AnalysisError:
                        raise AnalysisError(f"{fi.where}: `{unparse(st)[:70]}` is neither an affine integer expression nor a permutation built from self ({exc})")
                continue
            if isinstance(st, ast.For):
                arr, mp = self._loop(fi, st, env, self_n)
                if arr not in arrays:
                    raise AnalysisError(f"{fi.where}: loop stores into unknown array {arr}")
                arrays[arr] = mp
                continue
            if isinstance(st, ast.Return):
                if isinstance(st.value, ast.Name) and st.value.id in perm_locals:
                    return perm_locals[st.value.id]
                return self._ret(fi, st.value, env, arrays, self_n, consts, depth)
            if isinstance(st, ast.Expr) and isinstance(st.value, ast.Constant):
                continue
            if isinstance(st, ast.Assign) and all(isinstance(t, ast.Attribute) for t in st.targets):
                continue  # attribute store (e.g. copying a cache onto the result): no effect on the point set
            raise AnalysisError(f"{fi.where}: statement `{unparse(st)[:60]}` is outside the recognised permutation constructions")
        raise AnalysisError(f"{fi.where}: no return reached for {consts}")

    def _pairs(self, fi: FuncInfo, it: ast.AST, target: ast.AST, env: Dict[str, Poly], self_n: str) -> Tuple[str, str, Dict[str, Poly]]:
        """Bind the loop target (idx, val) for an iteration over point pairs; returns the two names and env."""
        if not (isinstance(target, ast.Tuple) and len(target.elts) == 2 and all(isinstance(e, ast.Name) for e in target.elts)):
            raise AnalysisError(f"{fi.where}: loop target {unparse(target)} is not (idx, val)")
        a, b = target.elts[0].id, target.elts[1].id
        new = dict(env)
        if isinstance(it, ast.Call) and call_name(it) == ("enumerate",) and len(it.args) == 1 and unparse(it.args[0]) == self_n:
            new[a], new[b] = I, V
            return a, b, new
        if isinstance(it, ast.Call) and call_name(it) == ("enumerate",) and len(it.args) == 1 and unparse(it.args[0]) == f"reversed({self_n})":
            new[a], new[b] = I, V  # position in the reversed sequence
            raise AnalysisError(f"{fi.where}: enumerate(reversed(self)) not supported")
        if isinstance(it, ast.GeneratorExp) and len(it.generators) == 1 and not it.generators[0].ifs and isinstance(it.elt, ast.Tuple) and len(it.elt.elts) == 2:
            g = it.generators[0]
            _a2, _b2, inner = self._pairs(fi, g.iter, g.target, env, self_n)
            try:
                new[a] = poly_of(it.elt.elts[0], inner, (self_n,))
                new[b] = poly_of(it.elt.elts[1], inner, (self_n,))
            except NotAffine as exc:
                raise AnalysisError(f"{fi.where}: pair generator is not affine ({exc})")
            return a, b, new
        raise AnalysisError(f"{fi.where}: iteration over `{unparse(it)[:60]}` is not an enumeration of the points of self")

    def _loop(self, fi: FuncInfo, st: ast.For, env: Dict[str, Poly], self_n: str) -> Tuple[str, Map2]:
        _a, _b, inner = self._pairs(fi, st.iter, st.target, env, self_n)
        if len(st.body) != 1 or not isinstance(st.body[0], ast.Assign) or not isinstance(st.body[0].targets[0], ast.Subscript):
            raise AnalysisError(f"{fi.where}: loop body is not `result[A] = B`")
        tgt = st.body[0].targets[0]
        if not isinstance(tgt.value, ast.Name):
            raise AnalysisError(f"{fi.where}: store target")
        try:
            a = poly_of(tgt.slice, inner, (self_n,))
            b = poly_of(st.body[0].value, inner, (self_n,))
        except NotAffine as exc:
            raise AnalysisError(f"{fi.where}: `{unparse(st.body[0])}` is not affine ({exc})")
        return tgt.value.id, Map2(a, b)

    def _ret(self, fi: FuncInfo, val: ast.AST, env: Dict[str, Poly], arrays: Dict[str, Optional[Map2]], self_n: str, consts: Dict[str, int], depth: int) -> Map2:
        if isinstance(val, ast.Name) and val.id == self_n:
            return D4_POINT["id"]
        if isinstance(val, ast.Call):
            cn = call_name(val)
            # self.other(k)
            if cn and len(cn) == 2 and cn[0] == self_n:
                return self.call_map(fi, val, consts, depth)
            if cn == ("Perm",) or cn == ("cls",) or (cn and cn[-1] == "Perm"):
                if len(val.args) != 1:
                    raise AnalysisError(f"{fi.where}: Perm(...) with {len(val.args)} arguments")
                arg = val.args[0]
                if isinstance(arg, ast.Name) and arg.id in arrays:
                    mp = arrays[arg.id]
                    if mp is None:
                        raise AnalysisError(f"{fi.where}: array {arg.id} is returned without being filled")
                    return mp
                if isinstance(arg, ast.Call) and call_name(arg) == ("reversed",) and unparse(arg.args[0]) == self_n:
                    return D4_POINT["reverse"]
                if isinstance(arg, ast.Subscript) and unparse(arg) == f"{self_n}[::-1]":
                    return D4_POINT["reverse"]
                if isinstance(arg, (ast.GeneratorExp, ast.ListComp)) and len(arg.generators) == 1 and not arg.generators[0].ifs:
                    g = arg.generators[0]
                    if not isinstance(g.target, ast.Name):
                        raise AnalysisError(f"{fi.where}: element generator target")
                    inner = dict(env)
                    inner[g.target.id] = V
                    try:
                        b = poly_of(arg.elt, inner, (self_n,))
                    except NotAffine as exc:
                        raise AnalysisError(f"{fi.where}: element map is not affine ({exc})")
                    src = unparse(g.iter)
                    if src == self_n:
                        return Map2(I, b)
                    if src == f"reversed({self_n})":
                        return Map2(NM1 - I, b)
                    raise AnalysisError(f"{fi.where}: elements are taken from `{src}`")
        raise AnalysisError(f"{fi.where}: returned value `{unparse(val)[:60]}` is not a recognised construction of a permutation from self")

    def call_map(self, fi: FuncInfo, call: ast.Call, consts: Dict[str, int], depth: int = 0) -> Map2:
        """Point map of ``x.method(args)`` for a Perm method with constant integer arguments."""
        if not isinstance(call.func, ast.Attribute):
            raise AnalysisError(f"{fi.where}: `{unparse(call)[:50]}` is not a method call")
        mname = call.func.attr
        target = self.repo.need_method("Perm", mname)
        sub: Dict[str, int] = {}
        params = target.params[1:]
        defaults = target.node.args.defaults
        dmap = {}
        for p, d in zip(params[len(params) - len(defaults):], defaults):
            try:
                dmap[p] = const_value(d)
            except ValueError:
                pass
        for i, a in enumerate(call.args):
            v = fold_int(a, consts)
            if v is None:
                raise AnalysisError(f"{fi.where}: argument `{unparse(a)}` of {mname} is not a known integer")
            sub[params[i]] = v
        for kw in call.keywords:
            v = fold_int(kw.value, consts)
            if v is None:
                raise AnalysisError(f"{fi.where}: keyword argument of {mname} is not a known integer")
            sub[kw.arg] = v
        for p in params:
            if p not in sub and p in dmap and isinstance(dmap[p], int):
                sub[p] = dmap[p]
        return self.point_map(target.name, sub, depth + 1)


class MeshOps:
    """Extracts (pattern point map, cell map) of MeshPatt symmetry methods."""

    def __init__(self, repo: Repo, perm_ops: PermOps):
        self.repo = repo
        self.perm_ops = perm_ops

    def maps(self, mname: str, consts: Optional[Dict[str, int]] = None) -> Tuple[Map2, Map2]:
        consts = consts or {}
        fi = self.repo.need_method("MeshPatt", mname)
        self_n = fi.params[0]
        path = linear_path(fi, consts)
        env: Dict[str, Poly] = {}
        perm_locals: Dict[str, Map2] = {}
        live_consts = dict(consts)
        for st in path:
            if isinstance(st, ast.Assign) and len(st.targets) == 1:
                tgt, val = st.targets[0], st.value
                pairs = []
                if isinstance(tgt, ast.Tuple) and isinstance(val, ast.Tuple) and len(tgt.elts) == len(val.elts):
                    pairs = list(zip(tgt.elts, val.elts))
                elif isinstance(tgt, ast.Name):
                    pairs = [(tgt, val)]
                else:
                    raise AnalysisError(f"{fi.where}: assignment `{unparse(st)[:60]}` not recognised")
                for t, v in pairs:
                    if not isinstance(t, ast.Name):
                        raise AnalysisError(f"{fi.where}: assignment target {unparse(t)}")
                    if t.id in live_consts:
                        folded = fold_int(v, live_consts)
                        if folded is None:
                            raise AnalysisError(f"{fi.where}: cannot fold `{unparse(st)}`")
                        live_consts[t.id] = folded
                        continue
                    pm = self._pattern_op(fi, v, self_n, live_consts)
                    if pm is not None:
                        perm_locals[t.id] = pm
                        continue
                    try:
                        env[t.id] = poly_of(v, env, (self_n, f"{self_n}.pattern"))
                    except NotAffine as exc:
                        raise AnalysisError(f"{fi.where}: `{unparse(st)[:60]}` is not affine ({exc})")
                continue
            if isinstance(st, ast.Return):
                val = st.value
                if isinstance(val, ast.Name) and val.id == self_n:
                    return D4_POINT["id"], Map2(X, Y, "X", "Y")
                if isinstance(val, ast.Call) and call_name(val) in (("MeshPatt",), ("cls",), ("type(self)",)) and len(val.args) == 2:
                    parg, sarg = val.args
                    if isinstance(parg, ast.Name) and parg.id in perm_locals:
                        pm = perm_locals[parg.id]
                    else:
                        pm = self._pattern_op(fi, parg, self_n, live_consts)
                        if pm is None:
                            raise AnalysisError(f"{fi.where}: underlying pattern `{unparse(parg)}` is not a symmetry of self.pattern")
                    cm = self._cell_gen(fi, sarg, env, self_n)
                    return pm, cm
                raise AnalysisError(f"{fi.where}: returned value `{unparse(val)[:60]}` not recognised")
            if isinstance(st, ast.Expr) and isinstance(st.value, ast.Constant):
                continue
            raise AnalysisError(f"{fi.where}: statement `{unparse(st)[:60]}` outside the recognised constructions")
        raise AnalysisError(f"{fi.where}: no return reached for {consts}")

    def _pattern_op(self, fi: FuncInfo, node: ast.AST, self_n: str, consts: Dict[str, int]) -> Optional[Map2]:
        if isinstance(node, ast.Call):
            cn = call_name(node)
            if cn and len(cn) == 3 and cn[0] == self_n and cn[1] == "pattern":
                return self.perm_ops.call_map(fi, node, consts)
        if unparse(node) == f"{self_n}.pattern":
            return D4_POINT["id"]
        return None

    def _cell_gen(self, fi: FuncInfo, node: ast.AST, env: Dict[str, Poly], self_n: str) -> Map2:
        if unparse(node) == f"{self_n}.shading":
            return Map2(X, Y, "X", "Y")
        if isinstance(node, (ast.GeneratorExp, ast.ListComp, ast.SetComp)) and len(node.generators) == 1:
            g = node.generators[0]
            if g.ifs:
                raise AnalysisError(f"{fi.where}: shaded cells are filtered")
            if unparse(g.iter) != f"{self_n}.shading":
                raise AnalysisError(f"{fi.where}: cells are taken from `{unparse(g.iter)}`, not from self.shading")
            if not (isinstance(g.target, ast.Tuple) and len(g.target.elts) == 2 and all(isinstance(e, ast.Name) for e in g.target.elts)):
                raise AnalysisError(f"{fi.where}: cell target {unparse(g.target)}")
            inner = dict(env)
            inner[g.target.elts[0].id], inner[g.target.elts[1].id] = X, Y
            if not (isinstance(node.elt, ast.Tuple) and len(node.elt.elts) == 2):
                raise AnalysisError(f"{fi.where}: generated cell {unparse(node.elt)}")
            try:
                return Map2(poly_of(node.elt.elts[0], inner, (self_n, f"{self_n}.pattern")), poly_of(node.elt.elts[1], inner, (self_n, f"{self_n}.pattern")), "X", "Y")
            except NotAffine as exc:
                raise AnalysisError(f"{fi.where}: cell map is not affine ({exc})")
        if isinstance(node, ast.Call) and call_name(node) in (("frozenset",), ("set",), ("list",), ("tuple",)) and len(node.args) == 1:
            return self._cell_gen(fi, node.args[0], env, self_n)
        raise AnalysisError(f"{fi.where}: shading argument `{unparse(node)[:60]}` not recognised")
