"""Thorough tier: seeded must-fire / must-stay-silent variants on scratch copies.

Every variant is an edit *computed on the syntax tree of the current source* (never a
text patch, never a line number), written with ``ast.unparse`` into a scratch copy of
``permuta/`` under a ``tempfile.mkdtemp()`` directory (outside /repo and /verif) that is
removed afterwards.  A rule that does not fire on a must-fire variant, or fires on a
must-stay-silent one, makes the run exit 2 (``ANALYSIS-ERROR self-test``): the checker is
broken, which is not the same as the property being violated.
"""

from __future__ import annotations

import ast
import copy
import multiprocessing as mp
import os
import random
import shutil
import tempfile
import textwrap
from pathlib import Path
from typing import Any, Callable, Dict, List, Optional, Tuple

from .core import AnalysisError, Repo, repo_root, strip_doc


class Skip(Exception):
    """The anchor of a variant no longer exists in the current tree."""


class Variant:
    def __init__(self, name: str, edits: List[Tuple[str, Callable[[ast.Module], None]]], expect: str, rule: str = "", note: str = ""):
        self.name = name
        self.edits = edits
        self.expect = expect  # 'fire' | 'silent' | 'undecided' (exit 2 expected) | 'fire-or-undecided'
        self.rule = rule
        self.note = note


# ----------------------------------------------------------------------------- AST edit DSL


def _norm_src(src: str, mode: str) -> str:
    src = textwrap.dedent(src).strip()
    if mode == "expr":
        return ast.unparse(ast.parse(src, mode="eval").body)
    return ast.unparse(ast.parse(src).body[0])


def find_scope(tree: ast.Module, qual: Optional[str]) -> ast.AST:
    if not qual:
        return tree
    node: ast.AST = tree
    for part in qual.split("."):
        found = None
        for sub in ast.walk(node):
            if isinstance(sub, (ast.FunctionDef, ast.ClassDef)) and sub.name == part and sub is not node:
                found = sub
                break
        if found is None:
            raise Skip(f"scope {qual} not found")
        node = found
    return node


class _ReplaceExpr(ast.NodeTransformer):
    def __init__(self, old: str, new: ast.AST, which: Optional[int]):
        self.old, self.new, self.which = old, new, which
        self.count = 0

    def visit(self, node: ast.AST):
        if isinstance(node, ast.expr):
            try:
                txt = ast.unparse(node)
            except Exception:  # pylint: disable=broad-except
                txt = None
            if txt == self.old:
                self.count += 1
                if self.which is None or self.which == self.count:
                    return copy.deepcopy(self.new)
                return node
        return self.generic_visit(node)


def replace_expr(relpath: str, qual: Optional[str], old: str, new: str, which: Optional[int] = 1) -> Tuple[str, Callable[[ast.Module], None]]:
    """Replace the ``which``-th (default first; None = all) expression equal to ``old``
    inside scope ``qual`` by ``new``."""
    old_n = _norm_src(old, "expr")
    new_node = ast.parse(textwrap.dedent(new).strip(), mode="eval").body

    def edit(tree: ast.Module) -> None:
        scope = find_scope(tree, qual)
        tr = _ReplaceExpr(old_n, new_node, which)
        for field, value in ast.iter_fields(scope):
            if isinstance(value, list):
                setattr(scope, field, [tr.visit(v) if isinstance(v, ast.AST) else v for v in value])
            elif isinstance(value, ast.AST):
                setattr(scope, field, tr.visit(value))
        if tr.count == 0 or (which is not None and tr.count < which):
            raise Skip(f"expression `{old_n}` not found in {qual or relpath}")

    return relpath, edit


def _stmt_lists(scope: ast.AST):
    for node in ast.walk(scope):
        for field in ("body", "orelse", "finalbody"):
            lst = getattr(node, field, None)
            if isinstance(lst, list) and lst and isinstance(lst[0], ast.stmt):
                yield lst
        if isinstance(node, ast.Try):
            for h in node.handlers:
                yield h.body


def _stmt_matches(st: ast.stmt, old_n: str) -> bool:
    try:
        txt = ast.unparse(st)
    except Exception:  # pylint: disable=broad-except
        return False
    if txt == old_n:
        return True
    if isinstance(st, ast.FunctionDef) and old_n.startswith("def ") and old_n.endswith("..."):
        return old_n.split("(")[0] == f"def {st.name}"
    # compound statements: match on the header line only
    return isinstance(st, (ast.If, ast.For, ast.While, ast.With, ast.FunctionDef, ast.ClassDef, ast.Try)) and txt.split("\n")[0] == old_n.split("\n")[0] and old_n.endswith("...")


def replace_stmt(relpath: str, qual: Optional[str], old: str, new: str) -> Tuple[str, Callable[[ast.Module], None]]:
    """Replace the first statement equal to ``old`` (``'if x: ...'`` matches a compound
    statement by its header) by the statement(s) ``new`` ('' deletes it)."""
    old_src = textwrap.dedent(old).strip()
    header_only = old_src.endswith("...")
    old_n = ast.unparse(ast.parse(old_src).body[0]) if not header_only else ast.unparse(ast.parse(old_src).body[0]).split("\n")[0] + "\n..."
    new_nodes = ast.parse(textwrap.dedent(new).strip()).body if new.strip() else []

    def edit(tree: ast.Module) -> None:
        scope = find_scope(tree, qual)
        for lst in _stmt_lists(scope):
            for i, st in enumerate(lst):
                if _stmt_matches(st, old_n):
                    repl = copy.deepcopy(new_nodes)
                    lst[i : i + 1] = repl if repl or len(lst) > 1 else [ast.Pass()]
                    return
        raise Skip(f"statement `{old_n[:60]}` not found in {qual or relpath}")

    return relpath, edit


def insert_stmt(relpath: str, qual: Optional[str], anchor: str, new: str, where: str = "before") -> Tuple[str, Callable[[ast.Module], None]]:
    anchor_src = textwrap.dedent(anchor).strip()
    header_only = anchor_src.endswith("...")
    anchor_n = ast.unparse(ast.parse(anchor_src).body[0]) if not header_only else ast.unparse(ast.parse(anchor_src).body[0]).split("\n")[0] + "\n..."
    new_nodes = ast.parse(textwrap.dedent(new).strip()).body

    def edit(tree: ast.Module) -> None:
        scope = find_scope(tree, qual)
        for lst in _stmt_lists(scope):
            for i, st in enumerate(lst):
                if _stmt_matches(st, anchor_n):
                    pos = i if where == "before" else i + 1
                    lst[pos:pos] = copy.deepcopy(new_nodes)
                    return
        raise Skip(f"anchor `{anchor_n[:60]}` not found in {qual or relpath}")

    return relpath, edit


def remove_def(relpath: str, qual: str) -> Tuple[str, Callable[[ast.Module], None]]:
    """Delete the function/method ``qual`` (``Class.method``)."""
    parent_q, _, name = qual.rpartition(".")

    def edit(tree: ast.Module) -> None:
        scope = find_scope(tree, parent_q or None)
        body = scope.body  # type: ignore[attr-defined]
        for i, st in enumerate(body):
            if isinstance(st, ast.FunctionDef) and st.name == name:
                del body[i]
                if not body:
                    body.append(ast.Pass())
                return
        raise Skip(f"def {qual} not found")

    return relpath, edit


def unwrap_with(relpath: str, qual: str, header: str) -> Tuple[str, Callable[[ast.Module], None]]:
    """Replace ``with <header>: body`` by ``body``."""
    hdr = ast.unparse(ast.parse(textwrap.dedent(header).strip() + "\n    pass").body[0]).split("\n")[0]

    def edit(tree: ast.Module) -> None:
        scope = find_scope(tree, qual)
        for lst in _stmt_lists(scope):
            for i, st in enumerate(lst):
                if isinstance(st, ast.With) and ast.unparse(st).split("\n")[0] == hdr:
                    lst[i : i + 1] = st.body
                    return
        raise Skip(f"with-statement `{hdr}` not found in {qual}")

    return relpath, edit


def custom(relpath: str, fn: Callable[[ast.Module], None]) -> Tuple[str, Callable[[ast.Module], None]]:
    return relpath, fn


def reformat_only(relpath: str) -> Tuple[str, Callable[[ast.Module], None]]:
    return relpath, lambda tree: None


def rename_local(relpath: str, qual: str, old: str, new: str) -> Tuple[str, Callable[[ast.Module], None]]:
    def edit(tree: ast.Module) -> None:
        scope = find_scope(tree, qual)
        hit = False
        for n in ast.walk(scope):
            if isinstance(n, ast.Name) and n.id == old:
                n.id = new
                hit = True
            elif isinstance(n, ast.arg) and n.arg == old:
                n.arg = new
                hit = True
        if not hit:
            raise Skip(f"local {old} not found in {qual}")

    return relpath, edit


def V(name: str, target, expect: str, rule: str = "", note: str = "") -> Variant:
    """``target`` is one (relpath, edit) pair or a list of them (applied in order)."""
    edits = target if isinstance(target, list) else [target]
    return Variant(name, edits, expect, rule, note)


def multi(*targets: Tuple[str, Callable[[ast.Module], None]]) -> List[Tuple[str, Callable[[ast.Module], None]]]:
    return list(targets)


# ----------------------------------------------------------------------------- running


def make_scratch(src_root: Path) -> Path:
    tmp = Path(tempfile.mkdtemp(prefix="permuta_sa_"))
    dst = tmp / "permuta"

    def ignore(_dir: str, names: List[str]) -> List[str]:
        return [n for n in names if n in ("__pycache__", "resources") or n.endswith(".pyc")]

    shutil.copytree(src_root / "permuta", dst, ignore=ignore)
    return tmp


def apply_variant(root: Path, var: Variant) -> None:
    for relpath, edit in var.edits:
        path = root / relpath
        if not path.exists():
            raise Skip(f"{relpath} does not exist")
        tree = ast.parse(path.read_text(encoding="utf-8"))
        edit(tree)
        ast.fix_missing_locations(tree)
        path.write_text(ast.unparse(tree) + "\n", encoding="utf-8")


def _run_one(args: Tuple[str, int]) -> Dict[str, Any]:
    prop, idx = args
    from .__main__ import evaluate, load_prop
    from .report import load_known

    mod = load_prop(prop)
    var: Variant = mod.variants()[idx]
    res: Dict[str, Any] = {"variant": var.name, "expect": var.expect, "rule": var.rule}
    tmp = None
    try:
        tmp = make_scratch(repo_root())
        try:
            apply_variant(tmp, var)
        except Skip as exc:
            res.update(outcome="skipped", detail=str(exc))
            return res
        try:
            ctx = evaluate(prop, tmp)
        except AnalysisError as exc:
            res.update(outcome="undecided", detail=str(exc)[:300])
            return res
        known, _ = load_known()
        new = [f for f in ctx.findings if f.key not in known]
        if new:
            res.update(outcome="fired", rules=sorted({f.rule for f in new}), detail="; ".join(f"{f.rule}@{f.where.split(':')[-1]}" for f in new)[:400])
        else:
            res.update(outcome="silent", detail="")
        return res
    except Exception as exc:  # pylint: disable=broad-except
        import traceback

        res.update(outcome="crash", detail=f"{type(exc).__name__}: {exc} :: {traceback.format_exc()[-400:]}")
        return res
    finally:
        if tmp is not None:
            shutil.rmtree(tmp, ignore_errors=True)


def judge(res: Dict[str, Any]) -> bool:
    out, exp = res["outcome"], res["expect"]
    if out == "skipped":
        return True
    if out == "crash":
        return False
    if exp == "silent":
        return out == "silent"
    if exp == "nofire":
        # behaviour-preserving rewrite: the check may fail to recognise the new shape (undecided) but must never accuse
        return out in ("silent", "undecided")
    if exp == "undecided":
        return out == "undecided"
    if exp == "fire-or-undecided":
        return out in ("fired", "undecided") and (out == "undecided" or not res["rule"] or any(r.startswith(res["rule"]) for r in res.get("rules", [])))
    if exp == "fire":
        return out == "fired" and (not res["rule"] or any(r.startswith(res["rule"]) for r in res.get("rules", [])))
    return False


def thorough(prop: str, mod, ctx, seed: int) -> Dict[str, Any]:
    extra: Dict[str, Any] = {}
    if hasattr(mod, "sweep"):
        extra.update(mod.sweep(ctx) or {})
    variants: List[Variant] = mod.variants() if hasattr(mod, "variants") else []
    order = list(range(len(variants)))
    random.Random(seed).shuffle(order)
    results: List[Dict[str, Any]] = []
    if order:
        jobs = min(16, len(order), os.cpu_count() or 4)
        with mp.get_context("fork").Pool(jobs) as pool:
            results = pool.map(_run_one, [(prop, i) for i in order], chunksize=1)
    bad = [r for r in results if not judge(r)]
    summary = {
        "variants": len(results),
        "must_fire": sum(1 for r in results if r["expect"] in ("fire", "fire-or-undecided")),
        "must_stay_silent": sum(1 for r in results if r["expect"] == "silent"),
        "must_be_undecided": sum(1 for r in results if r["expect"] == "undecided"),
        "skipped_anchor_missing": sum(1 for r in results if r["outcome"] == "skipped"),
        "as_expected": len(results) - len(bad),
        "results": results,
    }
    extra["selftest"] = summary
    for r in results:
        print(f"  selftest {r['variant']}: expect={r['expect']}{'/' + r['rule'] if r['rule'] else ''} -> {r['outcome']} {r.get('detail', '')[:110]}")
    if bad:
        raise AnalysisError("self-test: " + "; ".join(f"{r['variant']} expected {r['expect']} {r['rule']} got {r['outcome']} ({r.get('detail', '')[:120]})" for r in bad))
    return extra


# ----------------------------------------------------------------------------- generic benign rewrites


def _rename_all_locals(tree: ast.Module) -> None:
    """Suffix every function-local (non-parameter) variable with ``_r`` – a behaviour-preserving rewrite."""

    def process(fn: ast.AST) -> None:
        params = set()
        for n in ast.walk(fn):
            if isinstance(n, ast.arg):
                params.add(n.arg)
        declared = set()
        for n in ast.walk(fn):
            if isinstance(n, (ast.Global, ast.Nonlocal)):
                declared |= set(n.names)
        stores = set()
        for n in ast.walk(fn):
            if isinstance(n, ast.Name) and isinstance(n.ctx, (ast.Store, ast.Del)):
                stores.add(n.id)
        nested_defs = {n.name for n in ast.walk(fn) if isinstance(n, (ast.FunctionDef, ast.ClassDef)) and n is not fn}
        targets = {s for s in stores if s not in params and s not in declared and s not in nested_defs and not s.startswith("__") and s != "_"}
        for n in ast.walk(fn):
            if isinstance(n, ast.Name) and n.id in targets:
                n.id = n.id + "_r"

    for node in tree.body:
        if isinstance(node, ast.FunctionDef):
            process(node)
        elif isinstance(node, ast.ClassDef):
            for sub in node.body:
                if isinstance(sub, ast.FunctionDef):
                    process(sub)


def _reorder_methods(tree: ast.Module) -> None:
    """Move every method definition of every class to the end of the class body in reverse order
    (class-level assignments keep their relative order and stay before their uses)."""
    for node in tree.body:
        if isinstance(node, ast.ClassDef):
            defs = [s for s in node.body if isinstance(s, ast.FunctionDef)]
            names_used_by_assigns = set()
            for s in node.body:
                if not isinstance(s, ast.FunctionDef):
                    for n in ast.walk(s):
                        if isinstance(n, ast.Name):
                            names_used_by_assigns.add(n.id)
            if any(d.name in names_used_by_assigns for d in defs):
                # aliases like ``flip_horizontal = complement`` need their target defined first: keep
                # such classes in source order but still rotate the methods not referenced by assignments
                movable = [d for d in defs if d.name not in names_used_by_assigns]
            else:
                movable = defs
            rest = [s for s in node.body if s not in movable]
            node.body = rest + list(reversed(movable))


def _add_unrelated_code(tree: ast.Module) -> None:
    extra = ast.parse("def _unrelated_helper_for_selftest(value):\n    \"\"\"Does nothing of interest.\"\"\"\n    result = [value]\n    result.append(value)\n    return len(result)\n").body
    tree.body.extend(extra)
    for node in tree.body:
        if isinstance(node, ast.ClassDef):
            node.body.extend(ast.parse("def _unrelated_method_for_selftest(self):\n    return None\n").body)


def _add_logging(tree: ast.Module) -> None:
    """``logger.debug(..)`` as first statement of every function, and inside every loop body."""
    tree.body.insert(0, ast.parse("import logging").body[0])
    tree.body.insert(1, ast.parse("logger = logging.getLogger(__name__)").body[0])
    for node in ast.walk(tree):
        if isinstance(node, ast.FunctionDef):
            pos = 1 if node.body and isinstance(node.body[0], ast.Expr) and isinstance(node.body[0].value, ast.Constant) else 0
            node.body.insert(pos, ast.parse(f"logger.debug('enter {node.name}')").body[0])


def generic_silent(files: List[str]) -> List[Variant]:
    out = []
    for f in files:
        short = f.split("/")[-1][:-3]
        out.append(Variant(f"generic-rename-locals-{short}", [(f, _rename_all_locals)], "silent", note="every function-local variable renamed"))
        out.append(Variant(f"generic-reorder-methods-{short}", [(f, _reorder_methods)], "silent", note="methods reordered inside their classes"))
        out.append(Variant(f"generic-unrelated-code-{short}", [(f, _add_unrelated_code)], "silent", note="an unrelated function and method added"))
        out.append(Variant(f"generic-logging-{short}", [(f, _add_logging)], "silent", note="a logger.debug call added at the start of every function"))
    return out


# ----------------------------------------------------------------------------- generic equivalence rewrites (must never fire)


class _SwapComparisons(ast.NodeTransformer):
    """a == b -> b == a,  a != b -> b != a,  a < b -> b > a,  a <= b -> b >= a (and back); single-operator comparisons only."""

    FLIP = {ast.Eq: ast.Eq, ast.NotEq: ast.NotEq, ast.Lt: ast.Gt, ast.Gt: ast.Lt, ast.LtE: ast.GtE, ast.GtE: ast.LtE}

    def visit_Compare(self, node: ast.Compare):
        self.generic_visit(node)
        if len(node.ops) == 1 and type(node.ops[0]) in self.FLIP:
            return ast.Compare(left=node.comparators[0], ops=[self.FLIP[type(node.ops[0])]()], comparators=[node.left])
        return node


class _RangeZero(ast.NodeTransformer):
    def visit_Call(self, node: ast.Call):
        self.generic_visit(node)
        if isinstance(node.func, ast.Name) and node.func.id == "range" and len(node.args) == 1 and not node.keywords:
            node.args = [ast.Constant(value=0), node.args[0]]
        return node


class _IfExpFlip(ast.NodeTransformer):
    def visit_IfExp(self, node: ast.IfExp):
        self.generic_visit(node)
        return ast.IfExp(test=ast.UnaryOp(op=ast.Not(), operand=node.test), body=node.orelse, orelse=node.body)


class _IfElseFlip(ast.NodeTransformer):
    """if c: A else: B  ->  if not c: B else: A   (plain if/else only, no elif chains)"""

    def visit_If(self, node: ast.If):
        self.generic_visit(node)
        if node.orelse and not (len(node.orelse) == 1 and isinstance(node.orelse[0], ast.If)):
            return ast.If(test=ast.UnaryOp(op=ast.Not(), operand=node.test), body=node.orelse, orelse=node.body)
        return node


class _ChainSplit(ast.NodeTransformer):
    """a < b < c  ->  a < b and b < c  when the middle operand is a name or a constant (evaluated twice without effect)"""

    def visit_Compare(self, node: ast.Compare):
        self.generic_visit(node)
        if len(node.ops) == 2 and isinstance(node.comparators[0], (ast.Name, ast.Constant)):
            import copy

            mid = node.comparators[0]
            return ast.BoolOp(op=ast.And(), values=[ast.Compare(left=node.left, ops=[node.ops[0]], comparators=[mid]),
                                                    ast.Compare(left=copy.deepcopy(mid), ops=[node.ops[1]], comparators=[node.comparators[1]])])
        return node


class _AugConst(ast.NodeTransformer):
    """x += 1 -> x = x + 1  for a plain name and an integer constant"""

    def visit_AugAssign(self, node: ast.AugAssign):
        if isinstance(node.target, ast.Name) and isinstance(node.value, ast.Constant) and isinstance(node.value.value, int) and not isinstance(node.value.value, bool):
            return ast.Assign(targets=[ast.Name(id=node.target.id, ctx=ast.Store())], value=ast.BinOp(left=ast.Name(id=node.target.id, ctx=ast.Load()), op=node.op, right=node.value), lineno=node.lineno)
        return node


def _return_via_temp(tree: ast.Module) -> None:
    """return E  ->  _result = E; return _result   in functions that are not generators"""
    for fn in ast.walk(tree):
        if not isinstance(fn, ast.FunctionDef):
            continue
        own = []
        stack = list(fn.body)
        is_gen = False
        while stack:
            n = stack.pop()
            if isinstance(n, (ast.FunctionDef, ast.AsyncFunctionDef, ast.ClassDef, ast.Lambda)):
                continue
            if isinstance(n, (ast.Yield, ast.YieldFrom)):
                is_gen = True
            own.append(n)
            stack.extend(ast.iter_child_nodes(n))
        if is_gen:
            continue
        for holder in own:
            for field in ("body", "orelse", "finalbody"):
                lst = getattr(holder, field, None)
                if not isinstance(lst, list):
                    continue
                new = []
                for st in lst:
                    if isinstance(st, ast.Return) and st.value is not None and not isinstance(st.value, (ast.Constant, ast.Name)):
                        new.append(ast.Assign(targets=[ast.Name(id="_result", ctx=ast.Store())], value=st.value, lineno=st.lineno))
                        new.append(ast.Return(value=ast.Name(id="_result", ctx=ast.Load())))
                    else:
                        new.append(st)
                setattr(holder, field, new)
        new = []
        for st in fn.body:
            if isinstance(st, ast.Return) and st.value is not None and not isinstance(st.value, (ast.Constant, ast.Name)):
                new.append(ast.Assign(targets=[ast.Name(id="_result", ctx=ast.Store())], value=st.value, lineno=st.lineno))
                new.append(ast.Return(value=ast.Name(id="_result", ctx=ast.Load())))
            else:
                new.append(st)
        fn.body = new


class _AnyAllList(ast.NodeTransformer):
    """all(<generator>) -> all([<list comprehension>])  (elements are evaluated for value only)"""

    def visit_Call(self, node: ast.Call):
        self.generic_visit(node)
        if isinstance(node.func, ast.Name) and node.func.id in ("all", "any") and len(node.args) == 1 and isinstance(node.args[0], ast.GeneratorExp):
            g = node.args[0]
            node.args = [ast.ListComp(elt=g.elt, generators=g.generators)]
        return node


class _ContinueGuard(ast.NodeTransformer):
    """for x in it: if c: continue; REST   ->   for x in it: if not c: REST     (first statement of the loop body only)"""

    def visit_For(self, node: ast.For):
        self.generic_visit(node)
        b = node.body
        if len(b) >= 2 and isinstance(b[0], ast.If) and not b[0].orelse and len(b[0].body) == 1 and isinstance(b[0].body[0], ast.Continue):
            node.body = [ast.If(test=ast.UnaryOp(op=ast.Not(), operand=b[0].test), body=b[1:], orelse=[])]
        elif len(b) == 1 and isinstance(b[0], ast.If) and not b[0].orelse and len(b[0].body) >= 1 and not any(isinstance(x, ast.Continue) for s in b[0].body for x in ast.walk(s)):
            node.body = [ast.If(test=ast.UnaryOp(op=ast.Not(), operand=b[0].test), body=[ast.Continue()], orelse=[])] + b[0].body
        return node


class _NestedIfSplit(ast.NodeTransformer):
    """if a and b: X   ->   if a: if b: X      (no else branch)"""

    def visit_If(self, node: ast.If):
        self.generic_visit(node)
        if not node.orelse and isinstance(node.test, ast.BoolOp) and isinstance(node.test.op, ast.And) and len(node.test.values) == 2:
            return ast.If(test=node.test.values[0], body=[ast.If(test=node.test.values[1], body=node.body, orelse=[])], orelse=[])
        return node


class _KeysIter(ast.NodeTransformer):
    """for k in d.keys()  ->  for k in d"""

    def visit_For(self, node: ast.For):
        self.generic_visit(node)
        it = node.iter
        if isinstance(it, ast.Call) and isinstance(it.func, ast.Attribute) and it.func.attr == "keys" and not it.args and not it.keywords:
            node.iter = it.func.value
        return node


class _CommuteConst(ast.NodeTransformer):
    """i + 1 -> 1 + i,  2 * k -> k * 2   (one operand an integer constant, the other not a constant)"""

    def visit_BinOp(self, node: ast.BinOp):
        self.generic_visit(node)
        if isinstance(node.op, (ast.Add, ast.Mult)):
            lc = isinstance(node.left, ast.Constant) and type(node.left.value) is int
            rc = isinstance(node.right, ast.Constant) and type(node.right.value) is int
            if lc != rc:
                return ast.BinOp(left=node.right, op=node.op, right=node.left)
        return node


class _DeMorgan(ast.NodeTransformer):
    """not (a and b) -> not a or not b;   not (a or b) -> not a and not b"""

    def visit_UnaryOp(self, node: ast.UnaryOp):
        self.generic_visit(node)
        if isinstance(node.op, ast.Not) and isinstance(node.operand, ast.BoolOp):
            inner = node.operand
            op = ast.Or() if isinstance(inner.op, ast.And) else ast.And()
            return ast.BoolOp(op=op, values=[ast.UnaryOp(op=ast.Not(), operand=v) for v in inner.values])
        return node


class _AnnotateLocals(ast.NodeTransformer):
    """x = 0 -> x: int = 0,  x = [] -> x: list = []   inside functions (simple name targets, literal values)"""

    def __init__(self):
        self.depth = 0

    def visit_FunctionDef(self, node):
        self.depth += 1
        self.generic_visit(node)
        self.depth -= 1
        return node

    def visit_ClassDef(self, node):
        d, self.depth = self.depth, 0
        self.generic_visit(node)
        self.depth = d
        return node

    def visit_Assign(self, node: ast.Assign):
        if self.depth and len(node.targets) == 1 and isinstance(node.targets[0], ast.Name):
            v = node.value
            ann = None
            if isinstance(v, ast.Constant) and type(v.value) is int:
                ann = "int"
            elif isinstance(v, ast.List) and not v.elts:
                ann = "list"
            elif isinstance(v, ast.Constant) and type(v.value) is bool:
                ann = "bool"
            if ann:
                return ast.AnnAssign(target=ast.Name(id=node.targets[0].id, ctx=ast.Store()), annotation=ast.Name(id=ann, ctx=ast.Load()), value=v, simple=1)
        return node


class _NoElseReturn(ast.NodeTransformer):
    """if c: ...; return a  else: REST   ->   if c: ...; return a   REST      (pylint no-else-return / no-else-raise / no-else-continue)"""

    def _flatten(self, stmts):
        out = []
        for st in stmts:
            if isinstance(st, ast.If) and st.orelse and st.body and isinstance(st.body[-1], (ast.Return, ast.Raise, ast.Continue, ast.Break)):
                tail = self._flatten(st.orelse)
                out.append(ast.If(test=st.test, body=st.body, orelse=[]))
                out.extend(tail)
            else:
                out.append(st)
        return out

    def generic_visit(self, node):
        super().generic_visit(node)
        for field in ("body", "orelse", "finalbody"):
            lst = getattr(node, field, None)
            if isinstance(lst, list) and lst and isinstance(lst[0], ast.stmt):
                setattr(node, field, self._flatten(lst))
        return node


class _LiteralCtor(ast.NodeTransformer):
    """[] -> list(),  {} -> dict()   (empty displays only, in Load context)"""

    def visit_List(self, node: ast.List):
        if not node.elts and isinstance(node.ctx, ast.Load):
            return ast.Call(func=ast.Name(id="list", ctx=ast.Load()), args=[], keywords=[])
        self.generic_visit(node)
        return node

    def visit_Dict(self, node: ast.Dict):
        if not node.keys:
            return ast.Call(func=ast.Name(id="dict", ctx=ast.Load()), args=[], keywords=[])
        self.generic_visit(node)
        return node


class _AppendToAug(ast.NodeTransformer):
    """x.append(y) -> x += [y]   for a plain local name x (statement position)"""

    def visit_Expr(self, node: ast.Expr):
        v = node.value
        if isinstance(v, ast.Call) and isinstance(v.func, ast.Attribute) and v.func.attr == "append" and isinstance(v.func.value, ast.Name) and len(v.args) == 1 and not v.keywords:
            return ast.AugAssign(target=ast.Name(id=v.func.value.id, ctx=ast.Store()), op=ast.Add(), value=ast.List(elts=[v.args[0]], ctx=ast.Load()))
        return node


def _swap_independent_assigns(tree: ast.Module) -> None:
    """a = e1; b = e2 -> b = e2; a = e1   for adjacent assignments of call-free expressions to distinct names that do not mention each other"""
    def simple(e):
        return not any(isinstance(n, (ast.Call, ast.Yield, ast.YieldFrom, ast.Await, ast.NamedExpr)) for n in ast.walk(e))

    def names(e):
        return {n.id for n in ast.walk(e) if isinstance(n, ast.Name)}

    for holder in ast.walk(tree):
        for field in ("body", "orelse", "finalbody"):
            lst = getattr(holder, field, None)
            if not (isinstance(lst, list) and lst and isinstance(lst[0], ast.stmt)) or isinstance(holder, (ast.Module, ast.ClassDef)):
                continue
            i = 0
            while i + 1 < len(lst):
                a, b = lst[i], lst[i + 1]
                if isinstance(a, ast.Assign) and isinstance(b, ast.Assign) and len(a.targets) == 1 and len(b.targets) == 1 and isinstance(a.targets[0], ast.Name) and isinstance(b.targets[0], ast.Name) \
                        and a.targets[0].id != b.targets[0].id and simple(a.value) and simple(b.value) and a.targets[0].id not in names(b.value) and b.targets[0].id not in names(a.value):
                    lst[i], lst[i + 1] = b, a
                    i += 2
                else:
                    i += 1


def _stmt_lists_of(tree: ast.AST):
    for holder in ast.walk(tree):
        if isinstance(holder, (ast.Module, ast.ClassDef)):
            continue
        for field in ("body", "orelse", "finalbody"):
            lst = getattr(holder, field, None)
            if isinstance(lst, list) and lst and isinstance(lst[0], ast.stmt):
                yield holder, field, lst


def _loop_to_comprehension(tree: ast.Module) -> None:
    """res = []; for v in it: [if c:] res.append(E)   ->   res = [E for v in it [if c]]"""
    for holder, field, lst in list(_stmt_lists_of(tree)):
        new = []
        i = 0
        while i < len(lst):
            a = lst[i]
            b = lst[i + 1] if i + 1 < len(lst) else None
            done = False
            if isinstance(a, ast.Assign) and len(a.targets) == 1 and isinstance(a.targets[0], ast.Name) and isinstance(a.value, ast.List) and not a.value.elts \
                    and isinstance(b, ast.For) and not b.orelse and len(b.body) == 1:
                name = a.targets[0].id
                st = b.body[0]
                cond = None
                if isinstance(st, ast.If) and not st.orelse and len(st.body) == 1:
                    cond, st = st.test, st.body[0]
                if isinstance(st, ast.Expr) and isinstance(st.value, ast.Call) and isinstance(st.value.func, ast.Attribute) and st.value.func.attr == "append" \
                        and isinstance(st.value.func.value, ast.Name) and st.value.func.value.id == name and len(st.value.args) == 1 \
                        and not any(isinstance(n, ast.Name) and n.id == name for n in ast.walk(st.value.args[0])) and not (cond is not None and any(isinstance(n, ast.Name) and n.id == name for n in ast.walk(cond))) \
                        and not any(isinstance(n, ast.Name) and n.id == name for n in ast.walk(b.iter)):
                    comp = ast.ListComp(elt=st.value.args[0], generators=[ast.comprehension(target=b.target, iter=b.iter, ifs=[cond] if cond is not None else [], is_async=0)])
                    new.append(ast.Assign(targets=[ast.Name(id=name, ctx=ast.Store())], value=comp, lineno=a.lineno))
                    i += 2
                    done = True
            if not done:
                new.append(a)
                i += 1
        setattr(holder, field, new)


def _comprehension_to_loop(tree: ast.Module) -> None:
    """x = [E for v in it [if c]]   ->   x = []; for v in it: [if c:] x.append(E)     (single generator, statement level, inside functions)"""
    for fn in ast.walk(tree):
        if not isinstance(fn, ast.FunctionDef):
            continue
        for holder, field, lst in list(_stmt_lists_of(fn)):
            new = []
            for st in lst:
                if isinstance(st, ast.Assign) and len(st.targets) == 1 and isinstance(st.targets[0], ast.Name) and isinstance(st.value, ast.ListComp) and len(st.value.generators) == 1 \
                        and not st.value.generators[0].is_async and not any(isinstance(n, ast.Name) and n.id == st.targets[0].id for n in ast.walk(st.value)):
                    g = st.value.generators[0]
                    name = st.targets[0].id
                    app = ast.Expr(value=ast.Call(func=ast.Attribute(value=ast.Name(id=name, ctx=ast.Load()), attr="append", ctx=ast.Load()), args=[st.value.elt], keywords=[]))
                    body = [app]
                    for c in reversed(g.ifs):
                        body = [ast.If(test=c, body=body, orelse=[])]
                    new.append(ast.Assign(targets=[ast.Name(id=name, ctx=ast.Store())], value=ast.List(elts=[], ctx=ast.Load()), lineno=st.lineno))
                    new.append(ast.For(target=g.target, iter=g.iter, body=body, orelse=[], lineno=st.lineno))
                else:
                    new.append(st)
            setattr(holder, field, new)


def _yield_from_to_loop(tree: ast.Module) -> None:
    """yield from E  ->  for _item in E: yield _item   (statement position)"""
    for holder, field, lst in list(_stmt_lists_of(tree)):
        new = []
        for st in lst:
            if isinstance(st, ast.Expr) and isinstance(st.value, ast.YieldFrom):
                new.append(ast.For(target=ast.Name(id="_item", ctx=ast.Store()), iter=st.value.value, body=[ast.Expr(value=ast.Yield(value=ast.Name(id="_item", ctx=ast.Load())))], orelse=[], lineno=st.lineno))
            else:
                new.append(st)
        setattr(holder, field, new)


def _loop_to_yield_from(tree: ast.Module) -> None:
    """for v in E: yield v  ->  yield from E"""
    for holder, field, lst in list(_stmt_lists_of(tree)):
        new = []
        for st in lst:
            if isinstance(st, ast.For) and not st.orelse and isinstance(st.target, ast.Name) and len(st.body) == 1 and isinstance(st.body[0], ast.Expr) and isinstance(st.body[0].value, ast.Yield) \
                    and isinstance(st.body[0].value.value, ast.Name) and st.body[0].value.value.id == st.target.id:
                new.append(ast.Expr(value=ast.YieldFrom(value=st.iter), lineno=st.lineno))
            else:
                new.append(st)
        setattr(holder, field, new)


def _any_to_loop(tree: ast.Module) -> None:
    """return any(C for v in D)  ->  for v in D: if C: return True  \n return False      (and all(..) likewise), single generator without filter"""
    for holder, field, lst in list(_stmt_lists_of(tree)):
        new = []
        for st in lst:
            v = st.value if isinstance(st, ast.Return) else None
            if isinstance(v, ast.Call) and isinstance(v.func, ast.Name) and v.func.id in ("any", "all") and len(v.args) == 1 and isinstance(v.args[0], ast.GeneratorExp) and len(v.args[0].generators) == 1 \
                    and not v.args[0].generators[0].ifs:
                g = v.args[0].generators[0]
                is_any = v.func.id == "any"
                test = v.args[0].elt if is_any else ast.UnaryOp(op=ast.Not(), operand=v.args[0].elt)
                new.append(ast.For(target=g.target, iter=g.iter, body=[ast.If(test=test, body=[ast.Return(value=ast.Constant(value=is_any))], orelse=[])], orelse=[], lineno=st.lineno))
                new.append(ast.Return(value=ast.Constant(value=not is_any)))
            else:
                new.append(st)
        setattr(holder, field, new)


def _hoist_first_operand(tree: ast.Module) -> None:
    """if A and B: ...  ->  _c0 = A; if _c0 and B: ...    (the first operand of an `and`/`or` test is evaluated first anyway)"""
    for fn in ast.walk(tree):
        if not isinstance(fn, ast.FunctionDef):
            continue
        k = 0
        for holder, field, lst in list(_stmt_lists_of(fn)):
            new = []
            for st in lst:
                if isinstance(st, ast.If) and isinstance(st.test, ast.BoolOp) and not isinstance(holder, (ast.While,)) and not isinstance(st.test.values[0], (ast.Name, ast.Constant)):
                    name = f"_c{k}"
                    k += 1
                    new.append(ast.Assign(targets=[ast.Name(id=name, ctx=ast.Store())], value=st.test.values[0], lineno=st.lineno))
                    st.test = ast.BoolOp(op=st.test.op, values=[ast.Name(id=name, ctx=ast.Load())] + st.test.values[1:])
                new.append(st)
            setattr(holder, field, new)


def _last_arg_keyword(tree: ast.Module) -> None:
    """self.m(a, b) / cls.m(a, b) -> self.m(a, b=b) for methods m defined in the same class (parameter name from the definition)"""
    for cls in ast.walk(tree):
        if not isinstance(cls, ast.ClassDef):
            continue
        table = {}
        for st in cls.body:
            if isinstance(st, ast.FunctionDef) and not st.args.vararg and not st.args.posonlyargs:
                static = any(isinstance(d, ast.Name) and d.id == "staticmethod" for d in st.decorator_list)
                table[st.name] = [a.arg for a in st.args.args][0 if static else 1:]
        for call in ast.walk(cls):
            if isinstance(call, ast.Call) and isinstance(call.func, ast.Attribute) and isinstance(call.func.value, ast.Name) and call.func.value.id in ("self", "cls") \
                    and call.func.attr in table and call.args and not call.keywords and not any(isinstance(a, ast.Starred) for a in call.args) and len(call.args) <= len(table[call.func.attr]):
                name = table[call.func.attr][len(call.args) - 1]
                call.keywords = [ast.keyword(arg=name, value=call.args[-1])]
                call.args = call.args[:-1]


def _guard_to_wrap(tree: ast.Module) -> None:
    """in a function that returns no value and is not a generator:  if c: return; REST  ->  if not c: REST"""
    for fn in ast.walk(tree):
        if not isinstance(fn, ast.FunctionDef):
            continue
        inner = [n for n in ast.walk(fn)]
        if any(isinstance(n, (ast.Yield, ast.YieldFrom)) for n in inner) or any(isinstance(n, ast.Return) and n.value is not None for n in inner) \
                or any(isinstance(n, (ast.FunctionDef, ast.Lambda)) and n is not fn for n in inner):
            continue
        body = fn.body
        for i in range(len(body) - 2, -1, -1):
            st = body[i]
            if isinstance(st, ast.If) and not st.orelse and len(st.body) == 1 and isinstance(st.body[0], ast.Return):
                body = body[:i] + [ast.If(test=ast.UnaryOp(op=ast.Not(), operand=st.test), body=body[i + 1:], orelse=[], lineno=st.lineno)]
        fn.body = body


def _wrap_to_guard(tree: ast.Module) -> None:
    """in a function that returns no value and is not a generator, last statement `if c: BODY` (no else)  ->  if not c: return; BODY"""
    for fn in ast.walk(tree):
        if not isinstance(fn, ast.FunctionDef):
            continue
        inner = [n for n in ast.walk(fn)]
        if any(isinstance(n, (ast.Yield, ast.YieldFrom)) for n in inner) or any(isinstance(n, ast.Return) and n.value is not None for n in inner) \
                or any(isinstance(n, (ast.FunctionDef, ast.Lambda)) and n is not fn for n in inner):
            continue
        last = fn.body[-1]
        if isinstance(last, ast.If) and not last.orelse and len(fn.body) > 1:
            fn.body = fn.body[:-1] + [ast.If(test=ast.UnaryOp(op=ast.Not(), operand=last.test), body=[ast.Return(value=None)], orelse=[], lineno=last.lineno)] + last.body


class _SliceSpelling(ast.NodeTransformer):
    """x[:k] -> x[0:k];  x[a:] -> x[a:len(x)]    (x a plain name, no step)"""

    def visit_Subscript(self, node: ast.Subscript):
        self.generic_visit(node)
        sl = node.slice
        if isinstance(sl, ast.Slice) and sl.step is None and isinstance(node.value, ast.Name) and isinstance(node.ctx, ast.Load):
            if sl.lower is None and sl.upper is not None:
                sl.lower = ast.Constant(value=0)
            elif sl.upper is None and sl.lower is not None:
                sl.upper = ast.Call(func=ast.Name(id="len", ctx=ast.Load()), args=[ast.Name(id=node.value.id, ctx=ast.Load())], keywords=[])
        return node


def _extract_local(tree: ast.Module) -> None:
    """f(a, g(x), ...) as a statement / assigned / returned  ->  _x0 = g(x); f(a, _x0, ...)   (first non-trivial positional argument,
    everything evaluated before it is a plain name or a constant)"""
    for fn in ast.walk(tree):
        if not isinstance(fn, ast.FunctionDef):
            continue
        k = 0
        for holder, field, lst in list(_stmt_lists_of(fn)):
            new = []
            for st in lst:
                call = st.value if isinstance(st, (ast.Expr, ast.Assign, ast.Return)) and isinstance(getattr(st, "value", None), ast.Call) else None
                if call is not None and (isinstance(call.func, ast.Name) or isinstance(call.func, ast.Attribute) and isinstance(call.func.value, (ast.Name, ast.Call)) and not
                                         (isinstance(call.func.value, ast.Call) and not (isinstance(call.func.value.func, ast.Name) and call.func.value.func.id == "super" and not call.func.value.args))):
                    for i, a in enumerate(call.args):
                        if isinstance(a, (ast.Name, ast.Constant)):
                            continue
                        if isinstance(a, (ast.Call, ast.BinOp, ast.Subscript)) and not any(isinstance(n, (ast.GeneratorExp, ast.ListComp, ast.SetComp, ast.DictComp, ast.Lambda, ast.Yield, ast.YieldFrom, ast.NamedExpr, ast.Starred))
                                                                                          for n in ast.walk(a)):
                            name = f"_x{k}"
                            k += 1
                            new.append(ast.Assign(targets=[ast.Name(id=name, ctx=ast.Store())], value=a, lineno=st.lineno))
                            call.args[i] = ast.Name(id=name, ctx=ast.Load())
                        break
                new.append(st)
            setattr(holder, field, new)


class _InToOr(ast.NodeTransformer):
    """x in (a, b) -> x == a or x == b;   x not in (a, b) -> x != a and x != b    (x a plain name, display of 2-3 elements)"""

    def visit_Compare(self, node: ast.Compare):
        self.generic_visit(node)
        if len(node.ops) == 1 and isinstance(node.ops[0], (ast.In, ast.NotIn)) and isinstance(node.left, ast.Name) and isinstance(node.comparators[0], (ast.Tuple, ast.List)) \
                and 2 <= len(node.comparators[0].elts) <= 3 and all(isinstance(e, (ast.Name, ast.Constant, ast.BinOp)) for e in node.comparators[0].elts):
            import copy

            pos = isinstance(node.ops[0], ast.In)
            parts = [ast.Compare(left=copy.deepcopy(node.left), ops=[ast.Eq() if pos else ast.NotEq()], comparators=[e]) for e in node.comparators[0].elts]
            return ast.BoolOp(op=ast.Or() if pos else ast.And(), values=parts)
        return node


class _OrToIn(ast.NodeTransformer):
    """x == a or x == b -> x in (a, b)    (same plain name on the left of every equality, constants on the right)"""

    def visit_BoolOp(self, node: ast.BoolOp):
        self.generic_visit(node)
        if isinstance(node.op, ast.Or) and len(node.values) >= 2 and all(isinstance(v, ast.Compare) and len(v.ops) == 1 and isinstance(v.ops[0], ast.Eq) and isinstance(v.left, ast.Name)
                                                                         and isinstance(v.comparators[0], ast.Constant) for v in node.values) \
                and len({v.left.id for v in node.values}) == 1 and len({type(v.comparators[0].value) for v in node.values}) == 1:
            return ast.Compare(left=node.values[0].left, ops=[ast.In()], comparators=[ast.Tuple(elts=[v.comparators[0] for v in node.values], ctx=ast.Load())])
        return node


def _unpack_by_index(tree: ast.Module) -> None:
    """a, b = name  ->  a = name[0]; b = name[1]     (two plain names unpacked from a plain name, inside functions)"""
    for fn in ast.walk(tree):
        if not isinstance(fn, ast.FunctionDef):
            continue
        for holder, field, lst in list(_stmt_lists_of(fn)):
            new = []
            for st in lst:
                if isinstance(st, ast.Assign) and len(st.targets) == 1 and isinstance(st.targets[0], ast.Tuple) and len(st.targets[0].elts) == 2 and all(isinstance(e, ast.Name) for e in st.targets[0].elts) \
                        and isinstance(st.value, ast.Name) and st.value.id not in {e.id for e in st.targets[0].elts}:
                    for k, e in enumerate(st.targets[0].elts):
                        new.append(ast.Assign(targets=[ast.Name(id=e.id, ctx=ast.Store())], value=ast.Subscript(value=ast.Name(id=st.value.id, ctx=ast.Load()), slice=ast.Constant(value=k), ctx=ast.Load()), lineno=st.lineno))
                else:
                    new.append(st)
            setattr(holder, field, new)


def _sorted_to_sort(tree: ast.Module) -> None:
    """x = sorted(E)  ->  x = list(E); x.sort()     (no key / reverse, statement level)"""
    for fn in ast.walk(tree):
        if not isinstance(fn, ast.FunctionDef):
            continue
        for holder, field, lst in list(_stmt_lists_of(fn)):
            new = []
            for st in lst:
                if isinstance(st, ast.Assign) and len(st.targets) == 1 and isinstance(st.targets[0], ast.Name) and isinstance(st.value, ast.Call) and isinstance(st.value.func, ast.Name) \
                        and st.value.func.id == "sorted" and len(st.value.args) == 1 and not st.value.keywords:
                    name = st.targets[0].id
                    new.append(ast.Assign(targets=[ast.Name(id=name, ctx=ast.Store())], value=ast.Call(func=ast.Name(id="list", ctx=ast.Load()), args=[st.value.args[0]], keywords=[]), lineno=st.lineno))
                    new.append(ast.Expr(value=ast.Call(func=ast.Attribute(value=ast.Name(id=name, ctx=ast.Load()), attr="sort", ctx=ast.Load()), args=[], keywords=[])))
                else:
                    new.append(st)
            setattr(holder, field, new)


def _split_or_returns(tree: ast.Module) -> None:
    """if A or B: <return/raise/continue/break X>   ->   if A: <..X>  \n  if B: <..X>      (no else; single terminal statement)"""
    import copy

    for holder, field, lst in list(_stmt_lists_of(tree)):
        new = []
        for st in lst:
            if isinstance(st, ast.If) and not st.orelse and isinstance(st.test, ast.BoolOp) and isinstance(st.test.op, ast.Or) and len(st.body) == 1 \
                    and isinstance(st.body[0], (ast.Return, ast.Raise, ast.Continue, ast.Break)):
                for v in st.test.values:
                    new.append(ast.If(test=v, body=[copy.deepcopy(st.body[0])], orelse=[], lineno=st.lineno))
            else:
                new.append(st)
        setattr(holder, field, new)


class _ReverseDeMorgan(ast.NodeTransformer):
    """A or B -> not (not A and not B)   (for or-chains of comparisons)"""

    def visit_BoolOp(self, node: ast.BoolOp):
        self.generic_visit(node)
        if isinstance(node.op, ast.Or) and all(isinstance(v, ast.Compare) for v in node.values):
            return ast.UnaryOp(op=ast.Not(), operand=ast.BoolOp(op=ast.And(), values=[ast.UnaryOp(op=ast.Not(), operand=v) for v in node.values]))
        return node


def _hoist_literals(tree: ast.Module) -> None:
    """`Perm((..))` literals, integers >= 2 and non-empty strings used inside functions become module-level constants `_LIT_k`"""
    table: dict = {}
    doc_ids = set()
    for n in ast.walk(tree):
        if isinstance(n, (ast.FunctionDef, ast.ClassDef, ast.Module)) and n.body and isinstance(n.body[0], ast.Expr) and isinstance(n.body[0].value, ast.Constant):
            doc_ids.add(id(n.body[0].value))

    class H(ast.NodeTransformer):
        depth = 0

        def visit_FunctionDef(self, node):
            self.depth += 1
            node.body = [self.visit(st) for st in node.body]  # defaults / decorators / annotations stay as they are
            self.depth -= 1
            return node

        def visit_JoinedStr(self, node):
            return node

        def name_for(self, node) -> ast.Name:
            key = ast.dump(node)
            if key not in table:
                table[key] = (f"_LIT_{len(table)}", node)
            return ast.Name(id=table[key][0], ctx=ast.Load())

        def visit_Call(self, node: ast.Call):
            if self.depth and isinstance(node.func, ast.Name) and node.func.id == "Perm" and len(node.args) == 1 and isinstance(node.args[0], ast.Tuple) \
                    and all(isinstance(e, ast.Constant) for e in node.args[0].elts) and not node.keywords:
                return self.name_for(node)
            self.generic_visit(node)
            return node

        def visit_Constant(self, node: ast.Constant):
            if self.depth and id(node) not in doc_ids and ((type(node.value) is int and node.value >= 2) or (isinstance(node.value, str) and 0 < len(node.value) <= 12)):
                return self.name_for(node)
            return node

    H().visit(tree)
    pos = 0
    while pos < len(tree.body) and (isinstance(tree.body[pos], (ast.Import, ast.ImportFrom)) or (isinstance(tree.body[pos], ast.Expr) and isinstance(tree.body[pos].value, ast.Constant))):
        pos += 1
    # after the imports and after the definitions the literals need (Perm is imported in every module that builds one)
    for k, (name, node) in enumerate(table.values()):
        tree.body.insert(pos + k, ast.Assign(targets=[ast.Name(id=name, ctx=ast.Store())], value=node, lineno=1))


class _Reassociate(ast.NodeTransformer):
    """n - i - 1 -> n - 1 - i   (three-term integer chains Name - Name - const)"""

    def visit_BinOp(self, node: ast.BinOp):
        self.generic_visit(node)
        if isinstance(node.op, (ast.Sub, ast.Add)) and isinstance(node.right, ast.Constant) and type(node.right.value) is int and isinstance(node.left, ast.BinOp) \
                and isinstance(node.left.op, (ast.Sub, ast.Add)) and isinstance(node.left.right, (ast.Name, ast.Attribute)) and isinstance(node.left.left, (ast.Name, ast.Attribute, ast.Call)):
            a, op1, b, op2, c = node.left.left, node.left.op, node.left.right, node.op, node.right
            return ast.BinOp(left=ast.BinOp(left=a, op=op2, right=c), op=op1, right=b)
        return node


class _IndexFromFront(ast.NodeTransformer):
    """x[-1] -> x[len(x) - 1]   (x a plain name)"""

    def visit_Subscript(self, node: ast.Subscript):
        self.generic_visit(node)
        sl = node.slice
        if isinstance(node.value, ast.Name) and isinstance(node.ctx, ast.Load) and isinstance(sl, ast.UnaryOp) and isinstance(sl.op, ast.USub) and isinstance(sl.operand, ast.Constant) \
                and type(sl.operand.value) is int:
            node.slice = ast.BinOp(left=ast.Call(func=ast.Name(id="len", ctx=ast.Load()), args=[ast.Name(id=node.value.id, ctx=ast.Load())], keywords=[]), op=ast.Sub(), right=ast.Constant(value=sl.operand.value))
        return node


class _ReverseKeywords(ast.NodeTransformer):
    def visit_Call(self, node: ast.Call):
        self.generic_visit(node)
        if len(node.keywords) > 1 and all(k.arg is not None for k in node.keywords):
            node.keywords = list(reversed(node.keywords))
        return node


def _ifexp_to_statement(tree: ast.Module) -> None:
    """x = A if C else B   ->   if C: x = A  else: x = B     (plain name target, statement level)"""
    for holder, field, lst in list(_stmt_lists_of(tree)):
        new = []
        for st in lst:
            if isinstance(st, ast.Assign) and len(st.targets) == 1 and isinstance(st.targets[0], ast.Name) and isinstance(st.value, ast.IfExp):
                n = st.targets[0].id
                new.append(ast.If(test=st.value.test, body=[ast.Assign(targets=[ast.Name(id=n, ctx=ast.Store())], value=st.value.body, lineno=st.lineno)],
                                  orelse=[ast.Assign(targets=[ast.Name(id=n, ctx=ast.Store())], value=st.value.orelse, lineno=st.lineno)], lineno=st.lineno))
            else:
                new.append(st)
        setattr(holder, field, new)


def _transformer(cls):
    def apply(tree: ast.Module) -> None:
        new = cls().visit(tree)
        tree.body = new.body
        ast.fix_missing_locations(tree)
    return apply


def _fix(fn):
    def apply(tree: ast.Module) -> None:
        fn(tree)
        ast.fix_missing_locations(tree)
    return apply


def equiv_table():
    """(tag, tree edit, description) of every behaviour-preserving rewrite"""
    return (
    ("swap-comparisons", _transformer(_SwapComparisons), "operands of every comparison exchanged (a < b -> b > a)"),
    ("range-zero", _transformer(_RangeZero), "range(n) -> range(0, n)"),
    ("ifexp-flip", _transformer(_IfExpFlip), "a if c else b -> b if not c else a"),
    ("ifelse-flip", _transformer(_IfElseFlip), "if c: A else: B -> if not c: B else: A"),
    ("chain-split", _transformer(_ChainSplit), "a < b < c -> a < b and b < c"),
    ("aug-const", _transformer(_AugConst), "x += 1 -> x = x + 1"),
    ("return-via-temp", _fix(_return_via_temp), "return E -> _result = E; return _result"),
    ("any-all-list", _transformer(_AnyAllList), "all(generator) -> all([list comprehension])"),
    ("continue-guard", _transformer(_ContinueGuard), "loop body guarded by `if c: continue` <-> `if not c: body`"),
    ("nested-if-split", _transformer(_NestedIfSplit), "if a and b: X -> if a: if b: X"),
    ("keys-iter", _transformer(_KeysIter), "for k in d.keys() -> for k in d"),
    ("commute-const", _transformer(_CommuteConst), "i + 1 -> 1 + i"),
    ("de-morgan", _transformer(_DeMorgan), "not (a and b) -> not a or not b"),
    ("annotate-locals", _transformer(_AnnotateLocals), "x = 0 -> x: int = 0 inside functions"),
    ("no-else-return", _transformer(_NoElseReturn), "else after return/raise/continue/break removed"),
    ("literal-ctor", _transformer(_LiteralCtor), "[] -> list(), {} -> dict()"),
    ("append-to-aug", _transformer(_AppendToAug), "x.append(y) -> x += [y]"),
    ("swap-assigns", _fix(_swap_independent_assigns), "adjacent independent assignments exchanged"),
    ("loop-to-comprehension", _fix(_loop_to_comprehension), "res = []; for v in it: res.append(E) -> res = [E for v in it]"),
    ("comprehension-to-loop", _fix(_comprehension_to_loop), "x = [E for v in it if c] -> explicit loop with append"),
    ("yield-from-to-loop", _fix(_yield_from_to_loop), "yield from E -> for _item in E: yield _item"),
    ("loop-to-yield-from", _fix(_loop_to_yield_from), "for v in E: yield v -> yield from E"),
    ("any-to-loop", _fix(_any_to_loop), "return any(C for v in D) -> search loop with early return"),
    ("hoist-first-operand", _fix(_hoist_first_operand), "first operand of an and/or test bound to a local first"),
    ("split-or-returns", _fix(_split_or_returns), "if A or B: return X -> if A: return X; if B: return X"),
    ("hoist-literals", _fix(_hoist_literals), "Perm literals, magic integers and short strings named as module constants"),
    ("reassociate", _transformer(_Reassociate), "n - i - 1 -> n - 1 - i"),
    ("index-from-front", _transformer(_IndexFromFront), "x[-1] -> x[len(x) - 1]"),
    ("reverse-keywords", _transformer(_ReverseKeywords), "keyword arguments in the opposite order"),
    ("ifexp-to-statement", _fix(_ifexp_to_statement), "x = A if C else B -> if C: x = A else: x = B"),
    ("reverse-de-morgan", _transformer(_ReverseDeMorgan), "A or B -> not (not A and not B)"),
    ("in-to-or", _transformer(_InToOr), "x in (a, b) -> x == a or x == b"),
    ("or-to-in", _transformer(_OrToIn), "x == a or x == b -> x in (a, b)"),
    ("unpack-by-index", _fix(_unpack_by_index), "a, b = t -> a = t[0]; b = t[1]"),
    ("last-arg-keyword", _fix(_last_arg_keyword), "self.m(a, b) -> self.m(a, b=b)"),
    ("guard-to-wrap", _fix(_guard_to_wrap), "procedure: if c: return; REST -> if not c: REST"),
    ("wrap-to-guard", _fix(_wrap_to_guard), "procedure ending in if c: BODY -> if not c: return; BODY"),
    ("slice-spelling", _transformer(_SliceSpelling), "x[:k] -> x[0:k]; x[a:] -> x[a:len(x)]"),
    ("extract-local", _fix(_extract_local), "f(a, g(x)) -> _x0 = g(x); f(a, _x0)"),
    ("sorted-to-sort", _fix(_sorted_to_sort), "x = sorted(E) -> x = list(E); x.sort()"),
    )


def generic_equiv(files: List[str]) -> List[Variant]:
    """Whole-file behaviour-preserving rewrites of small syntactic idioms.  Expectation 'nofire': undecided is tolerated,
    an accusation is a false alarm."""
    out = []
    for f in files:
        short = f.split("/")[-1][:-3]
        for tag, fn, note in equiv_table():
            out.append(Variant(f"equiv-{tag}-{short}", [(f, fn)], "nofire", note=note))
    return out
