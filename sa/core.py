"""E0 – repository model: modules, classes, functions, MRO, resolver, normaliser."""

from __future__ import annotations

import ast
import copy
import os
from pathlib import Path
from typing import Dict, Iterable, Iterator, List, Optional, Sequence, Set, Tuple


class AnalysisError(Exception):
    """The analysis could not decide (vanished anchor, unknown idiom, floor not met)."""


def repo_root() -> Path:
    return Path(os.environ.get("VERIF_REPO", "/repo"))


# --------------------------------------------------------------------------- helpers


def unparse(node: ast.AST) -> str:
    return ast.unparse(node)


NOOP_CALL_HEADS = {"logging", "logger", "log", "LOGGER", "warnings"}


def is_noop_stmt(st: ast.stmt) -> bool:
    """Docstrings / bare constants and pure diagnostics (logging.*, logger.*, warnings.warn) do not
    take part in any rule."""
    if isinstance(st, ast.Expr) and isinstance(st.value, ast.Constant):
        return True
    if isinstance(st, ast.Expr) and isinstance(st.value, ast.Call):
        ch = attr_chain(st.value.func)
        if ch and len(ch) >= 2 and ch[0] in NOOP_CALL_HEADS:
            return True
    return False


def real_stmts(body: Sequence[ast.stmt]) -> List[ast.stmt]:
    return [st for st in body if not is_noop_stmt(st)]


def strip_doc(body: Sequence[ast.stmt]) -> List[ast.stmt]:
    """Function body without docstring and without pure-diagnostic statements (top level)."""
    return real_stmts(body)


def attr_chain(node: ast.AST) -> Optional[Tuple[str, ...]]:
    """``a.b.c`` -> ('a','b','c');  ``super().x`` -> ('super()','x'); else None."""
    parts: List[str] = []
    while isinstance(node, ast.Attribute):
        parts.append(node.attr)
        node = node.value
    if isinstance(node, ast.Name):
        parts.append(node.id)
    elif (
        isinstance(node, ast.Call)
        and isinstance(node.func, ast.Name)
        and node.func.id == "super"
    ):
        parts.append("super()")
    else:
        return None
    return tuple(reversed(parts))


def call_name(call: ast.Call) -> Optional[Tuple[str, ...]]:
    return attr_chain(call.func)


def walk_no_nested(node: ast.AST) -> Iterator[ast.AST]:
    """Walk a function body without descending into nested function/class defs."""
    stack = list(ast.iter_child_nodes(node))
    while stack:
        cur = stack.pop()
        yield cur
        if isinstance(cur, (ast.FunctionDef, ast.AsyncFunctionDef, ast.ClassDef, ast.Lambda)):
            continue
        stack.extend(ast.iter_child_nodes(cur))


def names_loaded(node: ast.AST) -> Set[str]:
    return {n.id for n in ast.walk(node) if isinstance(n, ast.Name)}


def const_value(node: ast.AST):
    if isinstance(node, ast.Constant):
        return node.value
    if isinstance(node, ast.UnaryOp) and isinstance(node.op, ast.USub) and isinstance(node.operand, ast.Constant):
        return -node.operand.value
    raise ValueError("not a constant")


_ANY = object()


def is_const(node: ast.AST, value=_ANY) -> bool:
    """Is ``node`` a constant (equal to ``value`` when given; ``None`` means the None constant)?"""
    try:
        val = const_value(node)
    except ValueError:
        return False
    if value is _ANY:
        return True
    if value is None:
        return val is None
    return val == value and type(val) is type(value)


# --------------------------------------------------------------------------- model


class FuncInfo:
    def __init__(self, module: "ModuleInfo", node: ast.FunctionDef, cls: Optional["ClassInfo"], parent: Optional["FuncInfo"]):
        self.module = module
        self.node = node
        self.cls = cls
        self.parent = parent
        self.name = node.name
        if parent is not None:
            self.qual = f"{parent.qual}.<locals>.{node.name}"
        elif cls is not None:
            self.qual = f"{cls.name}.{node.name}"
        else:
            self.qual = node.name
        self.where = f"{module.name}:{self.qual}"
        self.decorators = [unparse(d) for d in node.decorator_list]
        self.nested: Dict[str, FuncInfo] = {}

    @property
    def body(self) -> List[ast.stmt]:
        return strip_doc(self.node.body)

    @property
    def params(self) -> List[str]:
        a = self.node.args
        return [x.arg for x in a.posonlyargs + a.args]

    @property
    def vararg(self) -> Optional[str]:
        return self.node.args.vararg.arg if self.node.args.vararg else None

    @property
    def is_static(self) -> bool:
        return any(d.split(".")[-1] == "staticmethod" for d in self.decorators)

    @property
    def is_classmethod(self) -> bool:
        return any(d.split(".")[-1] == "classmethod" for d in self.decorators)

    def annotation(self, param: str) -> Optional[ast.AST]:
        a = self.node.args
        for x in a.posonlyargs + a.args + a.kwonlyargs + ([a.vararg] if a.vararg else []):
            if x.arg == param:
                return x.annotation
        return None

    def loc(self, node: Optional[ast.AST] = None) -> str:
        line = getattr(node, "lineno", self.node.lineno) if node is not None else self.node.lineno
        return f"{self.module.relpath}:{line}"

    def __repr__(self) -> str:
        return f"<Func {self.where}>"


class ClassInfo:
    def __init__(self, module: "ModuleInfo", node: ast.ClassDef):
        self.module = module
        self.node = node
        self.name = node.name
        self.base_exprs = [unparse(b) for b in node.bases]
        self.base_names: List[str] = []
        for b in node.bases:
            ch = attr_chain(b)
            if ch:
                self.base_names.append(ch[-1])
            elif isinstance(b, ast.Subscript):
                ch = attr_chain(b.value)
                if ch:
                    self.base_names.append(ch[-1])
        self.methods: Dict[str, FuncInfo] = {}
        self.aliases: Dict[str, str] = {}  # name -> other name in the class body
        self.assigns: Dict[str, ast.AST] = {}  # class-level name -> value expr
        self.assign_nodes: Dict[str, ast.stmt] = {}
        self.where = f"{module.name}:{self.name}"

    def __repr__(self) -> str:
        return f"<Class {self.where}>"


class ModuleInfo:
    def __init__(self, name: str, path: Path, relpath: str, src: str):
        self.name = name
        self.path = path
        self.relpath = relpath
        self.src = src
        from .canon import canonicalise

        self.tree = canonicalise(ast.parse(src, filename=str(path)), name)
        self.classes: Dict[str, ClassInfo] = {}
        self.functions: Dict[str, FuncInfo] = {}
        self.assigns: Dict[str, ast.AST] = {}
        self.assign_nodes: Dict[str, ast.stmt] = {}
        # imported name -> (module, original name or None for module import)
        self.imports: Dict[str, Tuple[str, Optional[str]]] = {}


class Repo:
    """Parsed view of ``<root>/permuta/**/*.py``."""

    PACKAGE = "permuta"
    FILE_FLOOR = 30

    def __init__(self, root: Optional[Path] = None):
        self.root = Path(root) if root is not None else repo_root()
        self.modules: Dict[str, ModuleInfo] = {}
        self.classes: Dict[str, ClassInfo] = {}  # simple name -> ClassInfo
        self.funcs: Dict[str, FuncInfo] = {}  # where -> FuncInfo
        self.parse_errors: List[str] = []
        self._load()

    # -- loading ---------------------------------------------------------------

    def _load(self) -> None:
        pkg = self.root / self.PACKAGE
        if not pkg.is_dir():
            raise AnalysisError(f"package directory {pkg} not found")
        files = sorted(p for p in pkg.rglob("*.py"))
        if len(files) < self.FILE_FLOOR:
            raise AnalysisError(f"only {len(files)} python files under {pkg}; floor {self.FILE_FLOOR}")
        for path in files:
            rel = path.relative_to(self.root)
            parts = list(rel.with_suffix("").parts)
            if parts[-1] == "__init__":
                parts = parts[:-1]
            name = ".".join(parts)
            try:
                src = path.read_text(encoding="utf-8")
                mod = ModuleInfo(name, path, str(rel), src)
            except (SyntaxError, UnicodeDecodeError) as exc:
                raise AnalysisError(f"cannot parse {rel}: {exc}") from exc
            self.modules[name] = mod
            self._index_module(mod)
        # second pass: duplicate simple class names would make by-name lookup unsound
        seen: Dict[str, str] = {}
        for mod in self.modules.values():
            for cname in mod.classes:
                if cname in seen:
                    raise AnalysisError(f"class name {cname} defined in both {seen[cname]} and {mod.name}")
                seen[cname] = mod.name

    def _index_module(self, mod: ModuleInfo) -> None:
        is_pkg = mod.path.name == "__init__.py"
        for node in mod.tree.body:
            self._index_stmt(mod, node, is_pkg)

    def _index_stmt(self, mod: ModuleInfo, node: ast.stmt, is_pkg: bool) -> None:
        if isinstance(node, ast.ClassDef):
            ci = ClassInfo(mod, node)
            mod.classes[ci.name] = ci
            self.classes.setdefault(ci.name, ci)
            for sub in node.body:
                if isinstance(sub, ast.FunctionDef):
                    fi = FuncInfo(mod, sub, ci, None)
                    ci.methods[sub.name] = fi
                    self.funcs[fi.where] = fi
                    self._index_nested(fi)
                elif isinstance(sub, ast.Assign) and len(sub.targets) == 1 and isinstance(sub.targets[0], ast.Name):
                    tgt = sub.targets[0].id
                    ci.assigns[tgt] = sub.value
                    ci.assign_nodes[tgt] = sub
                    if isinstance(sub.value, ast.Name):
                        ci.aliases[tgt] = sub.value.id
                elif isinstance(sub, ast.AnnAssign) and isinstance(sub.target, ast.Name) and sub.value is not None:
                    ci.assigns[sub.target.id] = sub.value
                    ci.assign_nodes[sub.target.id] = sub
        elif isinstance(node, ast.FunctionDef):
            fi = FuncInfo(mod, node, None, None)
            mod.functions[node.name] = fi
            self.funcs[fi.where] = fi
            self._index_nested(fi)
        elif isinstance(node, ast.Assign) and len(node.targets) == 1 and isinstance(node.targets[0], ast.Name):
            mod.assigns[node.targets[0].id] = node.value
            mod.assign_nodes[node.targets[0].id] = node
        elif isinstance(node, ast.AnnAssign) and isinstance(node.target, ast.Name) and node.value is not None:
            mod.assigns[node.target.id] = node.value
            mod.assign_nodes[node.target.id] = node
        elif isinstance(node, ast.ImportFrom):
            base = self._resolve_relative(mod, node, is_pkg)
            for alias in node.names:
                mod.imports[alias.asname or alias.name] = (base, alias.name)
        elif isinstance(node, ast.Import):
            for alias in node.names:
                mod.imports[alias.asname or alias.name.split(".")[0]] = (alias.name, None)
        elif isinstance(node, ast.If):
            # e.g. ``if TYPE_CHECKING:`` – index imports/defs of both arms
            for sub in node.body + node.orelse:
                self._index_stmt(mod, sub, is_pkg)

    def _index_nested(self, fi: FuncInfo) -> None:
        for sub in walk_no_nested(fi.node):
            if isinstance(sub, ast.FunctionDef):
                nf = FuncInfo(fi.module, sub, fi.cls, fi)
                fi.nested[sub.name] = nf
                self.funcs[nf.where] = nf
                self._index_nested(nf)

    @staticmethod
    def _resolve_relative(mod: ModuleInfo, node: ast.ImportFrom, is_pkg: bool) -> str:
        if node.level == 0:
            return node.module or ""
        parts = mod.name.split(".")
        if not is_pkg:
            parts = parts[:-1]
        up = node.level - 1
        if up:
            parts = parts[: len(parts) - up]
        if node.module:
            parts = parts + node.module.split(".")
        return ".".join(parts)

    # -- lookups ---------------------------------------------------------------

    def module(self, name: str) -> ModuleInfo:
        if name not in self.modules:
            raise AnalysisError(f"anchor vanished: module {name}")
        return self.modules[name]

    def cls(self, name: str) -> ClassInfo:
        if name not in self.classes:
            raise AnalysisError(f"anchor vanished: class {name}")
        return self.classes[name]

    def has_cls(self, name: str) -> bool:
        return name in self.classes

    def func(self, where: str) -> FuncInfo:
        """``module:Qual`` exact lookup."""
        if where not in self.funcs:
            raise AnalysisError(f"anchor vanished: function {where}")
        return self.funcs[where]

    def mro(self, cname: str) -> List[ClassInfo]:
        """Linearisation over in-repo classes (C3 where needed; the repo has no diamonds)."""
        out: List[ClassInfo] = []
        seen: Set[str] = set()

        def visit(name: str) -> None:
            if name in seen or name not in self.classes:
                return
            seen.add(name)
            ci = self.classes[name]
            out.append(ci)
            for b in ci.base_names:
                visit(b)

        visit(cname)
        return out

    def subclasses(self, cname: str, strict: bool = False) -> List[ClassInfo]:
        res = []
        for ci in self.classes.values():
            names = [c.name for c in self.mro(ci.name)]
            if cname in names and not (strict and ci.name == cname):
                res.append(ci)
        return res

    def external_bases(self, cname: str) -> Set[str]:
        ext: Set[str] = set()
        for ci in self.mro(cname):
            for b in ci.base_names:
                if b not in self.classes:
                    ext.add(b)
        return ext

    def method(self, cname: str, mname: str, follow_alias: bool = True) -> Optional[FuncInfo]:
        """Resolve ``cname.mname`` through the MRO and class-body aliases."""
        for ci in self.mro(cname):
            seen: Set[str] = set()
            name = mname
            while True:
                if name in ci.methods:
                    return ci.methods[name]
                if follow_alias and name in ci.aliases and name not in seen:
                    seen.add(name)
                    name = ci.aliases[name]
                    continue
                break
            if mname in ci.assigns and mname not in ci.aliases:
                v = ci.assigns[mname]
                if follow_alias and isinstance(v, ast.Attribute) and isinstance(v.value, ast.Name) and v.value.id in self.classes and v.value.id != ci.name:
                    return self.method(v.value.id, v.attr)  # `__hash__ = Other.__hash__`
                return None  # bound to a non-function value in this class (a builtin's method, None, ...)
        return None

    def need_method(self, cname: str, mname: str) -> FuncInfo:
        self.cls(cname)
        fi = self.method(cname, mname)
        if fi is None:
            raise AnalysisError(f"anchor vanished: method {cname}.{mname}")
        return fi

    def defining_class(self, cname: str, mname: str) -> Optional[ClassInfo]:
        for ci in self.mro(cname):
            if mname in ci.methods or mname in ci.assigns:
                return ci
        return None

    def all_funcs(self) -> List[FuncInfo]:
        return list(self.funcs.values())

    # -- name resolution inside a module --------------------------------------------

    def resolve_name(self, mod: ModuleInfo, name: str, depth: int = 0):
        """Resolve a module-level name to ClassInfo / FuncInfo / ('value', expr, mod) / None."""
        if depth > 6:
            return None
        if name in mod.classes:
            return mod.classes[name]
        if name in mod.functions:
            return mod.functions[name]
        if name in mod.assigns:
            val = mod.assigns[name]
            ch = attr_chain(val)
            if ch and len(ch) == 2:
                tgt = self.resolve_name(mod, ch[0], depth + 1)
                if isinstance(tgt, ClassInfo):
                    fi = self.method(tgt.name, ch[1])
                    if fi is not None:
                        return fi
            if ch and len(ch) == 1:
                r = self.resolve_name(mod, ch[0], depth + 1)
                if r is not None:
                    return r
            return ("value", val, mod)
        if name in mod.imports:
            src_mod, orig = mod.imports[name]
            if orig is None:
                return None
            target = self.modules.get(src_mod)
            if target is None:
                return None
            # ``from pkg import sub`` where sub is a module
            sub = self.modules.get(f"{src_mod}.{orig}")
            r = self.resolve_name(target, orig, depth + 1)
            if r is None and sub is not None:
                return sub
            return r
        return None

    def param_class(self, fi: FuncInfo, name: str) -> Optional[str]:
        """In-repo class named by the annotation of parameter ``name`` (of fi or an enclosing function)."""
        cur: Optional[FuncInfo] = fi
        while cur is not None:
            ann = cur.annotation(name)
            if ann is not None:
                if isinstance(ann, ast.Constant) and isinstance(ann.value, str):
                    txt = ann.value
                else:
                    txt = unparse(ann)
                txt = txt.strip("'\"")
                if txt.startswith("Optional[") and txt.endswith("]"):
                    txt = txt[len("Optional["):-1].strip("'\"")
                base = txt.split(".")[-1]
                if base in self.classes:
                    return base
                return None
            if name in cur.params or name == cur.vararg:
                return None
            cur = cur.parent
        return None

    def resolve_call(self, fi: FuncInfo, call: ast.Call) -> Tuple[List[FuncInfo], bool]:
        """Return (candidate callees, exact?).  Unknown receivers are resolved by
        method name over the in-repo class table and flagged inexact ("dynamic")."""
        ch = call_name(call)
        if ch is None:
            return [], False
        mod = fi.module
        if len(ch) == 1:
            # nested function of an enclosing function?
            cur: Optional[FuncInfo] = fi
            while cur is not None:
                if ch[0] in cur.nested:
                    return [cur.nested[ch[0]]], True
                cur = cur.parent
            r = self.resolve_name(mod, ch[0])
            if isinstance(r, FuncInfo):
                return [r], True
            if isinstance(r, ClassInfo):
                init = self.method(r.name, "__new__") or self.method(r.name, "__init__")
                out = []
                for nm in ("__new__", "__init__"):
                    m = self.method(r.name, nm)
                    if m is not None:
                        out.append(m)
                return out, True
            return [], r is None and False
        recv, meth = ch[:-1], ch[-1]
        if fi.cls is not None and len(recv) == 1 and recv[0] in ("self", "cls"):
            first = fi.params[0] if fi.params else None
            top = fi
            while top.parent is not None:
                top = top.parent
            if (top.params and top.params[0] == recv[0]) or first == recv[0]:
                # dynamic dispatch over subclasses that override
                cands: List[FuncInfo] = []
                base = self.method(fi.cls.name, meth)
                if base is not None:
                    cands.append(base)
                for sub in self.subclasses(fi.cls.name, strict=True):
                    m = self.method(sub.name, meth)
                    if m is not None and m not in cands:
                        cands.append(m)
                if cands:
                    return cands, True
        if recv == ("super()",) and fi.cls is not None:
            for ci in self.mro(fi.cls.name)[1:]:
                m = self.method(ci.name, meth)
                if m is not None:
                    return [m], True
            return [], True
        if len(recv) == 1:
            typed = self.param_class(fi, recv[0])
            if typed is not None:
                m = self.method(typed, meth)
                if m is not None:
                    cands = [m]
                    for sub in self.subclasses(typed, strict=True):
                        m2 = self.method(sub.name, meth)
                        if m2 is not None and m2 not in cands:
                            cands.append(m2)
                    return cands, True
            r = self.resolve_name(mod, recv[0])
            if isinstance(r, ClassInfo):
                m = self.method(r.name, meth)
                return ([m] if m is not None else []), True
            if isinstance(r, ModuleInfo):
                rr = self.resolve_name(r, meth)
                return ([rr] if isinstance(rr, FuncInfo) else []), True
        # dynamic: by method name over all classes
        cands = []
        for ci in self.classes.values():
            m = ci.methods.get(meth)
            if m is None and meth in ci.aliases:
                m = self.method(ci.name, meth)
            if m is not None and m not in cands:
                cands.append(m)
        return cands, False


# --------------------------------------------------------------------------- normaliser


class _AlphaRename(ast.NodeTransformer):
    def __init__(self, locals_: Set[str]):
        self.locals = locals_
        self.map: Dict[str, str] = {}

    def _name(self, ident: str) -> str:
        if ident not in self.locals:
            return ident
        if ident not in self.map:
            self.map[ident] = f"v{len(self.map)}"
        return self.map[ident]

    def visit_Name(self, node: ast.Name):
        return ast.copy_location(ast.Name(id=self._name(node.id), ctx=node.ctx), node)

    def visit_arg(self, node: ast.arg):
        node = copy.copy(node)
        node.arg = self._name(node.arg)
        node.annotation = None
        return node


def local_names(func: ast.AST) -> Set[str]:
    out: Set[str] = set()
    for n in ast.walk(func):
        if isinstance(n, ast.Name) and isinstance(n.ctx, (ast.Store, ast.Del)):
            out.add(n.id)
        elif isinstance(n, ast.arg):
            out.add(n.arg)
    out.discard("self")
    out.discard("cls")
    return out


_FLIP = {ast.Gt: ast.Lt, ast.GtE: ast.LtE}


class _Canon(ast.NodeTransformer):
    """b > a -> a < b ; x + 0 -> x ; drop annotations on AnnAssign."""

    def visit_Compare(self, node: ast.Compare):
        self.generic_visit(node)
        if len(node.ops) == 1 and type(node.ops[0]) in _FLIP:
            return ast.copy_location(
                ast.Compare(left=node.comparators[0], ops=[_FLIP[type(node.ops[0])]()], comparators=[node.left]),
                node,
            )
        return node

    def visit_BinOp(self, node: ast.BinOp):
        self.generic_visit(node)
        if isinstance(node.op, (ast.Add, ast.Sub)) and is_const(node.right, 0):
            return node.left
        if isinstance(node.op, ast.Add) and is_const(node.left, 0):
            return node.right
        return node

    def visit_AnnAssign(self, node: ast.AnnAssign):
        self.generic_visit(node)
        if node.value is None:
            return node
        return ast.copy_location(ast.Assign(targets=[node.target], value=node.value, lineno=node.lineno), node)


def canon(node: ast.AST) -> ast.AST:
    return ast.fix_missing_locations(_Canon().visit(copy.deepcopy(node)))


def norm_text(node: ast.AST, func: Optional[ast.AST] = None, limit: int = 240) -> str:
    """Stable text of a statement/expression: alpha-renamed locals, canonical
    comparisons, folded ``+ 0``; compound statements are reduced to their header."""
    node = copy.deepcopy(node)
    if isinstance(node, (ast.For, ast.While, ast.If, ast.With, ast.Try, ast.FunctionDef, ast.ClassDef)):
        if hasattr(node, "body"):
            node.body = [ast.Pass()]
        if hasattr(node, "orelse"):
            node.orelse = []
        if hasattr(node, "handlers"):
            node.handlers = []
        if hasattr(node, "finalbody"):
            node.finalbody = []
        if isinstance(node, ast.FunctionDef):
            node.decorator_list = []
    node = _Canon().visit(node)
    if func is not None:
        node = _AlphaRename(local_names(func)).visit(node)
    ast.fix_missing_locations(node)
    text = " ".join(ast.unparse(node).split())
    if text.endswith(": pass"):
        text = text[: -len(" pass")]
    return text[:limit]


# --------------------------------------------------------------------------- local inlining


class _SubstNames(ast.NodeTransformer):
    def __init__(self, env: Dict[str, ast.AST]):
        self.env = env

    def visit_Name(self, node: ast.Name):
        if isinstance(node.ctx, ast.Load) and node.id in self.env:
            return copy.deepcopy(self.env[node.id])
        return node


def subst_names(node: ast.AST, env: Dict[str, ast.AST]) -> ast.AST:
    return ast.fix_missing_locations(_SubstNames(env).visit(copy.deepcopy(node)))


def flow_env(fi: FuncInfo, stop: Optional[ast.AST] = None, max_size: int = 400) -> Dict[str, ast.AST]:
    """Values of simple locals at the point just before the top-level statement that contains
    ``stop`` (or at the end of the body): straight-line, flow-sensitive substitution of
    ``name = expr`` / ``a, b = x, y`` assignments.  Names assigned inside compound statements
    are dropped (unknown)."""
    env: Dict[str, ast.AST] = {}
    for st in fi.body:
        if stop is not None and any(sub is stop for sub in ast.walk(st)):
            break
        if isinstance(st, (ast.Assign, ast.AnnAssign)) and st.value is not None:
            tgts = st.targets if isinstance(st, ast.Assign) else [st.target]
            if len(tgts) == 1 and isinstance(tgts[0], ast.Name):
                val = subst_names(st.value, env)
                if len(ast.dump(val)) < max_size * 20:
                    env[tgts[0].id] = val
                else:
                    env.pop(tgts[0].id, None)
                continue
            if len(tgts) == 1 and isinstance(tgts[0], ast.Tuple):
                bound: Dict[str, ast.AST] = {}

                def bind(t: ast.AST, v: ast.AST) -> bool:
                    if isinstance(t, ast.Name):
                        bound[t.id] = subst_names(v, env)
                        return True
                    if isinstance(t, ast.Tuple) and isinstance(v, ast.Tuple) and len(t.elts) == len(v.elts):
                        return all(bind(a, b) for a, b in zip(t.elts, v.elts))
                    # (x,) * k unpacked into k names
                    if isinstance(t, ast.Tuple) and isinstance(v, ast.BinOp) and isinstance(v.op, ast.Mult) and isinstance(v.left, ast.Tuple) and len(v.left.elts) == 1 \
                            and isinstance(v.right, ast.Constant) and v.right.value == len(t.elts):
                        return all(bind(a, v.left.elts[0]) for a in t.elts)
                    return False

                if bind(tgts[0], st.value):
                    env.update(bound)
                    continue
        # anything else: forget the names it may rebind
        for sub in ast.walk(st):
            if isinstance(sub, ast.Name) and isinstance(sub.ctx, ast.Store):
                env.pop(sub.id, None)
    return env


def inlined_text(fi: FuncInfo, node: ast.AST) -> str:
    """``unparse`` of ``node`` with the function's simple locals (as of that statement) inlined."""
    return unparse(subst_names(node, flow_env(fi, node)))


# ----------------------------------------------------------------------------- shared mutable tables


_MUTATING_METHODS = {"append", "appendleft", "extend", "insert", "pop", "popleft", "remove", "clear", "update", "setdefault", "popitem", "sort", "reverse", "add", "discard"}


def _mutable_container_expr(val: ast.AST) -> bool:
    if isinstance(val, (ast.Dict, ast.List, ast.Set, ast.DictComp, ast.ListComp, ast.SetComp)):
        return True
    if isinstance(val, ast.Call):
        cn = call_name(val)
        return bool(cn) and cn[-1] in ("dict", "list", "set", "defaultdict", "deque", "OrderedDict", "Counter", "bytearray")
    return False


def shared_table_mutations(repo: "Repo", owner: str, name: str, module_level: bool = False) -> List[Tuple["FuncInfo", ast.AST, str]]:
    """Run-time mutation sites of the class-level (``owner`` = class name) or module-level (``owner`` = module name)
    container ``name``: mutator calls, item stores / deletes, augmented assignments and rebinding, directly through
    ``cls.name`` / ``self.name`` / ``Owner.name`` (or the bare name for a module table) or through a local alias."""
    out: List[Tuple[FuncInfo, ast.AST, str]] = []

    def is_ref(fi: "FuncInfo", node: ast.AST, aliases: set) -> bool:
        if isinstance(node, ast.Name):
            if node.id in aliases:
                return True
            return module_level and node.id == name and fi.module.name == owner
        if isinstance(node, ast.Attribute) and node.attr == name and not module_level:
            base = node.value
            if isinstance(base, ast.Name):
                if base.id == owner:
                    return True
                if base.id in ("cls", "self") and fi.cls is not None and any(c.name == owner for c in repo.mro(fi.cls.name)):
                    return True
                if fi.cls is not None and fi.params and base.id == fi.params[0] and not fi.is_static and any(c.name == owner for c in repo.mro(fi.cls.name)):
                    return True
            if isinstance(base, ast.Call) and unparse(base.func) in ("type", "super"):
                return True
        return False

    for fi in repo.all_funcs():
        aliases: set = set()
        for _ in range(2):
            for node in walk_no_nested(fi.node):
                if isinstance(node, (ast.Assign, ast.AnnAssign)) and node.value is not None:
                    vals = [node.value]
                    if isinstance(node.value, ast.IfExp):
                        vals = [node.value.body, node.value.orelse]
                    if any(is_ref(fi, v, aliases) for v in vals):
                        for t in (node.targets if isinstance(node, ast.Assign) else [node.target]):
                            if isinstance(t, ast.Name):
                                aliases.add(t.id)
        for node in walk_no_nested(fi.node):
            if isinstance(node, ast.Call) and isinstance(node.func, ast.Attribute) and node.func.attr in _MUTATING_METHODS and is_ref(fi, node.func.value, aliases):
                out.append((fi, node, f".{node.func.attr}()"))
            if isinstance(node, (ast.Assign, ast.AugAssign, ast.AnnAssign, ast.Delete)):
                tgts = node.targets if isinstance(node, (ast.Assign, ast.Delete)) else [node.target]
                for t in tgts:
                    for leaf in (t.elts if isinstance(t, (ast.Tuple, ast.List)) else [t]):
                        if isinstance(leaf, ast.Subscript) and is_ref(fi, leaf.value, aliases):
                            out.append((fi, node, "item store/delete"))
                        elif isinstance(leaf, ast.Attribute) and is_ref(fi, leaf, set()):
                            out.append((fi, node, "rebinding"))
                        elif isinstance(node, ast.AugAssign) and is_ref(fi, leaf, aliases):
                            out.append((fi, node, "augmented assignment"))
    return out


def shared_tables(repo: "Repo", class_names: List[str], module_names: List[str]) -> List[Tuple[str, str, bool, ast.AST]]:
    """(owner, name, module_level, value) for every class-/module-level mutable container of the given owners."""
    out = []
    for cn in class_names:
        ci = repo.classes.get(cn)
        if ci is None:
            raise AnalysisError(f"class {cn} vanished")
        for k, v in ci.assigns.items():
            if _mutable_container_expr(v):
                out.append((cn, k, False, v))
    for mn in module_names:
        m = repo.modules.get(mn)
        if m is None:
            raise AnalysisError(f"module {mn} vanished")
        for k, v in m.assigns.items():
            if _mutable_container_expr(v) and k != "__all__":
                out.append((mn, k, True, v))
    return out


def check_no_unreviewed_shared_state(ctx, rule: str, class_names: List[str], module_names: List[str], reviewed: Dict[str, str], what: str) -> None:
    """History independence, structural part: the classes/modules of a property own no container that is shared
    between calls and mutated at run time, except the reviewed ones (name -> reason).  An unreviewed one leaves the
    property undecided (its content may or may not be a function of the arguments alone)."""
    n = 0
    for owner, name, modlevel, val in shared_tables(ctx.repo, class_names, module_names):
        sites = shared_table_mutations(ctx.repo, owner, name, modlevel)
        key = f"{owner}.{name}"
        if not sites:
            ctx.ok(rule, key, f"{key} is never mutated at run time (constant table)")
            n += 1
            continue
        if key in reviewed:
            ctx.ok(rule, key, f"{key}: reviewed shared state – {reviewed[key]}")
            n += 1
            continue
        fi, node, how = sites[0]
        raise AnalysisError(f"{key} is shared between calls and mutated at run time ({how} in {fi.where}, line {getattr(node, 'lineno', '?')}, {len(sites)} site(s)): whether {what} stay independent of earlier calls is not decided")
    ctx.ok(rule, ",".join(class_names + module_names), f"no unreviewed container shared between calls in {class_names + module_names} ({n} table(s) examined)")


# ----------------------------------------------------------------------------- reach conditions


def reach_conditions(fi: "FuncInfo", wanted, classify):
    """For every node selected by ``wanted`` say under which polarity of the classified test it is reached
    ('T', 'F' or '?'): if/else, and `if C: ...; return` followed by the other case."""
    out = {}

    def flip(p):
        return {"T": "F", "F": "T"}.get(p, "?")

    def walk(stmts, cond):
        for i, st in enumerate(stmts):
            if isinstance(st, ast.If):
                p = classify(st.test)
                inner = (p if cond is None else "?") if p else cond
                walk(st.body, inner)
                walk(st.orelse, (flip(p) if cond is None else "?") if p else cond)
                ends = bool(st.body) and isinstance(st.body[-1], (ast.Return, ast.Raise, ast.Continue, ast.Break))
                if p and ends and not st.orelse and cond is None:
                    walk(stmts[i + 1:], flip(p))
                    return
                continue
            for n in ast.walk(st):
                if wanted(n):
                    out.setdefault(id(n), (n, set()))[1].add(cond if cond else "-")
    walk(fi.body, None)
    return [(n, (next(iter(c)) if len(c) == 1 else "?")) for n, c in out.values()]




# ----------------------------------------------------------------------------- dispatch by method reference


def method_reference_polarity(fi: "FuncInfo", names, classify):
    """Under which polarity of a classified two-way test is each of the methods ``names`` referenced (called directly, or
    selected as a bound-method value by a conditional expression) in ``fi``: {name: 'T' | 'F' | '?'}; None if some name is
    not referenced at all.  Understands if/else, `if C: ...; return` followed by the other case, and
    `a if C else b`."""
    refs = {nm: [n for n in walk_no_nested(fi.node) if isinstance(n, ast.Attribute) and n.attr == nm and isinstance(n.value, ast.Name)] for nm in names}
    if not all(refs.values()):
        return None
    out = {}

    def flip(p):
        return {"T": "F", "F": "T"}.get(p, "?")

    def walk(stmts, cond):
        for i, st in enumerate(stmts):
            if isinstance(st, ast.If):
                p = classify(st.test)
                walk(st.body, p if p and cond is None else (cond if p is None else "?"))
                walk(st.orelse, flip(p) if p and cond is None else (cond if p is None else "?"))
                ends = bool(st.body) and isinstance(st.body[-1], (ast.Return, ast.Raise, ast.Continue, ast.Break))
                if p and ends and not st.orelse and cond is None:
                    walk(stmts[i + 1:], flip(p))
                    return
                continue
            handled = set()
            for n in ast.walk(st):
                if isinstance(n, ast.IfExp):
                    p = classify(n.test)
                    for nm in names:
                        if any(isinstance(x, ast.Attribute) and x.attr == nm for x in ast.walk(n.body)):
                            out.setdefault(nm, set()).add(p if p and cond is None else "?")
                        if any(isinstance(x, ast.Attribute) and x.attr == nm for x in ast.walk(n.orelse)):
                            out.setdefault(nm, set()).add(flip(p) if p and cond is None else "?")
                    handled |= {id(x) for x in ast.walk(n)}
            for n in ast.walk(st):
                if isinstance(n, ast.Attribute) and n.attr in names and id(n) not in handled:
                    out.setdefault(n.attr, set()).add(cond if cond else "?")

    walk(fi.body, None)
    res = {}
    for nm in names:
        v = out.get(nm, {"?"})
        res[nm] = next(iter(v)) if len(v) == 1 else "?"
    return res


def parent_map(root: ast.AST) -> Dict[ast.AST, ast.AST]:
    """child node -> parent node for the subtree under ``root``."""
    out: Dict[ast.AST, ast.AST] = {}
    for p in ast.walk(root):
        for c in ast.iter_child_nodes(p):
            out[c] = p
    return out


# ----------------------------------------------------------------------------- binary search needs a sorted sequence


_BISECT = {"bisect", "bisect_left", "bisect_right", "insort", "insort_left", "insort_right"}


def check_bisect_preconditions(ctx, rule: str, module_names: List[str]) -> int:
    """Every binary search (bisect.*) in the given modules runs on a sequence that is sorted by construction:
    bound once from ``sorted(..)``, or a local list that starts empty / as a one-element display and is only ever grown
    through ``insert(<bisect position>, v)`` / ``insort``.  A sequence whose order is not established in the function
    leaves the rule undecided; one that is positively built in another order (append in a loop over a set, reversed,
    shuffled) is a violation.  Returns the number of call sites examined."""
    n_sites = 0
    for mn in module_names:
        mod = ctx.repo.modules.get(mn)
        if mod is None:
            raise AnalysisError(f"module {mn} vanished")
        for fi in ctx.repo.all_funcs():
            if fi.module is not mod:
                continue
            for call in walk_no_nested(fi.node):
                if not (isinstance(call, ast.Call) and call.args):
                    continue
                cn = call_name(call)
                if not cn or cn[-1] not in _BISECT or (len(cn) == 2 and cn[0] != "bisect") or len(cn) > 2:
                    continue
                if len(cn) == 1 and cn[0] in fi.params:
                    continue
                n_sites += 1
                seq = call.args[0]
                if not isinstance(seq, ast.Name):
                    raise AnalysisError(f"{fi.where}: `{unparse(call)[:60]}` searches `{unparse(seq)[:40]}`, whose order is not established in this function")
                name = seq.id
                binds = [st for st in walk_no_nested(fi.node) if isinstance(st, (ast.Assign, ast.AnnAssign)) and st.value is not None
                         and any(isinstance(t, ast.Name) and t.id == name for t in (st.targets if isinstance(st, ast.Assign) else [st.target]))]
                if name in fi.params or len(binds) != 1:
                    raise AnalysisError(f"{fi.where}: `{unparse(call)[:60]}` searches `{name}`, which is {'a parameter' if name in fi.params else f'bound {len(binds)} times'}: its order is not established in this function")
                v = binds[0].value
                muts = []
                for n in walk_no_nested(fi.node):
                    if isinstance(n, ast.Call) and isinstance(n.func, ast.Attribute) and isinstance(n.func.value, ast.Name) and n.func.value.id == name \
                            and n.func.attr in ("append", "extend", "insert", "sort", "reverse", "pop", "remove", "clear", "__setitem__"):
                        muts.append(n)
                    if isinstance(n, (ast.Assign, ast.AugAssign)):
                        for t in (n.targets if isinstance(n, ast.Assign) else [n.target]):
                            if isinstance(t, ast.Subscript) and isinstance(t.value, ast.Name) and t.value.id == name:
                                muts.append(n)
                if isinstance(v, ast.Call) and call_name(v) == ("sorted",) and not any(k.arg == "reverse" for k in v.keywords) and not any(k.arg == "key" for k in v.keywords):
                    bad = [m for m in muts if not (isinstance(m, ast.Call) and m.func.attr in ("pop", "remove"))]
                    if bad:
                        raise AnalysisError(f"{fi.where}: `{name}` is sorted when bound but modified afterwards (`{unparse(bad[0])[:50]}`)")
                    ctx.ok(rule, fi.where, f"`{unparse(call)[:50]}`: `{name}` is bound from sorted(..) and not reordered", call, fi)
                    continue
                if isinstance(v, ast.Call) and call_name(v) == ("sorted",):
                    raise AnalysisError(f"{fi.where}: `{name}` is sorted with a key / in reverse; whether that is the order the binary search assumes is not decided")
                if isinstance(v, ast.List) and len(v.elts) <= 1:
                    # grown only at the position a binary search on the same list returned
                    ok = True
                    for m in muts:
                        if isinstance(m, ast.Call) and m.func.attr == "insert" and len(m.args) == 2 and isinstance(m.args[0], ast.Name):
                            pos = m.args[0].id
                            pb = [st for st in walk_no_nested(fi.node) if isinstance(st, ast.Assign) and len(st.targets) == 1 and isinstance(st.targets[0], ast.Name) and st.targets[0].id == pos]
                            if len(pb) == 1 and isinstance(pb[0].value, ast.Call) and call_name(pb[0].value) and call_name(pb[0].value)[-1] in ("bisect", "bisect_left", "bisect_right") \
                                    and unparse(pb[0].value.args[0]) == name and len(pb[0].value.args) == 2 and unparse(pb[0].value.args[1]) == unparse(m.args[1]):
                                continue
                        ok = False
                        offender = m
                        break
                    if ok:
                        ctx.ok(rule, fi.where, f"`{unparse(call)[:50]}`: `{name}` starts with at most one element and grows only by insertion at the position found by binary search", call, fi)
                        continue
                    if isinstance(offender, ast.Call) and offender.func.attr in ("append", "extend", "reverse"):
                        raise AnalysisError(f"{fi.where}: `{name}` is grown by `{unparse(offender)[:50]}`; that it stays sorted for `{unparse(call)[:40]}` is not decided")
                    raise AnalysisError(f"{fi.where}: `{name}` is modified by `{unparse(offender)[:50]}`; sortedness not decided")
                if isinstance(v, ast.Call) and call_name(v) in (("list",), ("tuple",)) and len(v.args) == 1 and isinstance(v.args[0], ast.Call) and call_name(v.args[0]) in (("set",), ("frozenset",)):
                    ctx.violation(rule, fi, call, f"`{unparse(call)[:60]}` runs a binary search on `{name}` = `{unparse(v)[:40]}`: the iteration order of a set is not sorted", robust=True)
                    continue
                raise AnalysisError(f"{fi.where}: `{unparse(call)[:60]}` searches `{name}` = `{unparse(v)[:50]}`, whose order is not established in this function")
    return n_sites


def ct(src: str) -> str:
    """Canonical text of a piece of source (expression or statement): what ``unparse`` gives for it once the module it sits in
    has gone through sa.canon – used by rules to write the expected text independently of the canonical form's details."""
    from .canon import Canon

    tree = ast.parse(src)
    new = Canon().visit(tree)
    ast.fix_missing_locations(new)
    if len(new.body) == 1 and isinstance(new.body[0], ast.Expr):
        return ast.unparse(new.body[0].value)
    return "\n".join(ast.unparse(s) for s in new.body)


# ----------------------------------------------------------------------------- textual expectations: point change or restructured?

import re as _re

_TOK = _re.compile(r"[A-Za-z_][A-Za-z_0-9]*|\d+|\S")


def token_distance(a: str, b: str) -> int:
    """Levenshtein distance between the token sequences of two pieces of canonical source text."""
    x, y = _TOK.findall(a), _TOK.findall(b)
    prev = list(range(len(y) + 1))
    for i, tx in enumerate(x, 1):
        cur = [i]
        for j, ty in enumerate(y, 1):
            cur.append(min(prev[j] + 1, cur[j - 1] + 1, prev[j - 1] + (tx != ty)))
        prev = cur
    return prev[-1]


def near_text(got, wants, k: int = 3) -> bool:
    """Is ``got`` (text or list of statement texts) within ``k`` token edits of one of the expected spellings?  Rules that expect a
    particular text use this to tell a point change of it (evidence of a defect) from restructured code (no evidence)."""
    g = "; ".join(got) if isinstance(got, (list, tuple)) else str(got)
    for w in wants:
        wt = "; ".join(w) if isinstance(w, (list, tuple)) else str(w)
        if token_distance(g, wt) <= k:
            return True
    return False


def deviates(ctx, rule: str, fi, node, got, wants, message: str, k: int = 3, absent_is_violation: bool = True) -> None:
    """``got`` is not one of ``wants``: report a violation when it is a small edit of an expected spelling (or is absent
    altogether), otherwise say the construct was not recognised (undecided)."""
    absent = got is None or got == [] or got == ""
    if (absent and absent_is_violation) or (not absent and near_text(got, wants, k)):
        ctx.violation(rule, fi, node, message, robust=True)
        return
    shown = "; ".join(got) if isinstance(got, (list, tuple)) else str(got)
    raise AnalysisError(f"{fi.where}: `{shown[:90]}` is not the expected construct nor a small edit of it ({rule}: {message[:80]})")


# ----------------------------------------------------------------------------- existence is not truthiness


def truthiness_of_elements(fi: "FuncInfo", listing_names) -> List[Tuple[ast.AST, str]]:
    """Places where the *truth value* of an element of a listing (a call of one of ``listing_names``) is used where its existence
    is meant: ``any(L(..))`` / ``all(..)`` over the listing itself, ``next(L(..), default)`` in a boolean position (if / while /
    not / and / or / bool()) without an identity comparison.  The elements of such listings can be falsy (the empty tuple is the
    one occurrence of the empty pattern, 0 is a start index)."""
    out: List[Tuple[ast.AST, str]] = []

    def is_listing(e: ast.AST) -> bool:
        return isinstance(e, ast.Call) and isinstance(e.func, (ast.Attribute, ast.Name)) and (e.func.attr if isinstance(e.func, ast.Attribute) else e.func.id) in listing_names

    parents: Dict[ast.AST, ast.AST] = {}
    for p in ast.walk(fi.node):
        for c in ast.iter_child_nodes(p):
            parents[c] = p

    def boolean_position(n: ast.AST) -> bool:
        p = parents.get(n)
        if isinstance(p, (ast.If, ast.While, ast.IfExp)) and p.test is n:
            return True
        if isinstance(p, ast.UnaryOp) and isinstance(p.op, ast.Not):
            return True
        if isinstance(p, ast.BoolOp):
            return boolean_position(p) or True
        if isinstance(p, ast.Call) and isinstance(p.func, ast.Name) and p.func.id == "bool":
            return True
        if isinstance(p, (ast.GeneratorExp, ast.ListComp)) and p.elt is n:
            q = parents.get(p)
            return isinstance(q, ast.Call) and isinstance(q.func, ast.Name) and q.func.id in ("any", "all")
        if isinstance(p, ast.comprehension) and n in p.ifs:
            return True
        return False

    for n in walk_no_nested(fi.node):
        if isinstance(n, ast.Call) and isinstance(n.func, ast.Name) and n.func.id in ("any", "all") and len(n.args) == 1 and is_listing(n.args[0]):
            out.append((n, f"`{unparse(n)[:70]}` tests the truth value of the listed elements"))
        if isinstance(n, ast.Call) and isinstance(n.func, ast.Name) and n.func.id == "next" and len(n.args) == 2 and (is_listing(n.args[0]) or (isinstance(n.args[0], ast.Call) and isinstance(n.args[0].func, ast.Name)
                                                                                                                 and n.args[0].func.id == "iter" and n.args[0].args and is_listing(n.args[0].args[0]))):
            if boolean_position(n):
                out.append((n, f"`{unparse(n)[:70]}` is used for its truth value"))
    return out
