"""C14 – pin words decode to their pin permutations: handler table, geometric templates,
decode-without-failure typestate, inverse tables."""

from __future__ import annotations

import ast
from typing import Dict, List, Optional, Set, Tuple

from ..core import deviates, AnalysisError, FuncInfo, Repo, attr_chain, call_name, const_value, is_const, unparse, walk_no_nested
from ..report import Ctx
from ..skelrules import check_skeleton

PROP = "C14"
FLOORS = {"C14-H1": 2, "C14-H2": 8, "C14-H3": 4, "C14-H4": 70, "C14-H5": 3, "C14-T1": 4}

EXPLANATION = (
    "Decided: (a) each numeral places an independent pin in the named quadrant beyond all earlier pins and each direction letter places a pin that separates "
    "the previous pin from all earlier ones on the named side – as agreement of the eight handlers with the geometric table (H1 handler table = the two "
    "alphabets, H2 numeral template over the extremes of ALL placed pins, H3 direction template: midpoint with the extreme of the EARLIER pins on the side "
    "where the previous pin lies, new coordinate beyond all pins on the named side); (b) every enumerated pin word decodes without failure – a typestate "
    "argument over a finite state space: what each handler requires of the previous pin is established by every letter the enumerator allows before it "
    "(9 histories x 8 letters), and a sign analysis over {neg, zero, pos} with the origin in the list shows the decoder's zero-coordinate failure test can "
    "never fire (H4); the decode epilogue is standardisation by x then rank of y (H5); (c) the word->permutation and permutation->words tables are inverse "
    "by construction and memoised on the length alone (T1). NOT decided: (d) that pattern containment is reflected by the factor-by-factor word search "
    "(pinword_occurrences*, quadrant) and (e) that sp_to_m / m_to_sp are mutually inverse (only the agreement of their two letter tables is checked)."
)

QUADRANT = {"1": ("max", "max"), "2": ("min", "max"), "3": ("min", "min"), "4": ("max", "min")}  # (x extreme, y extreme); +1 beyond max, -1 beyond min
DIRECTION = {"U": ("x", "y", "max"), "D": ("x", "y", "min"), "L": ("y", "x", "min"), "R": ("y", "x", "max")}  # (separating coord, advancing coord, side)


# ----------------------------------------------------------------------------- abstract coordinate expressions


class Coord:
    """kind: 'beyond' (ext(all|earlier) +/- 1)  or  'mid' (half * (last_c + ext(scope)))"""

    def __init__(self, kind: str, fn: str, axis: str, scope: str, sign: int = 0, last_axis: str = ""):
        self.kind, self.fn, self.axis, self.scope, self.sign, self.last_axis = kind, fn, axis, scope, sign, last_axis

    def __repr__(self) -> str:
        if self.kind == "beyond":
            return f"{self.fn.upper()}{self.axis.upper()}({self.scope}){'+1' if self.sign > 0 else '-1'}"
        return f"mid(last_{self.last_axis}, {self.fn.upper()}{self.axis.upper()}({self.scope}))"


class Extractor:
    def __init__(self, repo: Repo):
        self.repo = repo
        self.util = repo.cls("PinWordUtil")
        self.helpers = self._helpers()
        self.consts = self._consts()

    def _helpers(self) -> Dict[str, Tuple[str, str]]:
        """min_x/max_x/min_y/max_y -> (fn, axis) read from their bodies."""
        out = {}
        for name, fi in self.util.methods.items():
            body = fi.body
            if len(body) == 1 and isinstance(body[0], ast.Return) and isinstance(body[0].value, ast.Subscript):
                sub = body[0].value
                call = sub.value
                if isinstance(call, ast.Call) and call_name(call) in (("min",), ("max",)) and len(call.args) == 1 and unparse(call.args[0]) == fi.params[-1]:
                    key = next((k.value for k in call.keywords if k.arg == "key"), None)
                    if isinstance(key, ast.Lambda) and isinstance(key.body, ast.Subscript) and is_const(key.body.slice) and is_const(sub.slice):
                        kidx, ridx = const_value(key.body.slice), const_value(sub.slice)
                        out[name] = (call_name(call)[0], "xy"[kidx] if kidx in (0, 1) else "?", "xy"[ridx] if ridx in (0, 1) else "?")
        return out

    def _consts(self) -> Dict[str, Tuple[int, int]]:
        init = self.util.methods.get("__init__")
        out = {}
        if init is None:
            return out
        for st in init.body:
            if isinstance(st, ast.Assign) and isinstance(st.value, ast.Call) and call_name(st.value) == ("Fraction",) and len(st.value.args) == 2:
                ch = attr_chain(st.targets[0])
                if ch and len(ch) == 2:
                    try:
                        out[ch[1]] = (const_value(st.value.args[0]), const_value(st.value.args[1]))
                    except ValueError:
                        pass
        return out

    def ext(self, fi: FuncInfo, node: ast.AST, lst: str) -> Tuple[str, str, str]:
        """PinWordUtil.max_x(pre_perm[:-1]) -> ('max', 'x', 'earlier')"""
        if isinstance(node, ast.Call):
            cn = call_name(node)
            if cn and cn[-1] in self.helpers and len(node.args) == 1:
                fn, kaxis, raxis = self.helpers[cn[-1]]
                if kaxis != raxis:
                    raise AnalysisError(f"PinWordUtil.{cn[-1]}: selects by coordinate {kaxis} but returns coordinate {raxis}")
                arg = unparse(node.args[0])
                if arg == lst:
                    return fn, kaxis, "all"
                if arg == f"{lst}[:-1]":
                    return fn, kaxis, "earlier"
                raise AnalysisError(f"{fi.where}: extreme over `{arg}`")
        raise AnalysisError(f"{fi.where}: `{unparse(node)}` is not an extreme of the placed pins")

    def coord(self, fi: FuncInfo, node: ast.AST, lst: str, lasts: Dict[str, str]) -> Coord:
        self_n = fi.params[0]
        if isinstance(node, ast.BinOp) and isinstance(node.op, (ast.Add, ast.Sub)) and unparse(node.right) == f"{self_n}.one":
            fn, axis, scope = self.ext(fi, node.left, lst)
            return Coord("beyond", fn, axis, scope, 1 if isinstance(node.op, ast.Add) else -1)
        if isinstance(node, ast.BinOp) and isinstance(node.op, ast.Mult):
            a, b = node.left, node.right
            if unparse(b) == f"{self_n}.half":
                a, b = b, a
            if unparse(a) == f"{self_n}.half" and isinstance(b, ast.BinOp) and isinstance(b.op, ast.Add):
                l, r = b.left, b.right
                if isinstance(r, ast.Name) and r.id in lasts:
                    l, r = r, l
                if isinstance(l, ast.Name) and l.id in lasts:
                    fn, axis, scope = self.ext(fi, r, lst)
                    return Coord("mid", fn, axis, scope, 0, lasts[l.id])
        raise AnalysisError(f"{fi.where}: coordinate `{unparse(node)}` is neither `extreme +/- one` nor `half * (last + extreme)`")


class Handler:
    def __init__(self) -> None:
        self.branches: List[Tuple[Optional[Tuple[str, str, str, str, str]], Coord, Coord, ast.AST]] = []  # (cond, x, y, node); cond = (last_axis, op, fn, axis, scope)
        self.else_fails = False


def extract_handler(ex: Extractor, fi: FuncInfo) -> Handler:
    h = Handler()
    lst = fi.params[1]
    lasts: Dict[str, str] = {}
    body = fi.body
    for st in body:
        if isinstance(st, ast.Assign) and isinstance(st.targets[0], ast.Tuple) and unparse(st.value) == f"{lst}[-1]":
            elts = st.targets[0].elts
            if len(elts) == 2:
                if isinstance(elts[0], ast.Name) and elts[0].id != "_":
                    lasts[elts[0].id] = "x"
                if isinstance(elts[1], ast.Name) and elts[1].id != "_":
                    lasts[elts[1].id] = "y"

    def xy_from(stmts) -> Tuple[Coord, Coord]:
        env = {}
        for st in stmts:
            if isinstance(st, ast.Assign) and isinstance(st.targets[0], ast.Name):
                env[st.targets[0].id] = st.value
        rets = [st for st in body if isinstance(st, ast.Return)]
        if len(rets) != 1 or not isinstance(rets[0].value, ast.Tuple) or len(rets[0].value.elts) != 2:
            raise AnalysisError(f"{fi.where}: handler does not return a coordinate pair")
        xs, ys = rets[0].value.elts
        xn = env.get(unparse(xs), xs)
        yn = env.get(unparse(ys), ys)
        return ex.coord(fi, xn, lst, lasts), ex.coord(fi, yn, lst, lasts)

    ifs = [st for st in body if isinstance(st, ast.If)]
    if not ifs:
        x, y = xy_from(body)
        h.branches.append((None, x, y, fi.node))
        return h
    if len(ifs) != 1:
        raise AnalysisError(f"{fi.where}: more than one case analysis")
    cur: Optional[ast.If] = ifs[0]
    while cur is not None:
        t = cur.test
        if not (isinstance(t, ast.Compare) and len(t.ops) == 1):
            raise AnalysisError(f"{fi.where}: branch condition `{unparse(t)}` not recognised")
        # `last OP extreme` or, the other way round, `extreme OP' last`
        if isinstance(t.left, ast.Name) and t.left.id in lasts:
            last_n, other = t.left, t.comparators[0]
            op = {ast.Gt: ">", ast.GtE: ">=", ast.Lt: "<", ast.LtE: "<="}.get(type(t.ops[0]))
        elif isinstance(t.comparators[0], ast.Name) and t.comparators[0].id in lasts:
            last_n, other = t.comparators[0], t.left
            op = {ast.Gt: "<", ast.GtE: "<=", ast.Lt: ">", ast.LtE: ">="}.get(type(t.ops[0]))
        else:
            raise AnalysisError(f"{fi.where}: branch condition `{unparse(t)}` not recognised")
        if op is None:
            raise AnalysisError(f"{fi.where}: branch operator not recognised")
        fn, axis, scope = ex.ext(fi, other, lst)
        x, y = xy_from(cur.body)
        h.branches.append(((lasts[last_n.id], op, fn, axis, scope), x, y, cur))
        nxt = cur.orelse
        if len(nxt) == 1 and isinstance(nxt[0], ast.If):
            cur = nxt[0]
        else:
            h.else_fails = len(nxt) == 1 and isinstance(nxt[0], ast.Assert) and is_const(nxt[0].test, False) or (len(nxt) == 1 and isinstance(nxt[0], ast.Raise))
            if nxt and not h.else_fails:
                raise AnalysisError(f"{fi.where}: fallback branch not recognised")
            cur = None
    return h


# ----------------------------------------------------------------------------- rules


def run(ctx: Ctx) -> None:
    ex = ctx.run(Extractor, ctx.repo)
    if ex is None:
        return
    handlers = ctx.run(rule_h1, ctx, ex)
    if handlers:
        descr = ctx.run(rule_h2_h3, ctx, ex, handlers)
        if descr:
            ctx.run(rule_h4, ctx, ex, descr)
    ctx.run(rule_h5, ctx)
    ctx.run(rule_t1, ctx)
    ctx.assume("Fraction arithmetic is exact; the origin (0, 0) is the first element of the pin list during decoding (checked by H4)")


def alphabet_consts(repo: Repo) -> Tuple[str, str]:
    mod = repo.module("permuta.permutils.pin_words")
    try:
        return const_value(mod.assigns["DIRS"]), const_value(mod.assigns["QUADS"])
    except (KeyError, ValueError):
        raise AnalysisError("alphabet constants DIRS / QUADS of pin_words.py not found")


def rule_h1(ctx: Ctx, ex: Extractor) -> Optional[Dict[str, FuncInfo]]:
    repo = ctx.repo
    dirs, quads = alphabet_consts(repo)
    init = repo.need_method("PinWordUtil", "__init__")
    table = None
    for st in init.body:
        tgt = st.target if isinstance(st, ast.AnnAssign) else (st.targets[0] if isinstance(st, ast.Assign) else None)
        if tgt is not None and unparse(tgt) == f"{init.params[0]}.caller" and isinstance(st.value, ast.Dict):
            table = st
    if table is None:
        raise AnalysisError(f"{init.where}: handler table not found")
    keys = [const_value(k) for k in table.value.keys]
    vals = [attr_chain(v) for v in table.value.values]
    want = set(dirs) | set(quads)
    if set(keys) != want or len(keys) != len(set(keys)):
        ctx.violation("C14-H1", init, table, f"handler table has keys {sorted(keys)}; the alphabets are {sorted(want)} (missing {sorted(want - set(keys))}, extra {sorted(set(keys) - want)})", robust=True)
        return None
    handlers: Dict[str, FuncInfo] = {}
    for k, v in zip(keys, vals):
        if not v or len(v) != 2:
            raise AnalysisError(f"{init.where}: handler for {k!r} is not a bound method")
        m = ex.util.methods.get(v[1])
        if m is None:
            raise AnalysisError(f"PinWordUtil.{v[1]} vanished")
        handlers[k] = m
    if len({m.name for m in handlers.values()}) != len(handlers):
        ctx.violation("C14-H1", init, table, "two letters share one handler", robust=True)
        return None
    ctx.ok("C14-H1", init.where, f"handler table keys = QUADS + DIRS ({''.join(sorted(keys))}), eight distinct handlers", table, init)
    call = repo.need_method("PinWordUtil", "call")
    ctx.run(check_skeleton, ctx, "C14-H1", call, ["return self.caller[a0](a1)"], "call(char, pins) dispatches through the table")
    for nm, want_c in (("one", (1, 1)), ("half", (1, 2))):
        if ex.consts.get(nm) != want_c:
            ctx.violation("C14-H1", init, init.node, f"self.{nm} is Fraction{ex.consts.get(nm)}; the templates need Fraction{want_c}", robust=True)
    for name, (fn, kaxis, raxis) in ex.helpers.items():
        exp = name.split("_")
        if len(exp) == 2 and exp[0] in ("min", "max") and exp[1] in ("x", "y"):
            if (fn, kaxis, raxis) == (exp[0], exp[1], exp[1]):
                ctx.ok("C14-H1", f"{ex.util.where}.{name}", f"{name} = {fn} over coordinate {kaxis}")
            else:
                f = ex.util.methods[name]
                ctx.violation("C14-H1", f, f.node, f"{name} computes {fn} by coordinate {kaxis} and returns coordinate {raxis}", robust=True)
    return handlers


def rule_h2_h3(ctx: Ctx, ex: Extractor, handlers: Dict[str, FuncInfo]) -> Optional[Dict[str, Handler]]:
    out: Dict[str, Handler] = {}
    ok = True
    for letter, fi in sorted(handlers.items()):
        try:
            h = extract_handler(ex, fi)
        except AnalysisError as exc:
            ctx.undecided.append(str(exc))
            ok = False
            continue
        out[letter] = h
        if letter in QUADRANT:
            xe, ye = QUADRANT[letter]
            if len(h.branches) != 1 or h.branches[0][0] is not None:
                ctx.violation("C14-H2", fi, fi.node, f"numeral {letter} makes a case analysis; an independent pin is placed unconditionally", robust=True)
                ok = False
                continue
            _c, x, y, node = h.branches[0]
            for axis, got, want in (("x", x, xe), ("y", y, ye)):
                good = got.kind == "beyond" and got.axis == axis and got.scope == "all" and got.fn == want and got.sign == (1 if want == "max" else -1)
                if good:
                    ctx.ok("C14-H2", fi.where, f"numeral {letter}: {axis} = {got!r} (beyond all earlier pins, origin included)", fi.node, fi)
                else:
                    ok = False
                    quadname = {"1": "north-east", "2": "north-west", "3": "south-west", "4": "south-east"}[letter]
                    ctx.violation("C14-H2", fi, fi.node, f"numeral {letter} ({quadname} quadrant) sets {axis} = {got!r}; it must be {want.upper()}{axis.upper()}(all){'+1' if want == 'max' else '-1'}", robust=True)
        else:
            c, d, side = DIRECTION[letter]
            if len(h.branches) != 2 or not h.else_fails:
                ctx.violation("C14-H3", fi, fi.node, f"direction {letter}: expected the two cases 'previous pin beyond the maximum / below the minimum of the earlier pins' and failure otherwise", robust=True)
                ok = False
                continue
            seen = set()
            good_all = True
            for cond, x, y, node in h.branches:
                new_c, new_d = (x, y) if c == "x" else (y, x)
                la, op, fn, axis, scope = cond
                problems = []
                if la != c or axis != c or scope != "earlier":
                    problems.append(f"case tests last_{la} against {fn.upper()}{axis.upper()}({scope}); it must compare the previous pin's {c} with the extreme {c} of the EARLIER pins")
                if (op, fn) not in ((">", "max"), ("<", "min")):
                    problems.append(f"case condition is `last_{la} {op} {fn.upper()}{axis.upper()}`; the previous pin must lie strictly beyond the earlier ones (> max or < min)")
                seen.add(fn)
                if not (new_c.kind == "mid" and new_c.last_axis == c and new_c.axis == c and new_c.scope == "earlier" and new_c.fn == fn):
                    problems.append(f"{c} = {new_c!r}; the new pin must separate the previous pin from the earlier ones: mid(last_{c}, {fn.upper()}{c.upper()}(earlier))")
                want_sign = 1 if side == "max" else -1
                if not (new_d.kind == "beyond" and new_d.axis == d and new_d.scope == "all" and new_d.fn == side and new_d.sign == want_sign):
                    problems.append(f"{d} = {new_d!r}; it must lie beyond all pins on the named side: {side.upper()}{d.upper()}(all){'+1' if want_sign > 0 else '-1'}")
                if problems:
                    good_all = False
                    for p in problems:
                        ctx.violation("C14-H3", fi, node, f"direction {letter}: {p}", robust=True)
            if seen != {"max", "min"}:
                good_all = False
                ctx.violation("C14-H3", fi, fi.node, f"direction {letter} handles only the case(s) {sorted(seen)}", robust=True)
            if good_all:
                ctx.ok("C14-H3", fi.where, f"direction {letter}: separates in {c} (midpoint with the earlier extreme on the previous pin's side), advances {d} beyond {side.upper()}{d.upper()}(all)", fi.node, fi)
            else:
                ok = False
    return out if ok else None


# ----------------------------------------------------------------------------- H4 typestate


def eval_guard(node: ast.AST, word_var: str, history: Optional[str]) -> bool:
    """Evaluate the guard of a yield over an abstract history (None = empty word, else its last letter)."""
    if isinstance(node, ast.BoolOp):
        # short-circuit evaluation, as Python does
        if isinstance(node.op, ast.And):
            for v in node.values:
                if not eval_guard(v, word_var, history):
                    return False
            return True
        for v in node.values:
            if eval_guard(v, word_var, history):
                return True
        return False
    if isinstance(node, ast.UnaryOp) and isinstance(node.op, ast.Not):
        return not eval_guard(node.operand, word_var, history)
    if isinstance(node, ast.Name) and node.id == word_var:
        return history is not None
    if isinstance(node, ast.Compare) and len(node.ops) == 1:
        l, r, op = node.left, node.comparators[0], node.ops[0]
        if isinstance(l, ast.Constant) and not isinstance(r, ast.Constant) and type(op) in (ast.Lt, ast.LtE, ast.Gt, ast.GtE, ast.Eq, ast.NotEq):
            # constant on the left: read the comparison the other way round
            l, r = r, l
            op = {ast.Lt: ast.Gt, ast.LtE: ast.GtE, ast.Gt: ast.Lt, ast.GtE: ast.LtE, ast.Eq: ast.Eq, ast.NotEq: ast.NotEq}[type(op)]()
        lt = unparse(l)
        if lt == f"len({word_var})" and isinstance(r, ast.Constant):
            n_lo = 0 if history is None else 1  # length is 0 or >= 1
            k = r.value
            if isinstance(op, ast.Gt):
                if k == 0:
                    return history is not None
            if isinstance(op, ast.GtE) and k == 1:
                return history is not None
            if isinstance(op, ast.NotEq) and k == 0:
                return history is not None
            if isinstance(op, ast.Eq) and k == 0:
                return history is None
            if isinstance(op, ast.Lt) and k == 1:
                return history is None
            if isinstance(op, ast.LtE) and k == 0:
                return history is None
            raise AnalysisError(f"length test `{unparse(node)}` not evaluable on abstract histories")
        if lt == f"{word_var}[-1]" and isinstance(r, ast.Constant) and isinstance(r.value, str):
            if history is None:
                raise IndexError("word[-1] on the empty word")
            if isinstance(op, ast.NotEq):
                return history != r.value
            if isinstance(op, ast.Eq):
                return history == r.value
            if isinstance(op, ast.NotIn):
                return history not in r.value
            if isinstance(op, ast.In):
                return history in r.value
        if lt == f"{word_var}[-1]" and isinstance(r, ast.Name) and isinstance(op, (ast.In, ast.NotIn)):
            raise AnalysisError("membership in a named alphabet: resolve first")
    raise AnalysisError(f"guard `{unparse(node)}` not evaluable on abstract histories")


def rule_h4(ctx: Ctx, ex: Extractor, descr: Dict[str, Handler]) -> None:
    repo = ctx.repo
    dirs, quads = alphabet_consts(repo)
    gen = repo.need_method("PinWords", "pinwords_of_length")
    # ---- requires / establishes from the extracted handlers
    requires: Dict[str, Set[str]] = {}
    establishes: Dict[str, Set[str]] = {}
    for letter, h in descr.items():
        req: Set[str] = set()
        est: Set[str] = set()
        for cond, x, y, _n in h.branches:
            if cond is not None:
                req.add(f"{cond[0]}-extreme")
                req.add("previous-pin")
            for axis, co in (("x", x), ("y", y)):
                if co.kind == "beyond" and co.scope == "all" and ((co.fn == "max" and co.sign > 0) or (co.fn == "min" and co.sign < 0)):
                    est.add(f"{axis}-extreme")
        # established only if every branch establishes it
        for axis in ("x", "y"):
            if not all(any(True for a, co in (("x", bx), ("y", by)) if a == axis and co.kind == "beyond" and co.scope == "all" and ((co.fn == "max" and co.sign > 0) or (co.fn == "min" and co.sign < 0))) for _c, bx, by, _n in h.branches):
                est.discard(f"{axis}-extreme")
        est.add("previous-pin")
        requires[letter], establishes[letter] = req, est
    # ---- the enumerator's grammar
    loops = [n for n in walk_no_nested(gen.node) if isinstance(n, ast.For)]
    outer = [l for l in loops if isinstance(l.iter, ast.Call) and call_name(l.iter) and call_name(l.iter)[-1] == "pinwords_of_length"]
    if len(outer) != 1:
        raise AnalysisError(f"{gen.where}: recursion over shorter words not recognised")
    lp = outer[0]
    word = unparse(lp.target)
    if unparse(lp.iter.args[0]) != f"{gen.params[1]} - 1":
        ctx.violation("C14-H4", gen, lp, f"words of length n are built from words of length `{unparse(lp.iter.args[0])}`", robust=True)
        return
    base = [st for st in gen.body if isinstance(st, ast.If)]
    if not (base and unparse(base[0].test) == f"{gen.params[1]} == 0" and unparse(base[0].body[0]) in ("yield ''",)):
        raise AnalysisError(f"{gen.where}: base case `length == 0 -> ''` not recognised")
    yields: Dict[str, List[ast.AST]] = {}

    def collect(stmts, guards: List[ast.AST]) -> None:
        for st in stmts:
            if isinstance(st, ast.If):
                collect(st.body, guards + [st.test])
                if st.orelse:
                    collect(st.orelse, guards + [ast.UnaryOp(op=ast.Not(), operand=st.test)])
            elif isinstance(st, ast.For):
                # for char in QUADS: yield word + char
                it = unparse(st.iter)
                letters = {"QUADS": quads, "DIRS": dirs}.get(it)
                if letters is None and isinstance(st.iter, ast.Constant):
                    letters = st.iter.value
                if letters is None:
                    raise AnalysisError(f"{gen.where}: loop over `{it}`")
                for sub in st.body:
                    if isinstance(sub, ast.Expr) and isinstance(sub.value, ast.Yield) and unparse(sub.value.value) == f"{word} + {unparse(st.target)}":
                        for ch in letters:
                            yields.setdefault(ch, []).append(_conj(guards))
                    else:
                        raise AnalysisError(f"{gen.where}: statement in letter loop")
            elif isinstance(st, ast.Expr) and isinstance(st.value, ast.Yield):
                v = st.value.value
                if isinstance(v, ast.BinOp) and isinstance(v.op, ast.Add) and unparse(v.left) == word and isinstance(v.right, ast.Constant):
                    yields.setdefault(v.right.value, []).append(_conj(guards))
                else:
                    raise AnalysisError(f"{gen.where}: yield `{unparse(v)}` is not word + letter")
            else:
                raise AnalysisError(f"{gen.where}: statement `{unparse(st)[:50]}`")

    collect(lp.body, [])
    alphabet = set(dirs) | set(quads)
    if set(yields) != alphabet:
        ctx.violation("C14-H4", gen, lp, f"the enumerator appends the letters {sorted(yields)}; the alphabet is {sorted(alphabet)}", robust=True)
        return
    for ch, gs in yields.items():
        if len(gs) != 1:
            ctx.violation("C14-H4", gen, lp, f"letter {ch} is appended at {len(gs)} places: words would be enumerated more than once", robust=True)
            return
    # ---- (i) every allowed transition is safe; (ia) numerals are always allowed (independent pins)
    histories: List[Optional[str]] = [None] + sorted(alphabet)
    cells = 0
    for hist in histories:
        est = set() if hist is None else establishes[hist]
        for ch in sorted(alphabet):
            g = yields[ch][0]
            try:
                allowed = True if g is None else eval_guard(g, word, hist)
            except IndexError:
                ctx.violation("C14-H4", gen, lp, f"guard of letter {ch} indexes word[-1] on the empty word", robust=True)
                return
            cells += 1
            where = f"{gen.where}[{hist or 'empty'}->{ch}]"
            if allowed:
                missing = requires[ch] - est
                if missing:
                    ctx.violation("C14-H4", gen, lp, f"the enumerator allows {ch!r} after {hist or 'the empty word'!r}, but the handler of {ch} requires {sorted(missing)} which {('the handler of ' + hist) if hist else 'an empty pin list'} does not establish: decoding this word fails", robust=True)
                else:
                    ctx.ok("C14-H4", where, f"allowed; requires {sorted(requires[ch]) or '{}'} subset of established {sorted(est) or '{}'}")
            else:
                # completeness of the language: a forbidden transition must really be undecodable, otherwise valid pin words are lost
                if not (requires[ch] - est):
                    ctx.violation("C14-H4", gen, lp, f"the enumerator forbids {ch!r} after {hist or 'the empty word'!r} although its handler's requirements are met: valid pin words are not enumerated", robust=True)
                else:
                    ctx.ok("C14-H4", where, f"forbidden; handler would lack {sorted(requires[ch] - est)}")
    # ---- (ii) the zero-coordinate failure test cannot fire (sign analysis; origin in the list => MAX >= 0 >= MIN)
    for letter, h in sorted(descr.items()):
        for cond, x, y, node in h.branches:
            for axis, co in (("x", x), ("y", y)):
                sgn = sign_of(co, cond)
                fi = ex.util.methods[[m for m in ex.util.methods if ex.util.methods[m] is not None and m.startswith("char_") and m[-1].upper() == letter.upper()][0]] if False else None
                if sgn in ("pos", "neg"):
                    ctx.ok("C14-H4", f"{ex.util.where}.char_{letter.lower()}", f"{axis} = {co!r} is {sgn} (never zero) given MAX >= 0 >= MIN")
                else:
                    hf = [m for k, m in ex.util.methods.items() if k == f"char_{letter.lower()}"]
                    target = hf[0] if hf else None
                    if target is not None:
                        ctx.violation("C14-H4", target, node if hasattr(node, "lineno") else target.node, f"letter {letter}: {axis} = {co!r} may be zero under its case condition; the decoder rejects a pin with a zero coordinate, so an enumerated word can fail to decode", robust=True)
    # ---- the origin stays in the list until the epilogue
    dec = repo.need_method("PinWords", "pinword_to_perm")
    import re as _re

    init = [st for st in dec.body if isinstance(st, ast.Assign) and isinstance(st.value, ast.List) and len(st.value.elts) == 1]
    origin_txt = unparse(init[0].value).replace(" ", "") if init else ""
    if not init or not (_re.fullmatch(r"\[\((\w+)\.rzero\(\),\1\.rzero\(\)\)\]", origin_txt) or origin_txt in ("[(0,0)]", "[(Fraction(0,1),Fraction(0,1))]")):
        raise AnalysisError(f"{dec.where}: pin list is not initialised with the origin only")
    lst = unparse(init[0].targets[0])
    rz = repo.need_method("PinWordUtil", "rzero")
    if unparse(rz.body[0]) not in ("return Fraction(0, 1)", "return Fraction(0)"):
        ctx.violation("C14-H4", rz, rz.node, "rzero() is not the fraction zero: the origin is misplaced", robust=True)
    loop = [st for st in dec.body if isinstance(st, ast.For)]
    if len(loop) != 1:
        raise AnalysisError(f"{dec.where}: decode loop not recognised")
    for n in ast.walk(loop[0]):
        if isinstance(n, ast.Call) and call_name(n) and call_name(n)[0] == lst and call_name(n)[-1] in ("pop", "remove", "clear", "insert", "sort", "reverse"):
            ctx.violation("C14-H4", dec, n, f"the pin list is modified by {call_name(n)[-1]}() during decoding: the origin may leave the list (or the 'previous pin' is no longer last), invalidating the sign and extremality arguments", robust=True)
            return
    app = [n for n in ast.walk(loop[0]) if isinstance(n, ast.Call) and call_name(n) == (lst, "append")]
    if len(app) == 1:
        ctx.ok("C14-H4", dec.where, "during decoding the pin list only grows at the end: origin first, previous pin last", loop[0], dec)
    else:
        raise AnalysisError(f"{dec.where}: append of the new pin not found")
    ctx.note(f"typestate table: {cells} (history, letter) cells evaluated; requires={ {k: sorted(v) for k, v in requires.items()} }; establishes={ {k: sorted(v) for k, v in establishes.items()} }")


def _conj(guards: List[ast.AST]) -> Optional[ast.AST]:
    if not guards:
        return None
    if len(guards) == 1:
        return guards[0]
    return ast.BoolOp(op=ast.And(), values=list(guards))


def sign_of(co: Coord, cond) -> str:
    if co.kind == "beyond":
        if co.fn == "max" and co.sign > 0:
            return "pos"
        if co.fn == "min" and co.sign < 0:
            return "neg"
        return "unknown"
    # midpoint of last_c and EXT(scope)
    if cond is None:
        return "unknown"
    la, op, fn, axis, scope = cond
    if la != co.last_axis or axis != co.axis or fn != co.fn or scope != co.scope:
        return "unknown"
    if op == ">" and fn == "max":
        return "pos"  # last > MAX(earlier) >= 0  =>  last + MAX > 0
    if op == "<" and fn == "min":
        return "neg"
    return "unknown"


def rule_h5(ctx: Ctx) -> None:
    dec = ctx.repo.need_method("PinWords", "pinword_to_perm")
    body = dec.body
    loop = [st for st in body if isinstance(st, ast.For)]
    if len(loop) != 1:
        raise AnalysisError(f"{dec.where}: decode loop")
    after = body[body.index(loop[0]) + 1:]
    txt = [unparse(s) for s in after]
    lst = None
    for st in body:
        if isinstance(st, ast.Assign) and isinstance(st.value, ast.List):
            lst = unparse(st.targets[0])
    if lst is None:
        raise AnalysisError(f"{dec.where}: pin list")
    # the loop: next = pwu.call(char, pins); fail on zero; append
    lb = loop[0]
    ok_loop = unparse(lb.iter) == dec.params[0]
    calls = [n for n in ast.walk(lb) if isinstance(n, ast.Call) and call_name(n) and call_name(n)[-1] == "call"]
    if not ok_loop or len(calls) != 1 or [unparse(a) for a in calls[0].args] != [unparse(lb.target), lst]:
        ctx.violation("C14-H5", dec, lb, "the decoder does not place one pin per letter of the word, in order, from the pins placed so far")
        return
    ctx.ok("C14-H5", dec.where, "one pin per letter, in word order, computed from the pins placed so far", lb, dec)
    if not (txt and txt[0] == f"{lst}.pop(0)"):
        # other spellings of "drop the origin" are not judged here; a definite defect is: nothing is dropped at all, or another pin is
        removals = [n for st in after for n in ast.walk(st) if (isinstance(n, ast.Call) and isinstance(n.func, ast.Attribute) and n.func.attr in ("pop", "remove", "popleft") and unparse(n.func.value) == lst)
                    or (isinstance(n, ast.Subscript) and unparse(n.value) == lst and isinstance(n.slice, ast.Slice)) or isinstance(n, ast.Delete)]
        if not removals:
            ctx.violation("C14-H5", dec, after[0] if after else dec.node, "the origin is not removed (exactly once, after all pins are placed) before the permutation is read off")
            return
        bad_pop = [n for n in removals if isinstance(n, ast.Call) and n.func.attr == "pop" and (not n.args or unparse(n.args[0]) not in ("0",))]
        if bad_pop:
            ctx.violation("C14-H5", dec, after[0], f"`{unparse(bad_pop[0])}` removes a pin other than the origin (the origin is the first element)")
            return
        raise AnalysisError(f"{dec.where}: how the origin is dropped and the permutation read off (`{txt[0][:50]}` ...) is not recognised")
    if len(txt) >= 2 and txt[1] in (f"{lst}.sort()", f"{lst} = sorted({lst})"):
        ctx.ok("C14-H5", dec.where, "origin dropped, pins sorted by x", after[1], dec)
    elif not any((isinstance(n, ast.Call) and ((isinstance(n.func, ast.Attribute) and n.func.attr == "sort" and unparse(n.func.value) == lst)
                                               or (call_name(n) == ("sorted",) and n.args and (unparse(n.args[0]) == lst or (isinstance(n.args[0], ast.Subscript) and unparse(n.args[0].value) == lst)))))
                 for st in after for n in ast.walk(st)):
        ctx.violation("C14-H5", dec, after[1] if len(after) > 1 else dec.node, "pins are not sorted by x before the values are read off")
        return
    else:
        raise AnalysisError(f"{dec.where}: how the pins are sorted before the values are read off is not recognised")
    ys, perm = None, None
    for st in after[2:]:
        if isinstance(st, ast.Assign) and isinstance(st.value, ast.Call) and call_name(st.value) == ("sorted",):
            ge = st.value.args[0]
            if isinstance(ge, ast.GeneratorExp) and unparse(ge.generators[0].iter) == lst and unparse(ge.elt) == f"{unparse(ge.generators[0].target)}[1]" and not ge.generators[0].ifs:
                ys = unparse(st.targets[0])
        if isinstance(st, ast.Assign) and isinstance(st.value, ast.Call) and call_name(st.value) == ("tuple",):
            ge = st.value.args[0]
            if ys and isinstance(ge, ast.GeneratorExp) and unparse(ge.generators[0].iter) == lst and not ge.generators[0].ifs:
                t = unparse(ge.generators[0].target)
                if unparse(ge.elt) == f"bisect_left({ys}, {t}[1])":
                    perm = unparse(st.targets[0])
    rets = [st for st in after if isinstance(st, ast.Return)]
    if ys and perm and rets and unparse(rets[0].value) == f"Perm({perm})":
        ctx.ok("C14-H5", dec.where, "value of a pin = rank of its y among all y (bisect_left in the sorted y list): standardisation", rets[0], dec)
    else:
        # the same template with the x coordinate taken for the values is a definite defect
        for st in after[2:]:
            if isinstance(st, ast.Assign) and isinstance(st.value, ast.Call) and call_name(st.value) == ("sorted",) and st.value.args and isinstance(st.value.args[0], ast.GeneratorExp):
                ge = st.value.args[0]
                if unparse(ge.generators[0].iter) == lst and unparse(ge.elt) == f"{unparse(ge.generators[0].target)}[0]":
                    ctx.violation("C14-H5", dec, st, "the permutation is not read off as (rank of y among all y) in x order: the x coordinates are ranked")
                    return
        raise AnalysisError(f"{dec.where}: how the permutation is read off from the sorted pins is not recognised")


def rule_t1(ctx: Ctx) -> None:
    repo = ctx.repo
    w2p = repo.need_method("PinWords", "pinword_to_perm_mapping")
    ctx.run(check_skeleton, ctx, "C14-T1", w2p, ["return {w: cls.pinword_to_perm(w) for w in cls.pinwords_of_length(a0)}"], "W2P(n) = {w: decode(w) for every enumerated word of length n}", required_calls=["pinword_to_perm", "pinwords_of_length"])
    p2w = repo.need_method("PinWords", "perm_to_pinword_mapping")
    ctx.run(check_p2w, ctx, p2w)
    st = repo.need_method("PinWords", "perm_to_strict_pinword_mapping")
    ctx.run(check_skeleton, ctx, "C14-T1", st, ["return {k: {x for x in v if cls.is_strict_pinword(x)} for k, v in cls.perm_to_pinword_mapping(a0).items()}"],
            "strict table = P2W filtered by is_strict_pinword", required_calls=["perm_to_pinword_mapping", "is_strict_pinword"])
    isp = repo.need_method("PinWords", "is_strict_pinword")
    ctx.run(check_skeleton, ctx, "C14-T1", isp, ["if a0 == '':\n    return True\nreturn a0[0] in QUADS and all(a0[i] in DIRS for i in range(1, len(a0)))",
                                                  "return a0 == '' or (a0[0] in QUADS and all(c in DIRS for c in a0[1:]))"], "strict pin word = one numeral followed by direction letters only")
    for f in (w2p, p2w, st):
        memo = any("lru_cache" in d for d in f.decorators)
        if memo and len(f.params) == 2:
            ctx.ok("C14-T1", f.where, "memoised on (cls, length) alone", f.node, f)
        elif memo:
            ctx.violation("C14-T1", f, f.node, "memoised table depends on more than the length")
    # the two copies of the numeral -> direction-pair table agree
    sp, ms = repo.need_method("PinWords", "sp_to_m"), repo.need_method("PinWords", "m_to_sp")
    tabs = []
    for f in (sp, ms):
        for n in ast.walk(f.node):
            if isinstance(n, ast.Assign) and unparse(n.targets[0]) == "letter_dict" and isinstance(n.value, ast.Dict):
                tabs.append((f, unparse(n.value)))
    if len(tabs) == 2:
        if tabs[0][1] == tabs[1][1]:
            ctx.ok("C14-T1", ms.where, "sp_to_m and m_to_sp use the same numeral -> direction-pair table")
        else:
            ctx.violation("C14-T1", ms, ms.node, f"sp_to_m maps numerals by {tabs[0][1]} but m_to_sp inverts {tabs[1][1]}: the translations are not mutually inverse")


def check_p2w(ctx: Ctx, f: FuncInfo) -> None:
    body = f.body
    init = [s for s in body if isinstance(s, ast.Assign) and unparse(s.value) in ("defaultdict(set)", "collections.defaultdict(set)", "{}")]
    loops = [s for s in body if isinstance(s, ast.For)]
    rets = [s for s in body if isinstance(s, ast.Return)]
    if len(init) != 1 or len(loops) != 1 or len(rets) != 1:
        raise AnalysisError(f"{f.where}: inversion loop shape not recognised")
    res = unparse(init[0].targets[0])
    lp = loops[0]
    if unparse(lp.iter) != f"cls.pinword_to_perm_mapping({f.params[1]}).items()":
        ctx.violation("C14-T1", f, lp, f"the permutation -> words table is built from `{unparse(lp.iter)[:60]}`, not from W2P of the same length")
        return
    k, v = [unparse(e) for e in lp.target.elts]
    if len(lp.body) == 1 and unparse(lp.body[0]) == f"{res}[{v}].add({k})" and unparse(rets[0].value) == res:
        ctx.ok("C14-T1", f.where, "P2W = {p: {w | W2P[w] = p}} (every (word, perm) pair inverted, nothing filtered)", lp, f)
    else:
        ctx.violation("C14-T1", f, lp, f"inversion step is `{unparse(lp.body[0])[:60]}`; expected `{res}[perm].add(word)` for every pair")


GENERIC_FILES = ['permuta/permutils/pin_words.py', 'permuta/permutils/pinword_util.py']


def variants():
    from ..selftest import generic_equiv, generic_silent

    return _variants() + generic_silent(GENERIC_FILES) + generic_equiv(GENERIC_FILES)


def _variants():
    from ..selftest import V, insert_stmt, reformat_only, rename_local, replace_expr, replace_stmt

    PU, PW = "permuta/permutils/pinword_util.py", "permuta/permutils/pin_words.py"
    return [
        V("gap-condition-added", insert_stmt("permuta/permutils/pin_words.py", "PinWords.pinword_occurrences.rec", "res.append(occ)", "if j > 0 and occ == i and word[occ] in DIRS:\n    continue", "before"), "silent", note="the repair of the known finding C14-D2: the rule must accept it"),
        V("gap-condition-wrong-letter-class", insert_stmt("permuta/permutils/pin_words.py", "PinWords.pinword_occurrences.rec", "res.append(occ)", "if j > 0 and occ == i and word[occ] in QUADS:\n    continue", "before"), "undecided", "C14-D2"),
        V("table-missing-letter", replace_expr(PU, "PinWordUtil.__init__", "{'1': self.char_1, '2': self.char_2, '3': self.char_3, '4': self.char_4, 'U': self.char_u, 'L': self.char_l, 'D': self.char_d, 'R': self.char_r}",
                                               "{'1': self.char_1, '2': self.char_2, '3': self.char_3, '4': self.char_4, 'U': self.char_u, 'L': self.char_l, 'D': self.char_d}"), "fire", "C14-H1"),
        V("table-shared-handler", replace_expr(PU, "PinWordUtil.__init__", "self.char_d", "self.char_u"), "fire", "C14-H1"),
        V("half-is-third", replace_expr(PU, "PinWordUtil.__init__", "Fraction(1, 2)", "Fraction(1, 3)"), "fire", "C14-H1"),
        V("min-x-by-y", replace_expr(PU, "PinWordUtil.min_x", "min(pre_perm, key=lambda x: x[0])[0]", "min(pre_perm, key=lambda x: x[1])[0]"), "fire-or-undecided", "C14-H"),
        V("numeral-2-northeast", replace_expr(PU, "PinWordUtil.char_2", "PinWordUtil.min_x(pre_perm) - self.one", "PinWordUtil.max_x(pre_perm) + self.one"), "fire", "C14-H2"),
        V("numeral-3-not-beyond", replace_expr(PU, "PinWordUtil.char_3", "PinWordUtil.min_y(pre_perm) - self.one", "PinWordUtil.min_y(pre_perm) + self.one"), "fire", "C14-H2"),
        V("numeral-1-earlier-only", replace_expr(PU, "PinWordUtil.char_1", "PinWordUtil.max_x(pre_perm)", "PinWordUtil.max_x(pre_perm[:-1])"), "fire", "C14-H2"),
        V("up-goes-down", replace_expr(PU, "PinWordUtil.char_u", "PinWordUtil.max_y(pre_perm) + self.one", "PinWordUtil.min_y(pre_perm) - self.one", which=1), "fire", "C14-H3"),
        V("left-midpoint-with-all", replace_expr(PU, "PinWordUtil.char_l", "self.half * (last_y + PinWordUtil.max_y(pre_perm[:-1]))", "self.half * (last_y + PinWordUtil.max_y(pre_perm))"), "fire", "C14-H3"),
        V("right-midpoint-wrong-extreme", replace_expr(PU, "PinWordUtil.char_r", "self.half * (last_y + PinWordUtil.min_y(pre_perm[:-1]))", "self.half * (last_y + PinWordUtil.max_y(pre_perm[:-1]))"), "fire", "C14-H3"),
        V("down-nonstrict", replace_expr(PU, "PinWordUtil.char_d", "last_x > PinWordUtil.max_x(pre_perm[:-1])", "last_x >= PinWordUtil.max_x(pre_perm[:-1])"), "fire", "C14-H3"),
        V("up-separates-in-y", replace_stmt(PU, "PinWordUtil.char_u", "(last_x, _) = pre_perm[-1]", "(_, last_x) = pre_perm[-1]"), "fire", "C14-H3"),
        V("enumerator-allows-UU", replace_expr(PW, "PinWords.pinwords_of_length", "len(word) > 0 and word[-1] != 'U' and (word[-1] != 'D')", "len(word) > 0 and word[-1] != 'D'"), "fire", "C14-H4"),
        V("enumerator-direction-first", replace_expr(PW, "PinWords.pinwords_of_length", "len(word) > 0 and word[-1] != 'R' and (word[-1] != 'L')", "(len(word) == 0 or (word[-1] != 'R' and word[-1] != 'L'))"), "fire", "C14-H4"),
        V("enumerator-forbids-too-much", replace_expr(PW, "PinWords.pinwords_of_length", "len(word) > 0 and word[-1] != 'R' and (word[-1] != 'L')", "len(word) > 0 and word[-1] != 'R' and (word[-1] != 'L') and (word[-1] != '1')"), "fire", "C14-H4"),
        V("enumerator-drops-numeral", replace_expr(PW, "PinWords.pinwords_of_length", "QUADS", "'123'"), "fire", "C14-H4"),
        V("decoder-pops-origin-early", insert_stmt(PW, "PinWords.pinword_to_perm", "pre_perm.append((next_x, next_y))", "if len(pre_perm) == 2:\n    pre_perm.pop(0)", "after"), "fire", "C14-H"),
        V("decoder-origin-nonzero", replace_expr(PW, "PinWords.pinword_to_perm", "[(pwu.rzero(), pwu.rzero())]", "[(pwu.one, pwu.one)]"), "fire-or-undecided", "C14-H4"),
        V("decoder-no-sort", replace_stmt(PW, "PinWords.pinword_to_perm", "pre_perm.sort()", ""), "fire", "C14-H5"),
        V("decoder-values-from-x", replace_expr(PW, "PinWords.pinword_to_perm", "sorted((x[1] for x in pre_perm))", "sorted((x[0] for x in pre_perm))"), "fire", "C14-H5"),
        V("decoder-origin-kept", replace_stmt(PW, "PinWords.pinword_to_perm", "pre_perm.pop(0)", ""), "fire", "C14-H5"),
        V("w2p-strict-only", replace_expr(PW, "PinWords.pinword_to_perm_mapping", "cls.pinwords_of_length(length)", "cls.strict_pinwords_of_length(length)"), "fire-or-undecided", "C14-T1"),
        V("p2w-other-length", replace_expr(PW, "PinWords.perm_to_pinword_mapping", "cls.pinword_to_perm_mapping(length)", "cls.pinword_to_perm_mapping(length - 1)"), "fire", "C14-T1"),
        V("p2w-key-value-swapped", replace_stmt(PW, "PinWords.perm_to_pinword_mapping", "res[val].add(key)", "res[key].add(val)"), "fire", "C14-T1"),
        V("strict-filter-negated", replace_expr(PW, "PinWords.perm_to_strict_pinword_mapping", "cls.is_strict_pinword(x)", "not cls.is_strict_pinword(x)"), "fire", "C14-T1"),
        V("letter-dicts-disagree", replace_expr(PW, "PinWords.m_to_sp", "{'1': 'RU', '2': 'LU', '3': 'LD', '4': 'RD'}", "{'1': 'RU', '2': 'LU', '3': 'RD', '4': 'LD'}"), "fire", "C14-T1"),
        V("occurrences-overlapping-factors", replace_expr(PW, "PinWords.pinword_occurrences", "occ + len(u_word[j])", "occ + 1"), "fire", "C14-D1"),
        V("occurrences-same-factor-again", replace_expr(PW, "PinWords.pinword_occurrences", "rec(word, u_word, occ + len(u_word[j]), j + 1, res)", "rec(word, u_word, occ + len(u_word[j]), j, res)"), "fire", "C14-D1"),
        V("contains-negated", replace_expr(PW, "PinWords.pinword_contains", "next(cls.pinword_occurrences(word, u_word), False) is not False", "next(cls.pinword_occurrences(word, u_word), False) is False"), "fire", "C14-D1"),
        V("contains-sp-uses-general", replace_expr(PW, "PinWords.pinword_contains_sp", "cls.pinword_occurrences_sp(word, u_word)", "cls.pinword_occurrences(word, u_word)"), "fire-or-undecided", "C14-D1"),
        V("sp-listing-skips-last-index", replace_expr(PW, "PinWords.pinword_occurrences_sp", "range(start_index, len(word))", "range(start_index, len(word) - 1)"), "fire", "C14-D1"),
        V("sp-listing-tail-shifted", replace_expr(PW, "PinWords.pinword_occurrences_sp", "word[idx + 1:idx + k]", "word[idx:idx + k]"), "fire", "C14-D1"),
        V("sp-listing-quadrant-of-start", replace_expr(PW, "PinWords.pinword_occurrences_sp", "cls.quadrant(word, idx)", "cls.quadrant(word, start_index)"), "fire", "C14-D1"),
        V("factor-includes-numerals", replace_expr(PW, "PinWords.factor_pinword", "word[cur] in DIRS", "word[cur] in QUADS"), "fire", "C14-D1"),
        V("pinword-y-coordinates-not-sorted", replace_expr("permuta/permutils/pin_words.py", "PinWords.pinword_to_perm", "sorted((x[1] for x in pre_perm))", "list((x[1] for x in pre_perm))"), "undecided", "C14-S1"),
        # silent
        V("contains-any-form", replace_expr(PW, "PinWords.pinword_contains", "next(cls.pinword_occurrences(word, u_word), False) is not False", "any((True for _ in cls.pinword_occurrences(word, u_word)))"), "silent"),
        V("reformat-util", reformat_only(PU), "silent"),
        V("reformat-pinwords", reformat_only(PW), "silent"),
        V("enumerator-not-in", replace_expr(PW, "PinWords.pinwords_of_length", "len(word) > 0 and word[-1] != 'U' and (word[-1] != 'D')", "len(word) > 0 and word[-1] not in 'UD'"), "silent"),
        V("handler-commuted-sum", replace_expr(PU, "PinWordUtil.char_u", "self.half * (last_x + PinWordUtil.max_x(pre_perm[:-1]))", "self.half * (PinWordUtil.max_x(pre_perm[:-1]) + last_x)"), "silent"),
        V("rename-pre-perm", rename_local(PU, "PinWordUtil.char_4", "pre_perm", "pins"), "silent"),
    ]


# ----------------------------------------------------------------------------- D1: word-level containment, by construction part


def rule_d1(ctx: Ctx) -> None:
    """(d) is a semantic equivalence and stays undecided; decided here are only its by-construction parts: `contains` is
    non-emptiness of the occurrence listing (both for strict factors and for whole words), the strict-factor listing is
    Lemma 3.12's test at every start index, and the factor-by-factor search places each factor after the end of the
    previous one, in order, reporting one start index per factor."""
    repo = ctx.repo
    for name, listing in (("pinword_contains", "pinword_occurrences"), ("pinword_contains_sp", "pinword_occurrences_sp")):
        f = repo.need_method("PinWords", name)
        # an occurrence can be falsy (the empty tuple for the empty word, start index 0 for a strict factor): testing the
        # truth value of the elements instead of their existence loses exactly those
        try:
            from ..skeleton import func_term

            impl_t = func_term(f)
        except AnalysisError:
            impl_t = None
        if isinstance(impl_t, tuple) and impl_t and impl_t[0] == "exists" and impl_t[2] == ("bv", 0, 0) and impl_t[1][0] == "iter" and isinstance(impl_t[1][1], tuple) and impl_t[1][1][0] == "call" and impl_t[1][1][2] == listing:
            ctx.violation("C14-D1", f, f.node, f"{name} tests the truth value of the listed occurrences (any(...)) instead of their existence: an occurrence that is falsy – the empty tuple of the empty word, the start index 0 – is not counted")
            continue
        ctx.run(check_skeleton, ctx, "C14-D1", f, [f"return next(cls.{listing}(a0, a1), False) is not False", f"return any(True for _ in cls.{listing}(a0, a1))"],
                f"{name}(w, u) = NonEmpty({listing}(w, u))", required_calls=[listing])
    sp = repo.need_method("PinWords", "pinword_occurrences_sp")
    from .c11 import generator_or_skeleton

    ctx.run(_sp_listing, ctx, sp)
    occ = repo.need_method("PinWords", "pinword_occurrences")
    ctx.run(_rec_shape, ctx, occ)
    fp = repo.need_method("PinWords", "factor_pinword")
    ctx.run(_factor_shape, ctx, fp)


def _sp_listing(ctx: Ctx, f: FuncInfo) -> None:
    from ..core import flow_env, subst_names
    from ..skeleton import Env, T
    from ..skelrules import spec_from_src

    w, u, start = f.params[1], f.params[2], f.params[3]
    dflt = f.node.args.defaults[-1] if f.node.args.defaults else None
    if dflt is not None and not (isinstance(dflt, ast.Constant) and dflt.value == 0):
        ctx.violation("C14-D1", f, f.node, f"the scan starts at index {unparse(dflt)} by default: occurrences at the beginning of the word are not listed (pinword_contains_sp relies on the default)")
        return
    loops = [st for st in f.body if isinstance(st, ast.For)]
    if len(loops) != 1:
        raise AnalysisError(f"{f.where}: scan loop not recognised")
    lp = loops[0]
    if unparse(lp.iter) != f"range({start}, len({w}))":
        ctx.violation("C14-D1", f, lp, f"start indices are scanned over `{unparse(lp.iter)}`; every index from the requested start to the end of the word must be tried")
        return
    idx = unparse(lp.target)
    if not (len(lp.body) == 1 and isinstance(lp.body[0], ast.If) and not lp.body[0].orelse and len(lp.body[0].body) == 1 and unparse(lp.body[0].body[0]) == f"yield {idx}"):
        ctx.violation("C14-D1", f, lp, "the scan does not yield exactly the start indices that pass the test")
        return
    env = flow_env(f, lp)
    test = subst_names(lp.body[0].test, env)
    e = Env()
    got = T(test, e)
    want = [spec_from_src(f"return cls.quadrant({w}, {idx}) == cls.quadrant({u}, 0) and {w}[{idx} + 1:{idx} + len({u})] == {u}[1:]")]
    want_self = [spec_from_src(f"return cls.quadrant({w}, {idx}) == cls.quadrant({u}, 0) and {w}[{idx} + 1:len({u}) + {idx}] == {u}[1:]")]
    # spec_from_src maps its own parameter names; rebuild with the same free names
    def t(src: str):
        return T(ast.parse(src, mode="eval").body, Env())

    wants = [t(f"cls.quadrant({w}, {idx}) == cls.quadrant({u}, 0) and {w}[{idx} + 1:{idx} + len({u})] == {u}[1:]")]
    if got in wants:
        ctx.ok("C14-D1", f.where, "strict factor u occurs at idx iff the pin at idx lies in u's quadrant and the following letters are u's direction letters (Lemma 3.12)", lp, f)
    else:
        from ..skeleton import show

        ctx.violation("C14-D1", f, lp.body[0], f"occurrence test is  {show(got)[:200]} ; Lemma 3.12 requires  {show(wants[0])[:200]}")
    _ = (want, want_self)


def _rec_shape(ctx: Ctx, occ: FuncInfo) -> None:
    recs = list(occ.nested.values())
    if len(recs) != 1:
        raise AnalysisError(f"{occ.where}: recursive helper not found")
    rec = recs[0]
    rets = [st for st in occ.body if isinstance(st, ast.Return)]
    closure_form = False
    if len(rec.params) == 5:
        w, us, i, j, res = rec.params
        start_wants = [f"{rec.name}({occ.params[1]}, cls.factor_pinword({occ.params[2]}), 0, 0, [])"]
    elif len(rec.params) == 3:
        # the helper closes over the word and over the factor list computed once by the enclosing function
        i, j, res = rec.params
        w = occ.params[1]
        fl = [st for st in occ.body if isinstance(st, ast.Assign) and len(st.targets) == 1 and isinstance(st.targets[0], ast.Name)
              and unparse(st.value) in (f"cls.factor_pinword({occ.params[2]})", f"PinWords.factor_pinword({occ.params[2]})")]
        if len(fl) != 1:
            raise AnalysisError(f"{occ.where}: the factor list the helper closes over was not found")
        us = fl[0].targets[0].id
        start_wants = [f"{rec.name}(0, 0, [])"]
        closure_form = True
    else:
        raise AnalysisError(f"{rec.where}: expected parameters (word, factors, i, j, res) or (i, j, res)")
    # top-level call
    if len(rets) == 1 and unparse(rets[0].value) in start_wants:
        ctx.ok("C14-D1", occ.where, "search starts with the first factor of factor_pinword(u) at index 0 and an empty match list", rets[0], occ)
    else:
        deviates(ctx, "C14-D1", occ, rets[0] if rets else occ.node, unparse(rets[0].value) if len(rets) == 1 else None, start_wants,
                 f"the factor search is not started as {rec.name}(w, factor_pinword(u), 0, 0, [])")
    body = rec.body
    if not (len(body) == 1 and isinstance(body[0], ast.If)):
        raise AnalysisError(f"{rec.where}: case analysis not recognised")
    c1 = body[0]
    if unparse(c1.test) in (f"{j} == len({us})", f"len({us}) == {j}") and [unparse(s) for s in c1.body] == [f"yield tuple({res})"]:
        ctx.ok("C14-D1", rec.where, "all factors placed -> report the tuple of their start indices", c1, rec)
    else:
        ctx.violation("C14-D1", rec, c1, "a match is not reported exactly when every factor has been placed (j == len(factors) -> yield tuple(res))")
        return
    rest = c1.orelse
    if len(rest) == 1 and isinstance(rest[0], ast.If) and unparse(rest[0].test) in (f"{i} >= len({w})", f"len({w}) <= {i}"):
        loop_part = rest[0].orelse
    elif len(rest) == 1 and isinstance(rest[0], ast.If) and unparse(rest[0].test) in (f"{i} < len({w})", f"len({w}) > {i}") \
            and all(isinstance(x, (ast.Return, ast.Pass)) and getattr(x, "value", None) is None for x in rest[0].orelse):
        loop_part = rest[0].body  # the same case analysis with the positive test first
    else:
        loop_part = rest
    loops = [s for s in loop_part if isinstance(s, ast.For)]
    if len(loops) != 1:
        raise AnalysisError(f"{rec.where}: loop over the occurrences of the current factor not found")
    lp = loops[0]
    o = unparse(lp.target)
    if unparse(lp.iter) != f"cls.pinword_occurrences_sp({w}, {us}[{j}], {i})":
        ctx.violation("C14-D1", rec, lp, f"the current factor is searched by `{unparse(lp.iter)}`; expected pinword_occurrences_sp(w, factors[j], i) (from index i on)")
        return
    calls = [n for n in ast.walk(lp) if isinstance(n, ast.Call) and call_name(n) == (rec.name,)]
    if len(calls) != 1:
        raise AnalysisError(f"{rec.where}: recursive call not found")
    # every result of the deeper search is passed on
    passed = False
    for n in ast.walk(lp):
        if isinstance(n, ast.YieldFrom) and n.value is calls[0]:
            passed = True
        if isinstance(n, ast.For) and n.iter is calls[0] and len(n.body) == 1 and isinstance(n.body[0], ast.Expr) and isinstance(n.body[0].value, ast.Yield) \
                and n.body[0].value.value is not None and unparse(n.body[0].value.value) == unparse(n.target) and not n.orelse:
            passed = True
    if passed:
        ctx.ok("C14-D1", rec.where, "every placement found for the remaining factors is passed on to the caller", calls[0], rec)
    else:
        ctx.violation("C14-D1", rec, calls[0], "the results of the search for the remaining factors are not all passed on (yield from / for x in ...: yield x)")
        return
    args = [unparse(a) for a in calls[0].args]
    want_args = [f"{o} + len({us}[{j}])", f"{j} + 1", res] if closure_form else [w, us, f"{o} + len({us}[{j}])", f"{j} + 1", res]
    if args == want_args:
        ctx.ok("C14-D1", rec.where, "the next factor is searched after the end of the current match (occ + len(factor)), factors in order", calls[0], rec)
    else:
        msg = f"the search continues with ({', '.join(args)}); the next factor must start at or after {o} + len({us}[{j}]) (no overlap with the current match) and be factor j + 1"
        if len(args) == len(want_args) and sum(1 for a, b in zip(args, want_args) if a != b) == 1:
            ctx.violation("C14-D1", rec, calls[0], msg, robust=True)  # exactly one argument of the recursive call is not the expected one
        else:
            deviates(ctx, "C14-D1", rec, calls[0], ", ".join(args), [", ".join(want_args)], msg, k=2)
        return
    # D2 – the gap condition of the containment lemma (Brignall-Ruskuc-Vatter Lemma 3.3 / BBPR Thm 3.13): in the chopping
    # w = v1 w1 v2 w2 ... a factor w_k that begins with a *direction* letter needs a non-empty gap v_k before it.  For the
    # first factor the gap is automatic (a pin word starts with a numeral); for a later one the placement `occ == i`
    # (touching the previous factor) at a direction letter must be rejected.
    guards = [s for s in lp.body if isinstance(s, ast.If)]
    lp_body_wo_guard = [s for s in lp.body if s not in guards]
    gap_ok = False
    if len(lp.body) == 1 and len(guards) == 1 and not guards[0].orelse and (isinstance(guards[0].test, ast.UnaryOp) and isinstance(guards[0].test.op, ast.Not)
                                                                              or isinstance(guards[0].test, ast.BoolOp) and isinstance(guards[0].test.op, ast.Or)):
        # canonical spelling of `if <reject>: continue; REST`  ==  `if not <reject>: REST` (the negation pushed inwards by De Morgan)
        g0 = guards[0]
        if isinstance(g0.test, ast.UnaryOp):
            reject = g0.test.operand
        else:
            from ..core import ct as _ct

            reject = ast.BoolOp(op=ast.And(), values=[ast.parse(_ct(f"not ({unparse(v)})"), mode="eval").body for v in g0.test.values])
        guards = [ast.If(test=reject, body=[ast.Continue()], orelse=[])]
        ast.copy_location(guards[0], g0)
        lp = ast.copy_location(ast.For(target=lp.target, iter=lp.iter, body=[guards[0]] + list(g0.body), orelse=[]), lp)
        lp_body_wo_guard = list(g0.body)
    for g in guards:
        conj = {unparse(c) for c in (g.test.values if isinstance(g.test, ast.BoolOp) and isinstance(g.test.op, ast.And) else [g.test])}
        touching = conj & {f"{o} == {i}", f"{i} == {o}", f"{o} <= {i}"}
        direction = conj & {f"{w}[{o}] in DIRS", f"{w}[{o}] not in QUADS"}
        later = conj & {f"{j} > 0", f"{j} >= 1", f"{j} != 0", j, f"0 < {j}"}
        if touching and direction and conj <= touching | direction | later and len(g.body) == 1 and isinstance(g.body[0], ast.Continue) and not g.orelse \
                and lp.body.index(g) < min(lp.body.index(s) for s in lp_body_wo_guard):
            gap_ok = True
        else:
            raise AnalysisError(f"{rec.where}: guard `{unparse(g.test)[:60]}` in the placement loop not recognised")
    if gap_ok:
        ctx.ok("C14-D2", rec.where, "a later factor placed directly after the previous one is rejected when it is matched at a direction letter (gap condition of the containment lemma)", lp, rec)
    else:
        ctx.violation("C14-D2", rec, lp, "consecutive factors may touch even when the next one is matched at a direction letter: the containment lemma requires a gap there; e.g. pinword_contains('1U', '11') is True although perm('1U') = 10 does not contain perm('11') = 01", tag="gap-condition-missing")
    lp_view = ast.For(target=lp.target, iter=lp.iter, body=lp_body_wo_guard, orelse=[])
    stm = [unparse(s) for s in lp_view.body if not isinstance(s, ast.For)]
    if stm[:1] == [f"{res}.append({o})"] and stm[-1:] == [f"{res}.pop()"]:
        ctx.ok("C14-D1", rec.where, "match list is extended before and restored after exploring a placement (backtracking)", lp, rec)
    else:
        ctx.violation("C14-D1", rec, lp, f"the match list is not pushed/popped around the recursive exploration ({stm})")


def _factor_shape(ctx: Ctx, f: FuncInfo) -> None:
    """factor_pinword: each factor starts at a letter and extends over the following direction letters."""
    w = f.params[0]
    loops = [st for st in f.body if isinstance(st, ast.While)]
    if len(loops) != 1:
        raise AnalysisError(f"{f.where}: outer loop not recognised")
    lp = loops[0]
    inits = {unparse(s.targets[0]): unparse(s.value) for s in f.body if isinstance(s, ast.Assign)}
    pos = next((k for k, v in inits.items() if v == "0"), None)
    lst = next((k for k, v in inits.items() if v == "[]"), None)
    if pos is None or lst is None or unparse(lp.test) != f"{pos} < len({w})":
        raise AnalysisError(f"{f.where}: loop header not recognised")
    inner = [s for s in lp.body if isinstance(s, ast.While)]
    if len(inner) != 1:
        raise AnalysisError(f"{f.where}: inner loop not recognised")
    binit = {unparse(s.targets[0]): unparse(s.value) for s in lp.body if isinstance(s, ast.Assign)}
    cur = next((k for k, v in binit.items() if v == f"{pos} + 1"), None)
    if cur is None:
        ctx.violation("C14-D1", f, lp, "a factor does not start with exactly one leading letter (cur = position + 1)")
        return
    if unparse(inner[0].test) != f"{cur} < len({w}) and {w}[{cur}] in DIRS" or [unparse(s) for s in inner[0].body] != [f"{cur} += 1"]:
        ctx.violation("C14-D1", f, inner[0], f"a factor is extended while `{unparse(inner[0].test)}`; it must extend over the following direction letters only")
        return
    tail = [unparse(s) for s in lp.body[lp.body.index(inner[0]) + 1:]]
    if tail == [f"{lst}.append({w}[{pos}:{cur}])", f"{pos} = {cur}"] and unparse(f.body[-1]) == f"return {lst}":
        ctx.ok("C14-D1", f.where, "factors = maximal blocks 'one letter followed by direction letters', in order, covering the word", lp, f)
    else:
        ctx.violation("C14-D1", f, lp, f"after a factor is delimited the function does `{'; '.join(tail)}`; expected append(word[pos:cur]); pos = cur")


_OLD_RUN = run


def run(ctx: Ctx) -> None:  # noqa: F811
    _OLD_RUN(ctx)
    ctx.run(rule_d1, ctx)


FLOORS["C14-D1"] = 9
FLOORS["C14-D2"] = 1
EXPLANATION = EXPLANATION.replace("NOT decided: (d) that pattern containment is reflected by the factor-by-factor word search", "Of (d) only the by-construction parts are decided (D1: contains = NonEmpty(occurrences), "
                                  "the strict-factor test of Lemma 3.12 at every start index, factors placed in order after the end of the previous match, factorisation into numeral-led blocks). "
                                  "NOT decided: (d) that pattern containment is reflected by the factor-by-factor word search")


# ------------------------------------------------------------------ C14-S1: binary searches run on sequences sorted by construction


def rule_bisect(ctx: Ctx) -> None:
    from ..core import check_bisect_preconditions

    n = check_bisect_preconditions(ctx, "C14-S1", ['permuta.permutils.pin_words', 'permuta.permutils.pinword_util'])
    if n == 0:
        ctx.ok("C14-S1", "permuta.permutils.pin_words", "no binary search in the anchored modules (nothing to establish)")


_OLD_RUN_BISECT = run


def run(ctx: Ctx) -> None:  # noqa: F811
    _OLD_RUN_BISECT(ctx)
    ctx.run(rule_bisect, ctx)


FLOORS["C14-S1"] = 1
