"""C04 – the eight symmetries act consistently (E7: algebraic identities on extracted maps)."""

from __future__ import annotations

import ast
from typing import Dict, List, Optional, Set, Tuple

from ..affine import D4_POINT, I, V, X, Y, Map2, MeshOps, PermOps, induced_cell_map, is_grid_bijection, name_of_point_map
from ..core import AnalysisError, FuncInfo, Repo, attr_chain, call_name, const_value, unparse, walk_no_nested
from ..report import Ctx
from ..skelrules import check_skeleton

PROP = "C04"
FLOORS = {"C04-A1": 15, "C04-A2": 2, "C04-A3": 6, "C04-A4": 3, "C04-A5": 13, "C04-A6": 2}

EXPLANATION = (
    "Decided as algebraic identities in n on maps extracted from the source (hence for every size): (a) reverse, complement, inverse, the rotations and "
    "the antidiagonal flip act on permutations as the eight symmetries of the square with the documented conventions and satisfy the dihedral relations "
    "(A1); (c) every integer rotation count, negative included, is reduced by `% 4` and all four residues are handled (A2); (b) on mesh patterns the map "
    "on shaded cells is the one induced by the map on points, for every symmetry (A3); (d) the 'all symmetries' helpers return exactly the orbit – the "
    "fixed-bound loops are executed abstractly over the finite group D4 – every collected set is in canonical form and lex_min is the minimum of that "
    "orbit, hence identical for every member (A4); helper and alias tables bind the element their name states (A5). Containment equivariance (e) follows "
    "mathematically from (b) IF the occurrence searches implement their definitions (C01/C03, undecided): stated, not claimed."
)

PERM_TABLE = {
    ("inverse", ()): "inverse", ("reverse", ()): "reverse", ("complement", ()): "complement", ("reverse_complement", ()): "r2",
    ("flip_antidiagonal", ()): "antidiagonal", ("rotate", (0,)): "id", ("rotate", (1,)): "r1", ("rotate", (2,)): "r2", ("rotate", (3,)): "r3",
}
MESH_TABLE = {("complement", ()): "complement", ("reverse", ()): "reverse", ("inverse", ()): "inverse", ("rotate", (1,)): "r1", ("rotate", (2,)): "r2", ("rotate", (3,)): "r3", ("rotate", (0,)): "id"}
HELPERS = {"rotate_90_clockwise_set": "r1", "rotate_180_clockwise_set": "r2", "rotate_270_clockwise_set": "r3", "inverse_set": "inverse", "reverse_set": "reverse",
           "complement_set": "complement", "antidiagonal_set": "antidiagonal"}
ALIASES = {"flip_horizontal": "complement", "flip_vertical": "reverse", "flip_diagonal": "inverse"}


def consts_for(mname: str, args: Tuple[int, ...], fi: FuncInfo) -> Dict[str, int]:
    return {fi.params[1 + i]: a for i, a in enumerate(args)}


def run(ctx: Ctx) -> None:
    po = PermOps(ctx.repo)
    mo = MeshOps(ctx.repo, po)
    ctx.run(rule_a1, ctx, po)
    ctx.run(rule_a2, ctx)
    ctx.run(rule_a3, ctx, po, mo)
    ctx.run(rule_a4, ctx, po, mo)
    ctx.run(rule_a5, ctx, po)
    # A6: the set-level helpers take any iterable (annotated Iterable[Perm]); a one-shot iterator handed to them must not be
    # consumed twice, or the orbit / canonical representative is computed from an exhausted iterator
    from .. import oneshot

    ctx.run(oneshot.report, ctx, "C04-A6", ["permuta.permutils.symmetry"], ("all_symmetry_sets", "lex_min"))
    ctx.assume("a permutation is the point set {(i, self[i])}; Perm(result) with result[A] = B for every point places the point (A, B)")


def rule_a1(ctx: Ctx, po: PermOps) -> None:
    repo = ctx.repo
    got: Dict[Tuple[str, Tuple[int, ...]], Map2] = {}
    for (mname, args), want in PERM_TABLE.items():
        fi = repo.need_method("Perm", mname)
        try:
            m = po.point_map(mname, consts_for(mname, args, fi))
        except AnalysisError as exc:
            ctx.undecided.append(str(exc))
            continue
        got[(mname, args)] = m
        label = f"{mname}({', '.join(map(str, args))})"
        if not is_grid_bijection(m):
            ctx.violation("C04-A1", fi, fi.node, f"Perm.{label} moves the point (i, v) to {m!r}: not a signed coordinate permutation with offsets 0 / n-1, so the result is not a symmetry of the square (may not even be a permutation)", robust=True)
            continue
        if m == D4_POINT[want]:
            ctx.ok("C04-A1", fi.where, f"Perm.{label}: (i, v) -> ({m.a!r}, {m.b!r}) = {want}", fi.node, fi)
        else:
            actual = name_of_point_map(m)
            ctx.violation("C04-A1", fi, fi.node, f"Perm.{label} acts as (i, v) -> ({m.a!r}, {m.b!r}){' = ' + actual if actual else ''}; the documented symmetry is {want}: (i, v) -> ({D4_POINT[want].a!r}, {D4_POINT[want].b!r})", robust=True)
    if len(got) < len(PERM_TABLE):
        return
    # dihedral relations on the extracted maps
    r = got[("rotate", (1,))]
    s = got[("inverse", ())]
    ident = D4_POINT["id"]
    rels = [
        ("r^4 = e", r.then(r).then(r).then(r), ident),
        ("inverse^2 = e", s.then(s), ident),
        ("reverse^2 = e", got[("reverse", ())].then(got[("reverse", ())]), ident),
        ("complement^2 = e", got[("complement", ())].then(got[("complement", ())]), ident),
        ("s r s = r^-1", s.then(r).then(s), got[("rotate", (3,))]),
        ("rotate(2) = rotate(1)^2", r.then(r), got[("rotate", (2,))]),
        ("rotate(3) = rotate(1)^3", r.then(r).then(r), got[("rotate", (3,))]),
        ("rotate(0) = e", got[("rotate", (0,))], ident),
        ("reverse then complement = rotate(2)", got[("reverse", ())].then(got[("complement", ())]), got[("rotate", (2,))]),
        ("reverse_complement = rotate(2)", got[("reverse_complement", ())], got[("rotate", (2,))]),
        ("flip_antidiagonal = inverse then rotate(2)", s.then(got[("rotate", (2,))]), got[("flip_antidiagonal", ())]),
    ]
    rot = repo.need_method("Perm", "rotate")
    for name, lhs, rhs in rels:
        if lhs == rhs:
            ctx.ok("C04-A1", rot.where, f"relation {name} holds on the extracted maps (identity in n)")
        else:
            ctx.violation("C04-A1", rot, rot.node, f"dihedral relation {name} fails on the extracted maps: {lhs!r} vs {rhs!r}", robust=True)


def rule_a2(ctx: Ctx) -> None:
    """Every case distinction on the rotation count sees the count reduced modulo 4 (`times % 4`, directly or through a
    local bound to it – the parameter itself or another name)."""
    repo = ctx.repo
    for cname in ("Perm", "MeshPatt"):
        fi = repo.need_method(cname, "rotate")
        p = fi.params[1]
        reduced = set()      # names currently holding p % 4
        raw = {p}            # names holding the unreduced count
        verdict_done = False
        n_tests = 0

        def is_mod4(v: ast.AST) -> bool:
            return isinstance(v, ast.BinOp) and isinstance(v.op, ast.Mod) and isinstance(v.left, ast.Name) and v.left.id in raw and isinstance(v.right, ast.Constant) and v.right.value == 4

        for st in fi.body:
            if isinstance(st, (ast.Assign, ast.AnnAssign)) and st.value is not None:
                tgt = st.targets[0] if isinstance(st, ast.Assign) else st.target
                uses = {n.id for n in ast.walk(st.value) if isinstance(n, ast.Name)}
                if isinstance(tgt, ast.Name) and uses & (raw | reduced):
                    if is_mod4(st.value):
                        reduced.add(tgt.id)
                        raw.discard(tgt.id)
                        ctx.ok("C04-A2", fi.where, f"`{unparse(st)}`: every integer count is reduced to its residue in 0..3 (Python % is non-negative); the four residues are covered (A1/A3 extract one map per residue)", st, fi)
                        continue
                    if isinstance(st.value, ast.BinOp) and isinstance(st.value.op, ast.Mod) and uses & raw:
                        ctx.violation("C04-A2", fi, st, f"rotation count is normalised by `{unparse(st.value)}`; only `{p} % 4` maps every integer (negative included) to the right quarter-turn count", robust=True)
                        verdict_done = True
                        break
                    if isinstance(st.value, ast.Name) and st.value.id in reduced:
                        reduced.add(tgt.id)
                        continue
                    if isinstance(st.value, ast.Call) and all(isinstance(a, ast.Name) or not ({n.id for n in ast.walk(a) if isinstance(n, ast.Name)} & (raw | reduced)) for a in st.value.args) \
                            and not ({n.id for n in ast.walk(st.value.func) if isinstance(n, ast.Name)} & (raw | reduced)):
                        continue  # the count is handed on as an argument (e.g. self.pattern.rotate(times)); nothing is derived from it here
                    # pure integer arithmetic on the count (%, +, -, *, //, conditional on comparisons with constants): folded for a
                    # window of integer counts wide enough for every branch and residue
                    src = uses & raw
                    if len(src) == 1 and not (uses - src) and not any(isinstance(n, (ast.Call, ast.Attribute, ast.Subscript)) for n in ast.walk(st.value)):
                        from ..affine import fold_int
                        (cn,) = src
                        vals = {t: fold_int(st.value, {cn: t}) for t in range(-13, 14)}
                        if all(v is not None for v in vals.values()):
                            bad = [t for t, v in vals.items() if v != t % 4]
                            if not bad:
                                reduced.add(tgt.id)
                                raw.discard(tgt.id)
                                ctx.ok("C04-A2", fi.where, f"`{unparse(st)[:70]}` folds to count % 4 for every count in -13..13 (all branches, all residues)", st, fi)
                                continue
                            t = min(bad, key=abs)
                            ctx.violation("C04-A2", fi, st, f"rotation count is normalised by `{unparse(st.value)[:80]}`: for a count of {t} it gives {vals[t]}, the quarter-turn count is {t % 4}", robust=True)
                            verdict_done = True
                            break
                    raise AnalysisError(f"{fi.where}: `{unparse(st)}` derives a value from the rotation count in an unrecognised way")
            for node in ast.walk(st):
                if isinstance(node, (ast.If, ast.IfExp, ast.While)):
                    names = {n.id for n in ast.walk(node.test) if isinstance(n, ast.Name)}
                    if not names & (raw | reduced):
                        continue
                    n_tests += 1
                    # occurrences of a raw name are fine only inside `raw % 4`
                    bad = False
                    mods = [m for m in ast.walk(node.test) if is_mod4(m)]
                    covered = {id(m.left) for m in mods}
                    for n in ast.walk(node.test):
                        if isinstance(n, ast.Name) and n.id in raw and id(n) not in covered:
                            bad = True
                    if bad:
                        ctx.violation("C04-A2", fi, st, f"the rotation count `{p}` is not reduced modulo 4 before the case analysis (`{unparse(node.test)}`): counts outside 0..3 (negative ones included) fall into the wrong case", robust=True)
                        verdict_done = True
                        break
            if verdict_done:
                break
        if verdict_done:
            continue
        if n_tests == 0:
            raise AnalysisError(f"{fi.where}: no case analysis on the rotation count found")
        if not reduced:
            ctx.ok("C04-A2", fi.where, "branches test `times % 4` directly", fi.node, fi)


def rule_a3(ctx: Ctx, po: PermOps, mo: MeshOps) -> None:
    repo = ctx.repo
    for (mname, args), want in MESH_TABLE.items():
        fi = repo.need_method("MeshPatt", mname)
        try:
            pm, cm = mo.maps(mname, consts_for(mname, args, fi))
        except AnalysisError as exc:
            ctx.undecided.append(str(exc))
            continue
        label = f"MeshPatt.{mname}({', '.join(map(str, args))})"
        if pm != D4_POINT[want]:
            ctx.violation("C04-A3", fi, fi.node, f"{label} applies {name_of_point_map(pm) or repr(pm)} to the underlying pattern; its name/argument states {want}", robust=True)
            continue
        try:
            ind = induced_cell_map(pm)
        except AnalysisError as exc:
            ctx.undecided.append(str(exc))
            continue
        if cm == ind:
            ctx.ok("C04-A3", fi.where, f"{label}: pattern moved by {want}, cells by (x, y) -> ({cm.a!r}, {cm.b!r}) = the map induced on cells", fi.node, fi)
        else:
            ctx.violation("C04-A3", fi, fi.node, f"{label} moves the points by {want} but the shaded cells by (x, y) -> ({cm.a!r}, {cm.b!r}); the induced cell map is (x, y) -> ({ind.a!r}, {ind.b!r}): shading and points are transformed inconsistently", robust=True)


# ------------------------------------------------------------------ A4: abstract execution over D4


class Orbit:
    """Abstract execution of the orbit builders: values are group elements relative to the input."""

    TRANSPARENT = {"tuple", "list", "sorted", "frozenset", "set"}

    def __init__(self, ctx: Ctx, po: PermOps, op_of_method, helpers: Dict[str, Map2], stabiliser: Optional[List[Map2]] = None):
        self.ctx = ctx
        self.po = po
        self.op_of_method = op_of_method
        self.helpers = helpers
        self.wrappers_on_collected: List[str] = []
        # symmetry type of the input: images g(x), g'(x) coincide iff they lie in the same coset of Stab(x)
        self.stab = stabiliser or [D4_POINT["id"]]

    def canon(self, g: Map2) -> Map2:
        """Canonical representative of the image g(x) when x is fixed by every element of the stabiliser."""
        return min((h.then(g) for h in self.stab), key=repr)

    def val(self, fi: FuncInfo, node: ast.AST, env: Dict[str, object]):
        if isinstance(node, ast.Name):
            if node.id in env:
                v = env[node.id]
                return self.canon(v) if isinstance(v, Map2) else v
            raise AnalysisError(f"{fi.where}: unknown name {node.id} in orbit builder")
        if isinstance(node, ast.IfExp):
            a, b = self.val(fi, node.body, env), self.val(fi, node.orelse, env)
            if a == b:
                return a
            raise AnalysisError(f"{fi.where}: conditional with different symmetric images")
        if isinstance(node, (ast.Tuple, ast.Set, ast.List)):
            return [self.val(fi, e, env) for e in node.elts]
        if isinstance(node, ast.Call):
            cn = call_name(node)
            if cn and len(cn) == 1 and cn[0] in self.TRANSPARENT and len(node.args) == 1:
                return self.val(fi, node.args[0], env)
            if cn and len(cn) == 1 and cn[0] in self.helpers and len(node.args) == 1:
                base = self.val(fi, node.args[0], env)
                if not isinstance(base, Map2):
                    raise AnalysisError(f"{fi.where}: helper applied to a non-element")
                return self.canon(base.then(self.helpers[cn[0]]))
            if isinstance(node.func, ast.Attribute):
                base = self.val(fi, node.func.value, env)
                if isinstance(base, Map2):
                    return self.canon(base.then(self.op_of_method(fi, node)))
        raise AnalysisError(f"{fi.where}: expression `{unparse(node)[:60]}` not recognised in orbit builder")

    def wrappers(self, node: ast.AST) -> List[str]:
        out = []
        while isinstance(node, ast.Call) and call_name(node) and len(call_name(node)) == 1 and call_name(node)[0] in self.TRANSPARENT and len(node.args) == 1:
            out.append(call_name(node)[0])
            node = node.args[0]
        return out

    def run(self, fi: FuncInfo, start_names: List[str]) -> Tuple[Set[Map2], str]:
        env: Dict[str, object] = {nm: self.canon(D4_POINT["id"]) for nm in start_names}
        sets: Dict[str, Set[Map2]] = {}
        returned: Optional[str] = None

        class _Break(Exception):
            pass

        class _Continue(Exception):
            pass

        ints: Dict[str, int] = {}

        def truth(t: ast.AST) -> bool:
            if isinstance(t, ast.UnaryOp) and isinstance(t.op, ast.Not):
                return not truth(t.operand)
            if isinstance(t, ast.Name) and t.id in ints:
                return bool(ints[t.id])
            if isinstance(t, ast.Compare) and len(t.ops) == 1 and isinstance(t.left, ast.Name) and t.left.id in ints and isinstance(t.comparators[0], ast.Constant) and isinstance(t.comparators[0].value, int):
                a, b = ints[t.left.id], t.comparators[0].value
                op = type(t.ops[0])
                table = {ast.Eq: a == b, ast.NotEq: a != b, ast.Lt: a < b, ast.LtE: a <= b, ast.Gt: a > b, ast.GtE: a >= b}
                if op in table:
                    return table[op]
            if isinstance(t, ast.Compare) and len(t.ops) == 1 and isinstance(t.ops[0], (ast.In, ast.NotIn)) and isinstance(t.comparators[0], ast.Name) and t.comparators[0].id in sets:
                v = self.val(fi, t.left, env)
                if isinstance(v, Map2):
                    res = v in sets[t.comparators[0].id]
                    return res if isinstance(t.ops[0], ast.In) else not res
            if isinstance(t, ast.Compare) and len(t.ops) == 1 and isinstance(t.ops[0], (ast.Eq, ast.NotEq)):
                a, b = self.val(fi, t.left, env), self.val(fi, t.comparators[0], env)
                if isinstance(a, Map2) and isinstance(b, Map2):
                    return (a == b) if isinstance(t.ops[0], ast.Eq) else (a != b)
            raise AnalysisError(f"{fi.where}: condition `{unparse(t)[:60]}` not recognised in orbit builder")

        def assign(t: ast.AST, v: ast.AST) -> None:
            if not isinstance(t, ast.Name):
                raise AnalysisError(f"{fi.where}: assignment target {unparse(t)}")
            if isinstance(v, ast.Call) and unparse(v) in ("set()",):
                sets[t.id] = set()
            elif isinstance(v, ast.Set):
                vals = [self.val(fi, e, env) for e in v.elts]
                sets[t.id] = set(vals)
                for e in v.elts:
                    self.wrappers_on_collected.append("/".join(self.wrappers(e)))
            else:
                env[t.id] = self.val(fi, v, env)

        def exec_block(stmts) -> None:
            nonlocal returned
            for st in stmts:
                if isinstance(st, (ast.Assign, ast.AnnAssign)):
                    tgt = st.targets[0] if isinstance(st, ast.Assign) else st.target
                    if isinstance(tgt, ast.Tuple) and isinstance(st.value, ast.Tuple):
                        # simultaneous assignment: evaluate all right-hand sides first
                        olds = dict(env)
                        for t, v in zip(tgt.elts, st.value.elts):
                            saved = dict(env)
                            env.clear()
                            env.update(olds)
                            assign(t, v)
                            newv = env.get(t.id) if isinstance(t, ast.Name) else None
                            env.clear()
                            env.update(saved)
                            if newv is not None and not isinstance(v, ast.Set):
                                env[t.id] = newv
                    else:
                        assign(tgt, st.value)
                elif isinstance(st, ast.For):
                    it = st.iter
                    if not (isinstance(it, ast.Call) and call_name(it) == ("range",) and len(it.args) == 1):
                        raise AnalysisError(f"{fi.where}: loop bound `{unparse(it)}` is not range(<constant>)")
                    try:
                        k = const_value(it.args[0])
                    except ValueError:
                        raise AnalysisError(f"{fi.where}: loop bound is not constant")
                    try:
                        for _i in range(k):
                            if isinstance(st.target, ast.Name):
                                ints[st.target.id] = _i
                            try:
                                exec_block(st.body)
                            except _Continue:
                                continue
                    except _Break:
                        pass
                elif isinstance(st, ast.If):
                    exec_block(st.body if truth(st.test) else st.orelse)
                elif isinstance(st, ast.Break):
                    raise _Break()
                elif isinstance(st, ast.Continue):
                    raise _Continue()
                elif isinstance(st, ast.Expr) and isinstance(st.value, ast.Call):
                    cn = call_name(st.value)
                    if cn and len(cn) == 2 and cn[0] in sets and cn[1] in ("add", "update"):
                        arg = st.value.args[0]
                        if cn[1] == "add":
                            sets[cn[0]].add(self.val(fi, arg, env))
                            self.wrappers_on_collected.append("/".join(self.wrappers(arg)))
                        else:
                            vals = self.val(fi, arg, env)
                            if not isinstance(vals, list):
                                raise AnalysisError(f"{fi.where}: update() with a non-display argument")
                            sets[cn[0]].update(vals)
                            for e in arg.elts:  # type: ignore[attr-defined]
                                self.wrappers_on_collected.append("/".join(self.wrappers(e)))
                    else:
                        raise AnalysisError(f"{fi.where}: statement `{unparse(st)[:60]}` not recognised in orbit builder")
                elif isinstance(st, ast.Return):
                    v = st.value
                    while isinstance(v, ast.Call) and call_name(v) and call_name(v)[0] in self.TRANSPARENT and len(v.args) == 1:
                        v = v.args[0]
                    if isinstance(v, ast.Name) and v.id in sets:
                        returned = v.id
                    else:
                        raise AnalysisError(f"{fi.where}: returns `{unparse(st.value)[:50]}`, not the collected set")
                    return
                else:
                    raise AnalysisError(f"{fi.where}: statement `{unparse(st)[:60]}` not recognised in orbit builder")

        exec_block(fi.body)
        if returned is None:
            raise AnalysisError(f"{fi.where}: no collected set returned")
        return sets[returned], returned


def rule_a4(ctx: Ctx, po: PermOps, mo: MeshOps) -> None:
    repo = ctx.repo
    full = set(D4_POINT.values())
    helpers = helper_maps(ctx, po, record=False)

    def perm_method(fi: FuncInfo, call: ast.Call) -> Map2:
        return po.call_map(fi, call, {})

    def mesh_method(fi: FuncInfo, call: ast.Call) -> Map2:
        mname = call.func.attr
        target = repo.need_method("MeshPatt", mname)
        consts = {}
        dflt = target.node.args.defaults
        params = target.params[1:]
        for p, d in zip(params[len(params) - len(dflt):], dflt):
            consts[p] = const_value(d)
        for i, a in enumerate(call.args):
            consts[params[i]] = const_value(a)
        pm, _cm = mo.maps(target.name, consts)
        return pm

    jobs = [
        ("Perm.all_syms", repo.need_method("Perm", "all_syms"), perm_method, ["self"]),
        ("MeshPatt.all_syms", repo.need_method("MeshPatt", "all_syms"), mesh_method, ["self"]),
        ("all_symmetry_sets", repo.func("permuta.permutils.symmetry:all_symmetry_sets"), perm_method, None),
    ]
    subgroups = d4_subgroups()
    for label, fi, opm, starts in jobs:
        start = starts if starts is not None else [fi.params[0]]
        ob = Orbit(ctx, po, opm, helpers)
        bad = None
        try:
            for H in subgroups:
                ob = Orbit(ctx, po, opm, helpers, H)
                got, _name = ob.run(fi, start)
                want = {ob.canon(g) for g in full}
                if got != want:
                    missing = sorted(k for k, v in D4_POINT.items() if ob.canon(v) not in got)
                    foreign = [repr(g) for g in got if g not in want]
                    bad = (H, got, missing, foreign, want)
                    break
        except AnalysisError as exc:
            ctx.undecided.append(str(exc))
            continue
        if bad is None:
            ctx.ok("C04-A4", fi.where, f"{label} collects exactly the orbit for every symmetry type of its input (abstract execution over D4 modulo each of its {len(subgroups)} subgroups as stabiliser; 8 images for an asymmetric input)", fi.node, fi)
        else:
            H, got, missing, foreign, want = bad
            kind = "an asymmetric input" if len(H) == 1 else f"an input fixed by {sorted(name_of_point_map(h) or repr(h) for h in H if h != D4_POINT['id'])}"
            ctx.violation("C04-A4", fi, fi.node, f"{label} returns {len(got)} of the {len(want)} symmetric images of {kind}; missing the images under {missing}{' foreign ' + str(foreign) if foreign else ''}: not the whole orbit", robust=True)
        if label == "all_symmetry_sets":
            bad = [w for w in ob.wrappers_on_collected if not (w.startswith("tuple/sorted") or w.startswith("frozenset"))]
            if bad:
                ctx.violation("C04-A4", fi, fi.node, f"a collected image is not put in canonical form tuple(sorted(..)) (wrappers {bad}): equal sets in different order would count as different images and lex_min would depend on the input order", robust=True)
            else:
                ctx.ok("C04-A4", fi.where, "every collected image is canonical: tuple(sorted(..))", fi.node, fi)
    lm = repo.func("permuta.permutils.symmetry:lex_min")
    ctx.run(check_skeleton, ctx, "C04-A4", lm, ["return min(all_symmetry_sets(a0))"], "lex_min = minimum of the orbit (same for every member of the orbit)", required_calls=["all_symmetry_sets"])
    cli = repo.module("permuta.cli").functions.get("get_lex_min")
    if cli is not None:
        txt = unparse(cli.node)
        if "lex_min(basis)" in txt and "Basis.from_string(args.basis)" in txt:
            ctx.ok("C04-A4", cli.where, "CLI lexmin prints lex_min(Basis.from_string(..))")
        else:
            raise AnalysisError(f"{cli.where}: CLI wrapper shape not recognised")


def d4_subgroups() -> List[List[Map2]]:
    """All subgroups of D4 (closures of generator subsets of the eight extracted-table maps)."""
    elems = list(D4_POINT.values())
    ident = D4_POINT["id"]
    seen: List[Set[Map2]] = []
    from itertools import combinations

    for r in range(0, 3):
        for gens in combinations(elems, r):
            grp = {ident} | set(gens)
            changed = True
            while changed:
                changed = False
                for a in list(grp):
                    for b in list(grp):
                        c = a.then(b)
                        if c not in grp:
                            grp.add(c)
                            changed = True
            if grp not in seen:
                seen.append(grp)
    return [sorted(g, key=repr) for g in sorted(seen, key=len)]


def helper_maps(ctx: Ctx, po: PermOps, record: bool = True) -> Dict[str, Map2]:
    repo = ctx.repo
    sym = repo.module("permuta.permutils.symmetry")
    out: Dict[str, Map2] = {}
    for name, want in HELPERS.items():
        fi = sym.functions.get(name)
        if fi is None:
            if record:
                ctx.undecided.append(f"anchor vanished: permutils.symmetry.{name}")
            continue
        body = fi.body
        ok = len(body) == 1 and isinstance(body[0], ast.Return) and isinstance(body[0].value, (ast.GeneratorExp, ast.ListComp)) and len(body[0].value.generators) == 1
        if not ok:
            if record:
                ctx.undecided.append(f"{fi.where}: helper shape not recognised")
            continue
        ge = body[0].value
        g = ge.generators[0]
        if g.ifs or unparse(g.iter) != fi.params[0] or not isinstance(g.target, ast.Name):
            if record:
                ctx.violation("C04-A5", fi, body[0], f"{name} does not map every element of its argument", robust=True)
            continue
        elt = ge.elt
        if not (isinstance(elt, ast.Call) and call_name(elt) and len(call_name(elt)) == 2 and call_name(elt)[0] == g.target.id):
            if record:
                ctx.undecided.append(f"{fi.where}: element expression `{unparse(elt)}` not recognised")
            continue
        try:
            m = po.call_map(fi, elt, {})
        except AnalysisError as exc:
            if record:
                ctx.undecided.append(str(exc))
            continue
        out[name] = m
        if record:
            if m == D4_POINT[want]:
                ctx.ok("C04-A5", fi.where, f"{name} maps each element by {want} ({unparse(elt)})", body[0], fi)
            else:
                ctx.violation("C04-A5", fi, body[0], f"{name} maps each element by {name_of_point_map(m) or repr(m)} ({unparse(elt)}); its name states {want}", robust=True)
    return out


def rule_a5(ctx: Ctx, po: PermOps) -> None:
    repo = ctx.repo
    helper_maps(ctx, po, record=True)
    for cname in ("Perm", "MeshPatt"):
        ci = repo.cls(cname)
        for alias, target in ALIASES.items():
            got = ci.aliases.get(alias)
            if got == target:
                ctx.ok("C04-A5", f"{ci.where}.{alias}", f"alias of {target}")
            elif got is not None:
                ctx.violation("C04-A5", ci.where, ci.assign_nodes[alias], f"{cname}.{alias} is bound to {got}; a flip across that axis is {target}", file=ci.module.relpath, robust=True)
            elif alias in ci.methods:
                raise AnalysisError(f"{cname}.{alias} became a method; not covered")
            else:
                ctx.note(f"{cname}.{alias} alias absent")


GENERIC_FILES = ['permuta/patterns/perm.py', 'permuta/patterns/meshpatt.py', 'permuta/permutils/symmetry.py']


def variants():
    from ..selftest import generic_equiv, generic_silent

    return _variants() + generic_silent(GENERIC_FILES) + generic_equiv(GENERIC_FILES)


def _variants():
    from ..selftest import V, insert_stmt, reformat_only, rename_local, replace_expr, replace_stmt

    PE, MP, SY = "permuta/patterns/perm.py", "permuta/patterns/meshpatt.py", "permuta/permutils/symmetry.py"
    return [
        V("orbit-keeps-one-shot-iterable", replace_expr(SY, "all_symmetry_sets", "isinstance(perms, list)", "isinstance(perms, Iterable)"), "fire", "C04-A6"),
        V("orbit-sequence-test", replace_expr(SY, "all_symmetry_sets", "isinstance(perms, list)", "isinstance(perms, (list, tuple))"), "silent"),
        V("orbit-no-copy", replace_stmt(SY, "all_symmetry_sets", "perms = perms if isinstance(perms, list) else list(perms)", ""), "fire", "C04-A6"),
        V("perm-rotate1-wrong", replace_stmt(PE, "Perm.rotate", "result[val] = n - idx - 1", "result[n - val - 1] = idx"), "fire", "C04-A1"),
        V("perm-complement-off-by-one", replace_stmt(PE, "Perm.complement", "base = len(self) - 1", "base = len(self)"), "fire", "C04-A1"),
        V("perm-antidiagonal-is-inverse", replace_expr(PE, "Perm.flip_antidiagonal", "((n - val - 1, n - idx - 1) for idx, val in enumerate(self))", "((val, idx) for idx, val in enumerate(self))"), "fire", "C04-A1"),
        V("perm-revcomp-not-reversed", replace_expr(PE, "Perm.reverse_complement", "reversed(self)", "self"), "fire", "C04-A1"),
        V("perm-rotate2-is-reverse", replace_expr(PE, "Perm.rotate", "self.reverse_complement()", "self.reverse()"), "fire", "C04-A1"),
        V("perm-rotate-branches-swapped", [replace_expr(PE, "Perm.rotate", "times == 1", "times == 3")], "fire", "C04-A1"),
        V("perm-rotate-abs", replace_stmt(PE, "Perm.rotate", "times = times % 4", "times = abs(times) % 4"), "fire", "C04-A2"),
        V("mesh-rotate-mod-3", replace_stmt(MP, "MeshPatt.rotate", "times = times % 4", "times = times % 3"), "fire", "C04-A2"),
        V("mesh-rotate-no-normalisation", replace_stmt(MP, "MeshPatt.rotate", "times = times % 4", ""), "fire", "C04-A2"),
        V("mesh-rotate1-cells-as-rotate3", replace_expr(MP, "MeshPatt.rotate", "((y, n - x) for x, y in self.shading)", "((n - y, x) for x, y in self.shading)"), "fire", "C04-A3"),
        V("mesh-complement-cells-unflipped", replace_expr(MP, "MeshPatt.complement", "((x, n - y) for x, y in self.shading)", "((x, y) for x, y in self.shading)"), "fire", "C04-A3"),
        V("mesh-reverse-cells-n-minus-1", replace_expr(MP, "MeshPatt.reverse", "((n - x, y) for x, y in self.shading)", "((n - 1 - x, y) for x, y in self.shading)"), "fire", "C04-A3"),
        V("mesh-inverse-pattern-not-inverted", replace_expr(MP, "MeshPatt.inverse", "self.pattern.inverse()", "self.pattern"), "fire", "C04-A3"),
        V("mesh-rotate-pattern-other-count", replace_expr(MP, "MeshPatt.rotate", "self.pattern.rotate(times)", "self.pattern.rotate(times + 2)"), "fire", "C04-A3"),
        V("perm-allsyms-range-2", replace_expr(PE, "Perm.all_syms", "range(3)", "range(2)"), "fire", "C04-A4"),
        V("perm-allsyms-no-inverse", replace_expr(PE, "Perm.all_syms", "(curr, curr.inverse())", "(curr, curr.reverse().complement())"), "fire", "C04-A4"),
        V("mesh-allsyms-rotate-2", replace_expr(MP, "MeshPatt.all_syms", "current.rotate()", "current.rotate(2)"), "fire", "C04-A4"),
        V("mesh-allsyms-early-break", insert_stmt(MP, "MeshPatt.all_syms", "symmetries.update((current, current.inverse()))", "if current in symmetries:\n    break", "before"), "fire", "C04-A4"),
        V("perm-allsyms-break-at-start", insert_stmt(PE, "Perm.all_syms", "syms.update((curr, curr.inverse()))", "if curr == self:\n    break", "before"), "silent", note="stopping when the rotation returns to the start is sound for every symmetry type"),
        V("symsets-no-inverse-in-loop", replace_stmt(SY, "all_symmetry_sets", "answer.add(tuple(sorted(inverse_set(perms))))", "", ), "fire", "C04-A4"),
        V("symsets-unsorted", replace_expr(SY, "all_symmetry_sets", "tuple(sorted(perms))", "tuple(perms)", which=2), "fire", "C04-A4"),
        V("symsets-rotate-180", replace_expr(SY, "all_symmetry_sets", "rotate_90_clockwise_set(perms)", "rotate_180_clockwise_set(perms)"), "fire", "C04-A4"),
        V("lexmin-max", replace_expr(SY, "lex_min", "min(all_symmetry_sets(perms))", "max(all_symmetry_sets(perms))"), "fire-or-undecided", "C04-A4"),
        V("lexmin-no-orbit", replace_expr(SY, "lex_min", "min(all_symmetry_sets(perms))", "min([tuple(sorted(perms))])"), "fire", "C04-A4"),
        V("helper-270-uses-1", replace_expr(SY, "rotate_270_clockwise_set", "perm.rotate(3)", "perm.rotate(1)"), "fire", "C04-A5"),
        V("helper-antidiagonal-inverse", replace_expr(SY, "antidiagonal_set", "perm.flip_antidiagonal()", "perm.inverse()"), "fire", "C04-A5"),
        V("alias-flip-horizontal-reverse", replace_stmt(MP, "MeshPatt", "flip_horizontal = complement", "flip_horizontal = reverse"), "fire", "C04-A5"),
        # silent
        V("reformat-perm", reformat_only(PE), "silent"),
        V("reformat-symmetry", reformat_only(SY), "silent"),
        V("perm-complement-inline", [replace_stmt(PE, "Perm.complement", "base = len(self) - 1", ""), replace_expr(PE, "Perm.complement", "base - element", "len(self) - 1 - element")], "silent"),
        V("perm-rotate3-rewritten", replace_stmt(PE, "Perm.rotate", "result[n - val - 1] = idx", "result[n - 1 - val] = idx"), "silent"),
        V("perm-reverse-slice", replace_expr(PE, "Perm.reverse", "Perm(reversed(self))", "Perm(self[::-1])"), "silent"),
        V("mesh-rotate2-via-locals", replace_expr(MP, "MeshPatt.rotate", "((n - x, n - y) for x, y in self.shading)", "((n - a, n - b) for a, b in self.shading)"), "silent"),
        V("helper-270-minus-1", replace_expr(SY, "rotate_270_clockwise_set", "perm.rotate(3)", "perm.rotate(-1)"), "silent"),
        V("perm-allsyms-range-4", replace_expr(PE, "Perm.all_syms", "range(3)", "range(4)"), "silent", note="one more turn revisits the start: still the whole orbit"),
    ]

EXPLANATION = EXPLANATION + (" Added while building: (A6) the set-level helpers of permutils/symmetry.py (all_symmetry_sets, lex_min, *_set) consume a possibly one-shot iterable at most "
                             "once on every path (one-shot discipline, sa/oneshot.py); (A2) any pure integer normalisation of the rotation count is folded for counts -13..13 and must equal count % 4.")
