"""C06 – pattern-inside-pattern containment: induced sub-pattern and inclusion direction."""

from __future__ import annotations

import ast
from typing import Dict, List, Optional, Tuple

from ..core import AnalysisError, FuncInfo, Repo, attr_chain, call_name, unparse, walk_no_nested
from ..report import Ctx
from ..skelrules import check_skeleton
from . import c01

PROP = "C06"
FLOORS = {"C06-I1": 2, "C06-K1": 4, "C06-K2": 1, "C06-K3": 4}

EXPLANATION = (
    "Decided (thin claim – necessary conditions at skeleton level): (a) the induced sub-pattern shades exactly the cells whose whole region is shaded AND "
    "point free, quantified over every cell of the (k+1)x(k+1) grid with the same region handed to both tests, and the induced pattern is the "
    "standardisation of the selected entries in position order (K1); (b) an occurrence inside a mesh pattern is a classical occurrence of the underlying "
    "pattern whose induced shading covers the smaller pattern's – the direction of the inclusion (K2); (c) contains/avoids/`in` between mesh patterns are "
    "aggregates of that listing (K3 = C01-D1 rows for MeshPatt). NOT decided: the region bookkeeping (which original columns/rows merge into one cell, "
    "inclusive/exclusive ends in is_shaded / is_pointfree) and the semantic implication 'contains the larger => contains the smaller'; off-by-one "
    "mutants there are not detected."
)


def run(ctx: Ctx) -> None:
    ctx.run(rule_k1, ctx)
    ctx.run(rule_k2, ctx)
    ctx.run(rule_k3, ctx)
    from .. import oneshot

    ctx.run(oneshot.report, ctx, "C06-I1", ["permuta.patterns.meshpatt"], ["MeshPatt.sub_mesh_pattern"])


def rule_k1(ctx: Ctx) -> None:
    repo = ctx.repo
    f = repo.need_method("MeshPatt", "sub_mesh_pattern")
    idx = f.params[1]
    env = {}
    for st in f.body:
        if isinstance(st, (ast.Assign, ast.AnnAssign)) and st.value is not None:
            t = st.targets[0] if isinstance(st, ast.Assign) else st.target
            env[unparse(t)] = st.value
    # indices are put in position order first
    first = f.body[0]
    if isinstance(first, ast.Assign) and unparse(first) == f"{idx} = sorted({idx})":
        ctx.ok("C06-K1", f.where, "selected indices are sorted (position order)", first, f)
    elif not any(isinstance(n, ast.Call) and (call_name(n) == (idx, "sort") or (call_name(n) == ("sorted",) and n.args and idx in {x.id for x in ast.walk(n.args[0]) if isinstance(x, ast.Name)}
                                                                                 and not any(isinstance(x, ast.Subscript) for x in ast.walk(n.args[0])))) for n in ast.walk(f.node)):
        ctx.violation("C06-K1", f, first, "the selected indices are not put in position order before the sub-pattern is induced")
    else:
        raise AnalysisError(f"{f.where}: where the selected indices are put in position order is not recognised")
    # induced pattern
    patt_name = None
    for k, v in env.items():
        if isinstance(v, ast.Call) and call_name(v) in (("Perm", "to_standard"), ("Perm", "standardize")):
            patt_name = k
            ge = v.args[0]
            if isinstance(ge, ast.Name) and ge.id in env:
                ge = env[ge.id]  # a local holding the selected entries
            if isinstance(ge, (ast.GeneratorExp, ast.ListComp)) and len(ge.generators) == 1 and not ge.generators[0].ifs and unparse(ge.generators[0].iter) == idx and unparse(ge.elt) == f"self.pattern[{unparse(ge.generators[0].target)}]":
                ctx.ok("C06-K1", f.where, "induced pattern = standardisation of the selected entries in position order", v, f)
            elif isinstance(ge, (ast.GeneratorExp, ast.ListComp)) and len(ge.generators) == 1 and unparse(ge.generators[0].iter) == idx:
                ctx.violation("C06-K1", f, v, f"induced pattern is built from `{unparse(ge)[:60]}`, not from the selected entries self.pattern[i] for i in indices")
            else:
                raise AnalysisError(f"{f.where}: how the induced pattern is built (`{unparse(ge)[:60]}`) is not recognised")
    if patt_name is None:
        raise AnalysisError(f"{f.where}: induced pattern not recognised")
    # the shading comprehension
    sh = None
    for k, v in env.items():
        if isinstance(v, ast.Call) and call_name(v) in (("frozenset",), ("set",)) and v.args and isinstance(v.args[0], ast.GeneratorExp):
            sh = (k, v.args[0], v)
        elif isinstance(v, ast.SetComp):
            sh = (k, v, v)
    if sh is None:
        raise AnalysisError(f"{f.where}: shading comprehension not recognised")
    sh_name, ge, node = sh
    gens = ge.generators
    want_rng = f"range(len({patt_name}) + 1)"
    if len(gens) != 2 or any(unparse(g.iter) != want_rng for g in gens):
        if len(gens) == 2 and all(isinstance(g.iter, ast.Call) and call_name(g.iter) == ("range",) and len(g.iter.args) == 1 and patt_name in unparse(g.iter) for g in gens):
            ctx.violation("C06-K1", f, node, f"cells are enumerated over {[unparse(g.iter) for g in gens]}; every cell of the induced grid is range(len({patt_name}) + 1) x range(len({patt_name}) + 1)")
            return
        raise AnalysisError(f"{f.where}: how the cells of the induced grid are enumerated ({[unparse(g.iter)[:40] for g in gens]}) is not recognised")
    if gens[0].ifs:
        ctx.violation("C06-K1", f, node, "a filter on the first coordinate drops cells")
        return
    xs, ys = unparse(gens[0].target), unparse(gens[1].target)
    if unparse(ge.elt) != f"({xs}, {ys})":
        if unparse(ge.elt) == f"({ys}, {xs})":
            ctx.violation("C06-K1", f, node, f"shaded cell is recorded as {unparse(ge.elt)}, not ({xs}, {ys})")
            return
        raise AnalysisError(f"{f.where}: recorded cell `{unparse(ge.elt)}` not recognised")
    if len(gens[1].ifs) != 1:
        raise AnalysisError(f"{f.where}: expected one cell condition")
    cond = gens[1].ifs[0]
    if not (isinstance(cond, ast.BoolOp) and isinstance(cond.op, ast.And) and len(cond.values) == 2):
        if isinstance(cond, ast.BoolOp) and isinstance(cond.op, ast.Or):
            ctx.violation("C06-K1", f, cond, "a cell is shaded when its region is shaded OR point free; both are required")
        elif isinstance(cond, ast.Call) and call_name(cond) and call_name(cond)[-1] in ("is_shaded", "is_pointfree"):
            other = "is_pointfree" if call_name(cond)[-1] == "is_shaded" else "is_shaded"
            ctx.violation("C06-K1", f, cond, f"a cell is shaded without requiring {other}(region): the induced pattern claims more than the original implies")
        else:
            raise AnalysisError(f"{f.where}: cell condition `{unparse(cond)[:80]}` not recognised")
        return
    calls = {}
    for v in cond.values:
        if isinstance(v, ast.Call) and call_name(v) and call_name(v)[0] == f.params[0] and call_name(v)[1] in ("is_shaded", "is_pointfree") and len(v.args) == 2:
            calls[call_name(v)[1]] = [unparse(a) for a in v.args]
        else:
            ctx.violation("C06-K1", f, cond, f"conjunct `{unparse(v)[:60]}` is not is_shaded(region) / is_pointfree(region)")
            return
    if set(calls) != {"is_shaded", "is_pointfree"}:
        ctx.violation("C06-K1", f, cond, f"the two conjuncts are {sorted(calls)}; both is_shaded and is_pointfree are required")
        return
    if calls["is_shaded"] != calls["is_pointfree"]:
        ctx.violation("C06-K1", f, cond, f"is_shaded is asked about {calls['is_shaded']} but is_pointfree about {calls['is_pointfree']}: the two tests must see the same region", robust=True)
        return
    ctx.ok("C06-K1", f.where, f"cell ({xs}, {ys}) shaded iff is_shaded(R) and is_pointfree(R) for the same region R, for every cell of the induced grid", cond, f)
    rets = [st for st in f.body if isinstance(st, ast.Return)]
    if not rets or rets[-1].value is None or f.body[-1] is not rets[-1]:
        ctx.violation("C06-K1", f, f.node, "sub_mesh_pattern does not end by returning the induced mesh pattern")
        return
    if unparse(rets[-1].value) == f"MeshPatt({patt_name}, {sh_name})":
        ctx.ok("C06-K1", f.where, "result = MeshPatt(induced pattern, induced shading)", rets[-1], f)
    else:
        ctx.violation("C06-K1", f, rets[-1], f"returns {unparse(rets[-1].value)[:60]}, not MeshPatt({patt_name}, {sh_name})")


def rule_k2(ctx: Ctx) -> None:
    f = ctx.repo.need_method("MeshPatt", "_occurrences_in_mesh")
    specs = [
        "return (o for o in self.occurrences_in(a0.pattern) if self.shading <= a0.sub_mesh_pattern(o).shading)",
        "return (o for o in self.occurrences_in(a0.pattern) if self.shading.issubset(a0.sub_mesh_pattern(o).shading))",
        "return (o for o in self.pattern.occurrences_in(a0.pattern) if self.shading <= a0.sub_mesh_pattern(o).shading)",
        "for o in self.occurrences_in(a0.pattern):\n    if self.shading <= a0.sub_mesh_pattern(o).shading:\n        yield o",
    ]
    from .c11 import generator_or_skeleton

    body = f.body
    if len(body) == 1 and isinstance(body[0], ast.For):
        generator_or_skeleton(ctx, f, specs, "occurrence in a mesh pattern = classical occurrence whose induced shading covers self.shading", rule="C06-K2")
        return
    check_skeleton(ctx, "C06-K2", f, specs[:3], "occurrence in a mesh pattern = classical occurrence whose induced shading covers self.shading (self.shading <= induced)",
                   required_calls=["sub_mesh_pattern", "occurrences_in"])


def rule_k3(ctx: Ctx) -> None:
    sub = Ctx("C01", ctx.repo)
    c01.rule_d1(sub)
    for o in sub.obligations:
        if ":MeshPatt." in o["where"] and o["verdict"] == "discharged":
            ctx.ok("C06-K3", o["where"], o["what"][:160])
    for fd in sub.findings:
        if ":MeshPatt." in fd.where:
            fi = ctx.repo.funcs[fd.where]
            ctx.violation("C06-K3", fi, fi.node, fd.message, robust=True)
    if sub.undecided:
        raise AnalysisError("; ".join(sub.undecided))


GENERIC_FILES = ['permuta/patterns/meshpatt.py']


def variants():
    from ..selftest import generic_equiv, generic_silent

    return _variants() + generic_silent(GENERIC_FILES) + generic_equiv(GENERIC_FILES)


def _variants():
    from ..selftest import V, insert_stmt, reformat_only, rename_local, replace_expr, replace_stmt

    MP = "permuta/patterns/meshpatt.py"
    R = "(vertical[x], horizontal[y]), (vertical[x + 1] - 1, horizontal[y + 1] - 1)"
    return [
        V("submesh-drop-pointfree", replace_expr(MP, "MeshPatt.sub_mesh_pattern", f"self.is_shaded({R}) and self.is_pointfree({R})", f"self.is_shaded({R})"), "fire", "C06-K1"),
        V("submesh-drop-shaded", replace_expr(MP, "MeshPatt.sub_mesh_pattern", f"self.is_shaded({R}) and self.is_pointfree({R})", f"self.is_pointfree({R})"), "fire", "C06-K1"),
        V("submesh-or", replace_expr(MP, "MeshPatt.sub_mesh_pattern", f"self.is_shaded({R}) and self.is_pointfree({R})", f"self.is_shaded({R}) or self.is_pointfree({R})"), "fire", "C06-K1"),
        V("submesh-different-regions", replace_expr(MP, "MeshPatt.sub_mesh_pattern", f"self.is_pointfree({R})", "self.is_pointfree((vertical[x], horizontal[y]), (vertical[x + 1], horizontal[y + 1]))"), "fire", "C06-K1"),
        V("submesh-narrow-range", replace_expr(MP, "MeshPatt.sub_mesh_pattern", "range(len(pattern) + 1)", "range(len(pattern))", which=1), "fire", "C06-K1"),
        V("submesh-cell-transposed", replace_expr(MP, "MeshPatt.sub_mesh_pattern", "(x, y)", "(y, x)", which=1), "fire", "C06-K1"),
        V("submesh-unsorted-indices", replace_stmt(MP, "MeshPatt.sub_mesh_pattern", "indices = sorted(indices)", "indices = list(indices)"), "fire", "C06-K1"),
        V("submesh-pattern-from-values", replace_expr(MP, "MeshPatt.sub_mesh_pattern", "Perm.to_standard((self.pattern[index] for index in indices))", "Perm.to_standard((index for index in indices))"), "fire", "C06-K1"),
        V("occ-in-mesh-superset", replace_expr(MP, "MeshPatt._occurrences_in_mesh", "self.shading <= patt.sub_mesh_pattern(occurrence).shading", "self.shading >= patt.sub_mesh_pattern(occurrence).shading"), "fire", "C06-K2"),
        V("occ-in-mesh-no-filter", replace_expr(MP, "MeshPatt._occurrences_in_mesh", "(occurrence for occurrence in self.occurrences_in(patt.pattern) if self.shading <= patt.sub_mesh_pattern(occurrence).shading)", "(occurrence for occurrence in self.occurrences_in(patt.pattern))"), "fire", "C06-K2"),
        V("occ-in-mesh-raw-shading", replace_expr(MP, "MeshPatt._occurrences_in_mesh", "patt.sub_mesh_pattern(occurrence).shading", "patt.shading"), "fire", "C06-K2"),
        V("mesh-avoids-any", replace_expr(MP, "MeshPatt.avoids", "all((not self._contains(patt) for patt in patts))", "any((not self._contains(patt) for patt in patts))"), "fire", "C06-K3"),
        V("submesh-boundary-no-plus-one", replace_expr(MP, "MeshPatt.sub_mesh_pattern", "(index + 1 for index in indices)", "(index for index in indices)"), "fire", "C06-K4"),
        V("submesh-values-unsorted", replace_expr(MP, "MeshPatt.sub_mesh_pattern", "sorted((self.pattern[index] + 1 for index in indices))", "(self.pattern[index] + 1 for index in indices)"), "fire", "C06-K4"),
        V("submesh-border-n", replace_expr(MP, "MeshPatt.sub_mesh_pattern", "vertical.append(n + 1)", "vertical.append(n)"), "fire", "C06-K4"),
        V("submesh-region-upper-inclusive", replace_expr(MP, "MeshPatt.sub_mesh_pattern", "(vertical[x + 1] - 1, horizontal[y + 1] - 1)", "(vertical[x + 1], horizontal[y + 1] - 1)", which=1), "fire", "C06-K"),
        V("submesh-rows-cols-swapped", [replace_expr(MP, "MeshPatt.sub_mesh_pattern", "(vertical[x], horizontal[y])", "(horizontal[x], vertical[y])", which=None),
                                        replace_expr(MP, "MeshPatt.sub_mesh_pattern", "(vertical[x + 1] - 1, horizontal[y + 1] - 1)", "(horizontal[x + 1] - 1, vertical[y + 1] - 1)", which=None)], "fire", "C06-K4"),
        V("pointfree-inclusive", replace_expr(MP, "MeshPatt.is_pointfree", "lower <= self.pattern[idx] < upper", "lower <= self.pattern[idx] <= upper"), "fire", "C06-K4"),
        # silent
        V("reformat", reformat_only(MP), "silent"),
        V("occ-in-mesh-issubset", replace_expr(MP, "MeshPatt._occurrences_in_mesh", "self.shading <= patt.sub_mesh_pattern(occurrence).shading", "self.shading.issubset(patt.sub_mesh_pattern(occurrence).shading)"), "silent"),
        V("occ-in-mesh-flipped-ge", replace_expr(MP, "MeshPatt._occurrences_in_mesh", "self.shading <= patt.sub_mesh_pattern(occurrence).shading", "patt.sub_mesh_pattern(occurrence).shading >= self.shading"), "silent"),
        V("submesh-conjuncts-swapped", replace_expr(MP, "MeshPatt.sub_mesh_pattern", f"self.is_shaded({R}) and self.is_pointfree({R})", f"self.is_pointfree({R}) and self.is_shaded({R})"), "silent"),
        V("rename-xy", [rename_local(MP, "MeshPatt.sub_mesh_pattern", "x", "col"), rename_local(MP, "MeshPatt.sub_mesh_pattern", "y", "row")], "silent"),
    ]


# ------------------------------------------------------------------ K4: region bookkeeping of the induced sub-pattern


def rule_k4(ctx: Ctx) -> None:
    """Induced cell (x, y) lies between the selected points x-1 and x (in position) and between the selected values
    y-1 and y: original columns idx[x-1]+1 .. idx[x] and rows val[y-1]+1 .. val[y] (with 0 and n as outer borders).
    With boundaries B = [0] + [b + 1 for the selected lines] + [n + 1] the block of cell (x, y) is
    [V[x] .. V[x+1]-1] x [H[y] .. H[y+1]-1]."""
    f = ctx.repo.need_method("MeshPatt", "sub_mesh_pattern")
    idx = f.params[1]
    body = f.body
    from ..core import flow_env

    env0 = flow_env(f)
    n = next((k for k, v in env0.items() if unparse(v) == "len(self)"), None)
    if n is None:
        raise AnalysisError(f"{f.where}: n = len(self) not found")
    lists = {}
    for st in body:
        if isinstance(st, ast.Assign) and isinstance(st.targets[0], ast.Name) and unparse(st.value) == "[0]":
            lists[st.targets[0].id] = {"init": st, "extend": None, "append": None}
    for st in body:
        if isinstance(st, ast.Expr) and isinstance(st.value, ast.Call) and isinstance(st.value.func, ast.Attribute) and isinstance(st.value.func.value, ast.Name) and st.value.func.value.id in lists:
            lists[st.value.func.value.id][st.value.func.attr] = st.value
    if len(lists) != 2:
        raise AnalysisError(f"{f.where}: the two boundary lists were not found")
    roles = {}
    for name, parts in lists.items():
        ext, app = parts.get("extend"), parts.get("append")
        if ext is None or app is None or len(ext.args) != 1:
            raise AnalysisError(f"{f.where}: boundary list {name} is not [0] + selected + [n + 1]")
        if unparse(app.args[0]) != f"{n} + 1":
            ctx.violation("C06-K4", f, app, f"outer border of `{name}` is {unparse(app.args[0])}; the last block must end at cell {n} (border {n} + 1)")
            return
        a = ext.args[0]
        inner = a.args[0] if isinstance(a, ast.Call) and call_name(a) == ("sorted",) and len(a.args) == 1 else a
        if not (isinstance(inner, ast.GeneratorExp) and len(inner.generators) == 1 and not inner.generators[0].ifs and unparse(inner.generators[0].iter) == idx):
            raise AnalysisError(f"{f.where}: boundaries of `{name}` are not generated from the selected indices")
        v = unparse(inner.generators[0].target)
        elt = unparse(inner.elt)
        if elt == f"{v} + 1" and inner is a:
            roles[name] = "position"
        elif elt == f"self.pattern[{v}] + 1" and inner is not a:
            roles[name] = "value"
        elif elt == f"self.pattern[{v}] + 1":
            ctx.violation("C06-K4", f, ext, f"value boundaries `{name}` are not sorted: cell rows would be taken in position order of the points")
            return
        else:
            ctx.violation("C06-K4", f, ext, f"boundaries `{name}` are `{elt}`; a selected line b opens the next block at b + 1 (positions: index + 1, values: self.pattern[index] + 1, sorted)")
            return
    if sorted(roles.values()) != ["position", "value"]:
        ctx.violation("C06-K4", f, f.node, f"boundary lists have roles {roles}; one must hold the positions, the other the (sorted) values")
        return
    V = next(k for k, r in roles.items() if r == "position")
    H = next(k for k, r in roles.items() if r == "value")
    calls = [c for c in ast.walk(f.node) if isinstance(c, ast.Call) and call_name(c) and call_name(c)[-1] in ("is_shaded", "is_pointfree") and len(c.args) == 2]
    gens = [g for g in ast.walk(f.node) if isinstance(g, (ast.GeneratorExp, ast.SetComp)) and len(g.generators) == 2]
    if not calls or not gens:
        raise AnalysisError(f"{f.where}: region calls not found")
    x, y = unparse(gens[0].generators[0].target), unparse(gens[0].generators[1].target)
    want = [f"({V}[{x}], {H}[{y}])", f"({V}[{x} + 1] - 1, {H}[{y} + 1] - 1)"]
    for c in calls:
        got = [unparse(a) for a in c.args]
        if got != want:
            ctx.violation("C06-K4", f, c, f"{call_name(c)[-1]} is asked about the block {got}; the block of induced cell ({x}, {y}) is {want} (columns from the position boundaries, rows from the value boundaries)")
            return
    ctx.ok("C06-K4", f.where, f"block of induced cell ({x}, {y}) = [{V}[{x}] .. {V}[{x}+1]-1] x [{H}[{y}] .. {H}[{y}+1]-1] with {V} = [0]+[i+1]+[n+1], {H} = [0]+sorted[v+1]+[n+1]", calls[0], f)


_OLD_RUN = run


def run(ctx: Ctx) -> None:  # noqa: F811
    _OLD_RUN(ctx)
    ctx.run(rule_k4, ctx)
    # the two region tests themselves (geometry of cells and lines) are decided under C18-G1 and re-used here
    from . import c18

    sub = Ctx("C18", ctx.repo)
    c18.rule_g1(sub)
    for o in sub.obligations:
        ctx.ok("C06-K4", o["where"], o["what"][:200])
    for fd in sub.findings:
        fi = ctx.repo.funcs[fd.where]
        ctx.violation("C06-K4", fi, fi.node, fd.message)
    ctx.undecided.extend(sub.undecided)


FLOORS["C06-K4"] = 3
EXPLANATION = EXPLANATION.replace("NOT decided: the region bookkeeping (which original columns/rows merge into one cell, inclusive/exclusive ends in is_shaded / is_pointfree) and the semantic implication",
                                  "(d) the region bookkeeping: which original columns/rows merge into one induced cell, and the inclusive/exclusive ends of is_shaded / is_pointfree, follow the geometry of cells and lines (K4). NOT decided: the semantic implication")
