"""C18 – shading-lemma transport by rotation and the direction table of point insertion."""

from __future__ import annotations

import ast
from typing import Dict, List, Optional, Tuple

from ..affine import D4_POINT, I, N, NM1, ONE, V, X, Y, Map2, MeshOps, PermOps, Poly, induced_cell_map, poly_of, NotAffine
from ..core import AnalysisError, FuncInfo, Repo, attr_chain, call_name, const_value, unparse, walk_no_nested
from ..report import Ctx

PROP = "C18"
FLOORS = {"C18-R1": 4, "C18-R2": 7, "C18-R3": 4, "C18-D1": 5}

EXPLANATION = (
    "Decided: (a) the lemma's side conditions are checked in one (north-east) orientation and transported by rotating pattern and cell – the transport "
    "is decided fully: in can_shade / can_simul_shade the loop runs over the four rotations, the pattern is advanced by the quarter turn r and every cell "
    "variable by the cell map of r extracted under C04-A3 (R1); the adjacent point (cell - (1,1)) found in the rotated frame is mapped back by the point "
    "map of r applied (-k) mod 4 times in iteration k, so forward and back transport compose to the identity for k = 0..3, and the value (second) "
    "coordinate is reported (R2); shadable_boxes consults every cell and every horizontally/vertically adjacent pair inside the grid (R3); (b) the "
    "direction table of add_point: each direction shades the two sub-cells on the named side of the new point, directions are pairwise distinct (D1). "
    "NOT decided: the north-east side conditions themselves, _add_point_base_shading's splitting, is_shaded / is_pointfree region arithmetic, ascii_plot parse-back."
)


def run(ctx: Ctx) -> None:
    po = PermOps(ctx.repo)
    mo = MeshOps(ctx.repo, po)
    ctx.run(rule_transport, ctx, po, mo, "can_shade", ["pos"], "north_east_shading_lemma_conditions")
    ctx.run(rule_transport, ctx, po, mo, "can_simul_shade", ["pos1", "pos2"], "north_east_simul_shading_lemma_conditions")
    ctx.run(rule_r3, ctx)
    ctx.run(rule_d1, ctx)


def pair_map(fi: FuncInfo, value: ast.AST, var: str, n_name: str, p: str, q: str) -> Map2:
    """``(var[1], n - var[0])`` -> Map2 in symbols (p, q) for (var[0], var[1])."""
    if not (isinstance(value, ast.Tuple) and len(value.elts) == 2):
        raise AnalysisError(f"{fi.where}: `{unparse(value)}` is not a coordinate pair")
    env = {n_name: N, f"{var}[0]": Poly.sym(p), f"{var}[1]": Poly.sym(q)}
    try:
        return Map2(poly_of(value.elts[0], env), poly_of(value.elts[1], env), p, q)
    except NotAffine as exc:
        raise AnalysisError(f"{fi.where}: transport `{unparse(value)}` is not affine ({exc})")


def rule_transport(ctx: Ctx, po: PermOps, mo: MeshOps, fname: str, cells: List[str], cond_name: str) -> None:
    repo = ctx.repo
    fi = repo.need_method("MeshPatt", fname)
    # n = len(self), m_patt = self
    env0: Dict[str, str] = {}
    for first in fi.body:
        # the leading run of plain initialisations (written as one tuple assignment or one by one)
        if isinstance(first, ast.Assign) and isinstance(first.targets[0], ast.Tuple) and isinstance(first.value, ast.Tuple):
            for t, v in zip(first.targets[0].elts, first.value.elts):
                env0[unparse(t)] = unparse(v)
        elif isinstance(first, ast.Assign) and len(first.targets) == 1 and isinstance(first.targets[0], ast.Name) and unparse(first.value) in ("len(self)", "self", "[]"):
            env0[first.targets[0].id] = unparse(first.value)
        elif isinstance(first, ast.Expr) and isinstance(first.value, ast.Constant):
            continue
        else:
            break
    n_name = next((k for k, v in env0.items() if v == "len(self)"), None)
    patt_var = next((k for k, v in env0.items() if v == "self"), None)
    out_list = next((k for k, v in env0.items() if v == "[]"), None)
    if None in (n_name, patt_var, out_list):
        raise AnalysisError(f"{fi.where}: prologue `n, m_patt, positions = len(self), self, []` not recognised")
    loops = [st for st in fi.body if isinstance(st, ast.For)]
    if len(loops) != 1:
        raise AnalysisError(f"{fi.where}: expected one loop over the rotations")
    lp = loops[0]
    it = lp.iter
    k_var = unparse(lp.target)
    if not (isinstance(it, ast.Call) and call_name(it) == ("range",) and len(it.args) == 1 and unparse(it.args[0]) == "4"):
        ctx.violation("C18-R1", fi, lp, f"the side conditions are tried in `{unparse(it)}` orientations; all four rotations are needed", robust=True)
        return
    ctx.ok("C18-R1", fi.where, "loop over the four rotations", lp, fi)
    # ---- forward transport at the end of each iteration
    r_point = None
    cell_updates: Dict[str, Map2] = {}
    cond_stmt = None
    for st in lp.body:
        if isinstance(st, ast.Assign):
            tgt, val = st.targets[0], st.value
            if unparse(tgt) == patt_var:
                if isinstance(val, ast.Call) and isinstance(val.func, ast.Attribute) and unparse(val.func.value) == patt_var and val.func.attr == "rotate":
                    consts = {}
                    target = repo.need_method("MeshPatt", "rotate")
                    if val.args:
                        consts[target.params[1]] = const_value(val.args[0])
                    else:
                        consts[target.params[1]] = const_value(target.node.args.defaults[0])
                    pm, cm = mo.maps("rotate", consts)
                    r_point = (pm, cm, st)
                else:
                    ctx.violation("C18-R1", fi, st, f"the pattern is advanced by `{unparse(val)}`, not by a rotation", robust=True)
                    return
            elif isinstance(tgt, ast.Name) and tgt.id in cells:
                cell_updates[tgt.id] = pair_map(fi, val, tgt.id, n_name, "X", "Y")
            elif isinstance(tgt, ast.Tuple) and all(unparse(e) in cells for e in tgt.elts) and isinstance(val, ast.Tuple):
                names = [unparse(e) for e in tgt.elts]
                if all(isinstance(v, ast.Name) for v in val.elts):
                    continue  # swap of the two cells (ordering), not a transport
                for nm, v in zip(names, val.elts):
                    cell_updates[nm] = pair_map(fi, v, nm, n_name, "X", "Y")
        if isinstance(st, ast.If):
            t = st.test
            if isinstance(t, ast.Call) and isinstance(t.func, ast.Attribute) and t.func.attr == cond_name:
                cond_stmt = st
    if r_point is None:
        ctx.violation("C18-R1", fi, lp, "the pattern is not rotated between the orientations", robust=True)
        return
    pm, cm, rst = r_point
    if cond_stmt is None:
        raise AnalysisError(f"{fi.where}: call of {cond_name} not found")
    # the condition must be asked of the rotated pattern with the transported cells
    call = cond_stmt.test
    args_txt = [unparse(a) for a in call.args]
    if unparse(call.func.value) == patt_var and args_txt != cells and not (set(args_txt) <= set(cells) and len(args_txt) == len(cells)):
        # the cells are passed in another spelling (unpacked coordinates, a rebuilt tuple): not recognised
        raise AnalysisError(f"{fi.where}: the cells passed to the side conditions (`{unparse(call)[:70]}`) are not the names {cells}")
    if unparse(call.func.value) != patt_var or args_txt != cells:
        ctx.violation("C18-R1", fi, cond_stmt, f"side conditions are evaluated as `{unparse(call)}`; they must see the rotated pattern `{patt_var}` and the transported cell(s) {cells}", robust=True)
        return
    if set(cell_updates) != set(cells):
        ctx.violation("C18-R1", fi, lp, f"cell variable(s) {sorted(set(cells) - set(cell_updates))} are not transported when the pattern is rotated", robust=True)
        return
    for nm, m in cell_updates.items():
        if m == cm:
            ctx.ok("C18-R1", fi.where, f"`{nm}` is transported by (x, y) -> ({m.a!r}, {m.b!r}) = the cell map of the rotation applied to the pattern", rst, fi)
        else:
            ctx.violation("C18-R1", fi, lp, f"`{nm}` is transported by (x, y) -> ({m.a!r}, {m.b!r}) but the pattern is rotated with cell map (x, y) -> ({cm.a!r}, {cm.b!r}): pattern and cell end up in different frames", robust=True)
    # the order inside the loop: condition first, then rotate (so iteration k sees r^k)
    idx_cond, idx_rot = lp.body.index(cond_stmt), lp.body.index(rst)
    if idx_cond > idx_rot:
        raise AnalysisError(f"{fi.where}: rotation precedes the test inside the loop; iteration/turn bookkeeping differs from the recognised shape")
    # ---- back transport inside the condition branch
    ans_init, back_loop, report = None, None, None
    for st in cond_stmt.body:
        if isinstance(st, ast.Assign) and isinstance(st.targets[0], ast.Name) and isinstance(st.value, ast.Tuple):
            ans_init = st
        elif isinstance(st, ast.For):
            back_loop = st
        elif isinstance(st, ast.Expr) and isinstance(st.value, ast.Call) and call_name(st.value) == (out_list, "append"):
            report = st
    if ans_init is None or back_loop is None or report is None:
        raise AnalysisError(f"{fi.where}: back-transport shape not recognised")
    ans = ans_init.targets[0].id
    c0 = cells[0]
    if [unparse(e) for e in ans_init.value.elts] != [f"{c0}[0] - 1", f"{c0}[1] - 1"]:
        ctx.violation("C18-R2", fi, ans_init, f"the adjacent point is taken as `{unparse(ans_init.value)}`; the point south-west of cell {c0} is ({c0}[0] - 1, {c0}[1] - 1)")
        return
    ctx.ok("C18-R2", fi.where, f"adjacent point = ({c0}[0] - 1, {c0}[1] - 1) in the rotated frame", ans_init, fi)
    # loop count (-k) % 4
    bit = back_loop.iter
    count_ok = isinstance(bit, ast.Call) and call_name(bit) == ("range",) and len(bit.args) == 1
    if not count_ok:
        raise AnalysisError(f"{fi.where}: back-transport loop bound not recognised")
    cnt = bit.args[0]
    # evaluate the count for k = 0..3 (finite residue domain)
    from ..affine import fold_int

    counts = [fold_int(cnt, {k_var: k}) for k in range(4)]
    if None in counts:
        raise AnalysisError(f"{fi.where}: back-transport count `{unparse(cnt)}` cannot be evaluated for k = 0..3")
    if len(back_loop.body) != 1 or not isinstance(back_loop.body[0], ast.Assign) or unparse(back_loop.body[0].targets[0]) != ans:
        raise AnalysisError(f"{fi.where}: back-transport step not recognised")
    step = pair_map(fi, back_loop.body[0].value, ans, n_name, "I", "V")
    if step != pm:
        ctx.violation("C18-R2", fi, back_loop, f"the point is mapped back by (i, v) -> ({step.a!r}, {step.b!r}); the quarter turn used for the pattern moves points by (i, v) -> ({pm.a!r}, {pm.b!r})")
        return
    ctx.ok("C18-R2", fi.where, "back-transport step = the point map of the rotation applied to the pattern", back_loop, fi)
    ident = D4_POINT["id"]
    bad = []
    for k in range(4):
        total = ident
        for _ in range(k + counts[k]):
            total = total.then(pm)
        if total != ident:
            bad.append(k)
    if bad:
        ctx.violation("C18-R2", fi, back_loop, f"in iteration(s) {bad} the pattern has been turned k times and the point is turned back `{unparse(cnt)}` times: together not a full turn, so the reported point is in the wrong frame")
        return
    ctx.ok("C18-R2", fi.where, f"k forward turns + `{unparse(cnt)}` back turns = identity for k = 0..3 (counts {counts})", back_loop, fi)
    if unparse(report.value.args[0]) == f"{ans}[1]":
        ctx.ok("C18-R2", fi.where, "the value (second coordinate) of the adjacent point is reported", report, fi)
    else:
        ctx.violation("C18-R2", fi, report, f"`{unparse(report.value.args[0])}` is reported instead of the value of the adjacent point ({ans}[1])")
    acc = unparse(report.value.func.value)
    check_result_returned(ctx, "C18-R2", fi, acc)
    if len(cells) == 2:
        # the side conditions assume the first cell is the upper one: the pair must be put in that order in every frame
        c1, c2 = cells
        norm = [st for st in lp.body if isinstance(st, ast.If) and unparse(st.test) in (f"{c1}[1] < {c2}[1]", f"{c2}[1] > {c1}[1]", f"{c1}[1] <= {c2}[1]", f"{c2}[1] >= {c1}[1]")]
        ok = bool(norm) and [unparse(b) for b in norm[0].body] in ([f"{c1}, {c2} = ({c2}, {c1})"], [f"{c2}, {c1} = ({c1}, {c2})"]) and lp.body.index(norm[0]) < lp.body.index(cond_stmt)
        if ok:
            ctx.ok("C18-R2", fi.where, f"the pair is ordered (upper cell first) before the side conditions are evaluated, in every frame", norm[0], fi)
        else:
            ctx.violation("C18-R2", fi, cond_stmt, f"the pair ({c1}, {c2}) is not put into the order the side conditions assume (upper cell first) before they are evaluated: the verdict depends on the order in which the two cells are given")


def check_result_returned(ctx: Ctx, rule: str, fi: FuncInfo, acc: str) -> None:
    """The collected answers are what the function returns (as they are, or copied into a plain container)."""
    last = fi.body[-1] if fi.body else None
    if isinstance(last, ast.Return) and last.value is not None and unparse(last.value) in (acc, f"dict({acc})", f"list({acc})", f"tuple({acc})", f"sorted({acc})"):
        ctx.ok(rule, fi.where, f"the collected `{acc}` is returned", last, fi)
    else:
        ctx.violation(rule, fi, last if last is not None else fi.node, f"{fi.name} does not end by returning the collected `{acc}`")


def rule_r3(ctx: Ctx) -> None:
    fi = ctx.repo.need_method("MeshPatt", "shadable_boxes")
    loops = [st for st in fi.body if isinstance(st, ast.For)]
    if len(loops) != 1 or len(loops[0].body) != 1 or not isinstance(loops[0].body[0], ast.For):
        raise AnalysisError(f"{fi.where}: nested cell loops not recognised")
    lx, ly = loops[0], loops[0].body[0]
    env = {unparse(st.targets[0]): unparse(st.value) for st in fi.body if isinstance(st, ast.Assign)}
    n_name = next((k for k, v in env.items() if v == "len(self)"), "len(self)")
    x, y = unparse(lx.target), unparse(ly.target)
    if unparse(lx.iter) != f"range({n_name} + 1)" or unparse(ly.iter) != f"range({n_name} + 1)":
        ctx.violation("C18-R3", fi, lx, f"cells are enumerated over {unparse(lx.iter)} x {unparse(ly.iter)}; the grid has (n+1) x (n+1) cells")
        return
    ctx.ok("C18-R3", fi.where, "every cell of the (n+1) x (n+1) grid is examined", lx, fi)
    want = {
        "single": (None, f"self.can_shade(({x}, {y}))", f"(({x}, {y}),)"),
        "horizontal": (f"{x} < {n_name}", f"self.can_simul_shade(({x}, {y}), ({x} + 1, {y}))", f"(({x}, {y}), ({x} + 1, {y}))"),
        "vertical": (f"{y} < {n_name}", f"self.can_simul_shade(({x}, {y}), ({x}, {y} + 1))", f"(({x}, {y}), ({x}, {y} + 1))"),
    }
    seen = set()
    for st in ly.body:
        guard, inner = None, st
        if isinstance(st, ast.If):
            guard, inner = unparse(st.test), st.body[0] if len(st.body) == 1 else None
        if not isinstance(inner, ast.For):
            raise AnalysisError(f"{fi.where}: statement `{unparse(st)[:50]}` not recognised")
        src = unparse(inner.iter)
        rec = unparse(inner.body[0]) if len(inner.body) == 1 else ""
        matched = False
        for kind, (g, s, cellstxt) in want.items():
            if src == s:
                matched = True
                seen.add(kind)
                if guard != g:
                    ctx.violation("C18-R3", fi, st, f"{kind} lookup is guarded by `{guard}`; expected `{g}` (pairs must stay inside the grid, and every pair inside must be tried)")
                elif f"append({cellstxt})" not in rec or f"[{unparse(inner.target)}]" not in rec:
                    ctx.violation("C18-R3", fi, inner, f"{kind} lookup records `{rec[:70]}`, not the consulted cell(s) {cellstxt} under the reported point")
                else:
                    ctx.ok("C18-R3", fi.where, f"{kind} lookup: {s} {'if ' + g if g else ''} -> recorded under the reported point", inner, fi)
        if not matched:
            ctx.violation("C18-R3", fi, inner, f"table consults `{src[:70]}`, which is neither a cell nor a horizontally/vertically adjacent pair of it")
    if seen != set(want):
        ctx.violation("C18-R3", fi, ly, f"table omits the {sorted(set(want) - seen)} lookups")
    accs = {n.func.value.value.id for n in ast.walk(ly) if isinstance(n, ast.Call) and isinstance(n.func, ast.Attribute) and n.func.attr == "append" and isinstance(n.func.value, ast.Subscript) and isinstance(n.func.value.value, ast.Name)}
    if len(accs) == 1:
        check_result_returned(ctx, "C18-R3", fi, accs.pop())
    else:
        raise AnalysisError(f"{fi.where}: table variable not recognised")


def rule_d1(ctx: Ctx) -> None:
    repo = ctx.repo
    fi = repo.need_method("MeshPatt", "add_point")
    misc = repo.module("permuta.misc")
    dirs = {}
    for nm in ("DIR_EAST", "DIR_NORTH", "DIR_WEST", "DIR_SOUTH", "DIR_NONE"):
        if nm not in misc.assigns:
            raise AnalysisError(f"permuta.misc.{nm} vanished")
        dirs[nm] = const_value(misc.assigns[nm])
    if len(set(dirs.values())) != 5:
        ctx.violation("C18-D1", "permuta.misc:DIR_*", misc.assign_nodes["DIR_EAST"], f"direction constants are not pairwise distinct: {dirs}", file=misc.relpath, robust=True)
    else:
        ctx.ok("C18-D1", "permuta.misc:DIR_*", f"five pairwise distinct direction constants {dirs}")
    # x, y = pos
    xy = [st for st in fi.body if isinstance(st, ast.Assign) and isinstance(st.targets[0], ast.Tuple) and unparse(st.value) == fi.params[1]]
    if not xy:
        raise AnalysisError(f"{fi.where}: `x, y = pos` not found")
    x, y = [unparse(e) for e in xy[0].targets[0].elts]
    from ..affine import NotAffine, Poly, poly_of

    PX, PY, ONE = Poly.sym("X"), Poly.sym("Y"), Poly.const(1) if hasattr(Poly, "const") else None
    penv = {x: PX, y: PY}

    def P(src: str) -> Poly:
        return poly_of(ast.parse(src, mode="eval").body, {"x": PX, "y": PY})

    want = {
        "DIR_EAST": {(P("x + 1"), P("y")), (P("x + 1"), P("y + 1"))},
        "DIR_NORTH": {(P("x"), P("y + 1")), (P("x + 1"), P("y + 1"))},
        "DIR_WEST": {(P("x"), P("y")), (P("x"), P("y + 1"))},
        "DIR_SOUTH": {(P("x"), P("y")), (P("x + 1"), P("y"))},
    }
    side = {"DIR_EAST": "east (x+1 column)", "DIR_NORTH": "north (y+1 row)", "DIR_WEST": "west (x column)", "DIR_SOUTH": "south (y row)"}

    def cells_of(arg: ast.AST):
        """set of (poly, poly) for a display of 2-tuples; AnalysisError when a cell is not affine in x, y"""
        if not isinstance(arg, (ast.Tuple, ast.List, ast.Set)):
            raise AnalysisError(f"{fi.where}: cells `{unparse(arg)[:60]}` are not a display")
        out = set()
        for e in arg.elts:
            if not (isinstance(e, ast.Tuple) and len(e.elts) == 2):
                raise AnalysisError(f"{fi.where}: cell `{unparse(e)[:40]}` not recognised")
            try:
                out.add((poly_of(e.elts[0], penv), poly_of(e.elts[1], penv)))
            except NotAffine:
                raise AnalysisError(f"{fi.where}: cell `{unparse(e)[:40]}` is not affine in {x}, {y}")
        return out

    def show_cells(cs):
        return sorted(f"({a}, {b})" for a, b in cs)

    def judge(d: str, cells, node) -> None:
        if d not in want:
            if d == "DIR_NONE" and not cells:
                return
            raise AnalysisError(f"{fi.where}: direction `{d}` not recognised")
        if cells == want[d]:
            ctx.ok("C18-D1", fi.where, f"{d} shades the two sub-cells to the {side[d]} of the new point", node, fi)
        else:
            ctx.violation("C18-D1", fi, node, f"{d} shades {show_cells(cells)}; the two sub-cells on that side of the new point are {show_cells(want[d])}", robust=True)
        seen.add(d)

    seen = set()
    param = fi.params[2]
    chain = [st for st in fi.body if isinstance(st, ast.If)]
    tables = [st for st in fi.body if isinstance(st, (ast.Assign, ast.AnnAssign)) and isinstance(st.value, ast.Dict) and st.value.keys
              and all(isinstance(k, ast.Name) and k.id.startswith("DIR_") for k in st.value.keys)]
    if len(chain) == 1 and not tables:
        cur: Optional[ast.If] = chain[0]
        while cur is not None:
            t = cur.test
            if not (isinstance(t, ast.Compare) and len(t.ops) == 1 and isinstance(t.ops[0], (ast.Eq, ast.Is)) and isinstance(t.left, ast.Name) and isinstance(t.comparators[0], ast.Name)
                    and param in (t.left.id, t.comparators[0].id) and t.left.id != t.comparators[0].id):
                raise AnalysisError(f"{fi.where}: direction test `{unparse(t)}` not recognised")
            d = t.comparators[0].id if t.left.id == param else t.left.id
            ups = [st for st in cur.body if isinstance(st, ast.Expr) and isinstance(st.value, ast.Call) and isinstance(st.value.func, ast.Attribute) and st.value.func.attr == "update" and len(st.value.args) == 1]
            if len(ups) != 1 or len(cur.body) != 1:
                raise AnalysisError(f"{fi.where}: branch for {d} not recognised")
            judge(d, cells_of(ups[0].value.args[0]), cur)
            nxt = cur.orelse
            cur = nxt[0] if len(nxt) == 1 and isinstance(nxt[0], ast.If) else None
            if nxt and cur is None:
                raise AnalysisError(f"{fi.where}: trailing else of the direction dispatch not recognised")
    elif len(tables) == 1 and not chain:
        # dispatch table:  T = {DIR_EAST: (cells), ...};  shading.update(T.get(dir, ()))  /  shading.update(T[dir]) under a guard
        tb = tables[0]
        tname = unparse(tb.targets[0] if isinstance(tb, ast.Assign) else tb.target)
        uses = [n for n in walk_no_nested(fi.node) if isinstance(n, ast.Call) and isinstance(n.func, ast.Attribute) and n.func.attr == "update" and len(n.args) == 1
                and unparse(n.args[0]) in (f"{tname}.get({param}, ())", f"{tname}.get({param}, [])", f"{tname}.get({param}, set())", f"{tname}[{param}]")]
        if len(uses) != 1:
            raise AnalysisError(f"{fi.where}: how the direction table `{tname}` is used is not recognised")
        for k, v in zip(tb.value.keys, tb.value.values):
            judge(k.id, cells_of(v), v)
    elif not chain and not tables:
        # the table written where it is used:  shading.update({DIR_EAST: (cells), ...}.get(dir, ()))
        inline = [n for n in walk_no_nested(fi.node) if isinstance(n, ast.Call) and isinstance(n.func, ast.Attribute) and n.func.attr == "update" and len(n.args) == 1
                  and isinstance(n.args[0], ast.Call) and isinstance(n.args[0].func, ast.Attribute) and n.args[0].func.attr == "get" and isinstance(n.args[0].func.value, ast.Dict)
                  and len(n.args[0].args) == 2 and unparse(n.args[0].args[0]) == param and unparse(n.args[0].args[1]) in ("()", "[]", "set()", "frozenset()")]
        if len(inline) != 1 or not all(isinstance(k, ast.Name) and k.id.startswith("DIR_") for k in inline[0].args[0].func.value.keys):
            raise AnalysisError(f"{fi.where}: direction dispatch not recognised")
        d = inline[0].args[0].func.value
        for k, v in zip(d.keys, d.values):
            judge(k.id, cells_of(v), v)
    else:
        raise AnalysisError(f"{fi.where}: direction dispatch not recognised")
    if seen != set(want):
        ctx.violation("C18-D1", fi, (chain or tables)[0], f"directions {sorted(set(want) - seen)} are not handled", robust=True)
    rets = [st for st in fi.body if isinstance(st, ast.Return)]
    if rets and "self._add_point_new_perm" in unparse(rets[0].value) and f"({x}, {y})" in unparse(rets[0].value).replace("self._add_point_new_perm", ""):
        pass


GENERIC_FILES = ['permuta/patterns/meshpatt.py']


def variants():
    from ..selftest import generic_equiv, generic_silent

    return _variants() + generic_silent(GENERIC_FILES) + generic_equiv(GENERIC_FILES)


def _variants():
    from ..selftest import V, insert_stmt, reformat_only, rename_local, replace_expr, replace_stmt

    MP = "permuta/patterns/meshpatt.py"
    return [
        V("render-rows-bottom-up", replace_expr(MP, "MeshPatt.ascii_plot", "range(n, -1, -1)", "range(n + 1)"), "fire-or-undecided", "C18-T1"),
        V("render-rows-skip-top", replace_expr(MP, "MeshPatt.ascii_plot", "range(n, -1, -1)", "range(n - 1, -1, -1)"), "fire", "C18-T1"),
        V("render-misses-last-column", replace_expr(MP, "MeshPatt.ascii_plot", "range(n + 1)", "range(n)"), "fire", "C18-T1"),
        V("render-points-not-reversed", replace_expr(MP, "MeshPatt.ascii_plot", "reversed(array)", "array"), "fire", "C18-T1"),
        V("render-points-first", replace_expr(MP, "MeshPatt.ascii_plot", "roundrobin(vlines, lines)", "roundrobin(lines, vlines)"), "fire", "C18-T1"),
        V("render-shaded-blank", replace_stmt(MP, "MeshPatt.ascii_plot", "if char in self.shading: ...", "if char not in self.shading:\n    return '\u2592'"), "fire", "C18-T1"),
        V("simul-pair-not-normalised", replace_stmt("permuta/patterns/meshpatt.py", "MeshPatt.can_simul_shade", "if pos1[1] < pos2[1]: ...", ""), "fire", "C18-R2"),
        V("simul-pair-normalised-after", [replace_stmt("permuta/patterns/meshpatt.py", "MeshPatt.can_simul_shade", "if pos1[1] < pos2[1]: ...", ""), insert_stmt("permuta/patterns/meshpatt.py", "MeshPatt.can_simul_shade", "m_patt = m_patt.rotate()", "if pos1[1] < pos2[1]:\n    pos1, pos2 = pos2, pos1", "before")], "fire", "C18-R2"),
        V("canshade-result-dropped", replace_stmt("permuta/patterns/meshpatt.py", "MeshPatt.can_shade", "return positions", "return []"), "fire", "C18-R2"),
        V("table-result-dropped", replace_stmt("permuta/patterns/meshpatt.py", "MeshPatt.shadable_boxes", "return shadable", "return {}"), "fire", "C18-R3"),
        V("simul-excluded-rows-shifted", replace_expr("permuta/patterns/meshpatt.py", "MeshPatt.north_east_simul_shading_lemma_conditions", "(pos1[1], pos1[1] - 1)", "(pos1[1], pos2[1] - 1)"), "fire", "C18-N2"),
        V("simul-excluded-rows-above", replace_expr("permuta/patterns/meshpatt.py", "MeshPatt.north_east_simul_shading_lemma_conditions", "(pos1[1], pos1[1] - 1)", "(pos1[1], pos1[1] + 1)"), "fire", "C18-N2"),
        V("simul-excluded-columns-shifted", replace_expr("permuta/patterns/meshpatt.py", "MeshPatt.north_east_simul_shading_lemma_conditions", "(pos1[0], pos1[0] - 1)", "(pos1[0], pos1[0] + 1)"), "fire", "C18-N2"),
        V("simul-west-cells-wrong", replace_expr("permuta/patterns/meshpatt.py", "MeshPatt.north_east_simul_shading_lemma_conditions", "(pos2[0] - 1, pos2[1])", "(pos2[0] - 1, pos2[1] - 1)"), "fire", "C18-N2"),
        V("simul-vertical-direction", replace_expr("permuta/patterns/meshpatt.py", "MeshPatt.north_east_simul_shading_lemma_conditions", "(pos1[0] - 1, y) in self.shading and (pos1[0], y) not in self.shading", "(pos1[0], y) in self.shading and (pos1[0] - 1, y) not in self.shading"), "fire", "C18-N2"),
        V("simul-adjacency-above", replace_expr("permuta/patterns/meshpatt.py", "MeshPatt.north_east_simul_shading_lemma_conditions", "pos1[1] - 1 != pos2[1]", "pos1[1] + 1 != pos2[1]"), "fire", "C18-N2"),
        V("simul-point-wrong-value", replace_expr("permuta/patterns/meshpatt.py", "MeshPatt.north_east_simul_shading_lemma_conditions", "self.pattern[pos1[0] - 1] != pos1[1] - 1", "self.pattern[pos1[0] - 1] != pos1[1]"), "fire", "C18-N2"),
        V("simul-horizontal-alike", replace_expr("permuta/patterns/meshpatt.py", "MeshPatt.north_east_simul_shading_lemma_conditions", "((x, pos1[1]) in self.shading) != ((x, pos2[1]) in self.shading)", "((x, pos1[1]) in self.shading) == ((x, pos2[1]) in self.shading)"), "fire", "C18-N2"),
        V("simul-rows-via-pos2", replace_expr("permuta/patterns/meshpatt.py", "MeshPatt.north_east_simul_shading_lemma_conditions", "(pos1[1], pos1[1] - 1)", "(pos2[1], pos1[1])"), "silent"),
        V("simul-west-via-pos1", replace_expr("permuta/patterns/meshpatt.py", "MeshPatt.north_east_simul_shading_lemma_conditions", "(pos2[0] - 1, pos2[1])", "(pos1[0] - 1, pos1[1] - 1)"), "silent"),
        V("canshade-cell-rotated-other-way", replace_stmt(MP, "MeshPatt.can_shade", "pos = (pos[1], n - pos[0])", "pos = (n - pos[1], pos[0])"), "fire", "C18-R1"),
        V("canshade-cell-n-minus-1", replace_stmt(MP, "MeshPatt.can_shade", "pos = (pos[1], n - pos[0])", "pos = (pos[1], n - 1 - pos[0])"), "fire", "C18-R1"),
        V("canshade-three-rotations", replace_expr(MP, "MeshPatt.can_shade", "range(4)", "range(3)"), "fire", "C18-R1"),
        V("canshade-pattern-not-rotated", replace_stmt(MP, "MeshPatt.can_shade", "m_patt = m_patt.rotate()", ""), "fire", "C18-R1"),
        V("canshade-pattern-rotate-3", replace_expr(MP, "MeshPatt.can_shade", "m_patt.rotate()", "m_patt.rotate(3)"), "fire", "C18-R"),
        V("canshade-conditions-on-self", replace_expr(MP, "MeshPatt.can_shade", "m_patt.north_east_shading_lemma_conditions(pos)", "self.north_east_shading_lemma_conditions(pos)"), "fire", "C18-R1"),
        V("simul-second-cell-not-transported", replace_stmt(MP, "MeshPatt.can_simul_shade", "pos1, pos2 = ((pos1[1], n - pos1[0]), (pos2[1], n - pos2[0]))", "pos1, pos2 = ((pos1[1], n - pos1[0]), (pos2[0], pos2[1]))"), "fire", "C18-R1"),
        V("canshade-back-count-rot", replace_expr(MP, "MeshPatt.can_shade", "range(-rot % 4)", "range(rot % 4)"), "fire", "C18-R2"),
        V("canshade-back-step-n", replace_stmt(MP, "MeshPatt.can_shade", "ans = (ans[1], n - 1 - ans[0])", "ans = (ans[1], n - ans[0])"), "fire", "C18-R2"),
        V("canshade-reports-position", replace_expr(MP, "MeshPatt.can_shade", "positions.append(ans[1])", "positions.append(ans[0])"), "fire", "C18-R2"),
        V("simul-adjacent-point-shifted", replace_stmt(MP, "MeshPatt.can_simul_shade", "ans = (pos1[0] - 1, pos1[1] - 1)", "ans = (pos1[0] - 1, pos1[1])"), "fire", "C18-R2"),
        V("table-range-n", replace_expr(MP, "MeshPatt.shadable_boxes", "range(n + 1)", "range(n)", which=1), "fire", "C18-R3"),
        V("table-horizontal-guard-le", replace_expr(MP, "MeshPatt.shadable_boxes", "x < n", "x <= n"), "fire", "C18-R3"),
        V("table-vertical-pair-wrong", replace_expr(MP, "MeshPatt.shadable_boxes", "self.can_simul_shade((x, y), (x, y + 1))", "self.can_simul_shade((x, y), (x + 1, y + 1))"), "fire", "C18-R3"),
        V("addpoint-east-is-west", replace_expr(MP, "MeshPatt.add_point", "((x + 1, y), (x + 1, y + 1))", "((x, y), (x, y + 1))"), "fire", "C18-D1"),
        V("addpoint-north-one-cell", replace_expr(MP, "MeshPatt.add_point", "((x, y + 1), (x + 1, y + 1))", "((x, y + 1), (x, y + 1))"), "fire", "C18-D1"),
        V("addpoint-dirs-swapped", [replace_expr(MP, "MeshPatt.add_point", "shade_dir == DIR_WEST", "shade_dir == DIR_SOUTH"), replace_expr(MP, "MeshPatt.add_point", "shade_dir == DIR_SOUTH", "shade_dir == DIR_WEST", which=2)], "fire", "C18-D1"),
        V("add-increase-second-point-same-row", replace_expr(MP, "MeshPatt.add_increase", "self.add_point((x, y)).add_point((x + 1, y + 1))", "self.add_point((x, y)).add_point((x + 1, y))"), "fire", "C18-D2"),
        V("add-decrease-one-point", replace_expr(MP, "MeshPatt.add_decrease", "self.add_point((x, y)).add_point((x + 1, y))", "self.add_point((x, y))"), "fire", "C18-D2"),
        V("shade-replaces", replace_expr(MP, "MeshPatt.shade", "self.shading | set(positions)", "set(positions)"), "fire-or-undecided", "C18-D2"),
        V("add-point-allows-shaded", replace_stmt(MP, "MeshPatt.add_point", "assert pos not in self.shading", ""), "fire", "C18-D2"),
        V("is-shaded-exclusive-upper", replace_expr(MP, "MeshPatt.is_shaded", "range(lower, upper + 1)", "range(lower, upper)"), "fire", "C18-G1"),
        V("is-shaded-any", replace_expr(MP, "MeshPatt.is_shaded", "all(((x, y) in self.shading for y in range(lower, upper + 1) for x in range(left, right + 1)))", "any(((x, y) in self.shading for y in range(lower, upper + 1) for x in range(left, right + 1)))"), "fire", "C18-G1"),
        V("is-pointfree-inclusive-upper", replace_expr(MP, "MeshPatt.is_pointfree", "lower <= self.pattern[idx] < upper", "lower <= self.pattern[idx] <= upper"), "fire", "C18-G1"),
        V("is-pointfree-index-range", replace_expr(MP, "MeshPatt.is_pointfree", "range(left, right)", "range(left, right + 1)"), "fire", "C18-G1"),
        V("is-pointfree-swapped-axes", replace_stmt(MP, "MeshPatt.is_pointfree", "(left, lower), (right, upper) = (lower_left, upper_right)", "(lower, left), (upper, right) = (lower_left, upper_right)"), "fire", "C18-G1"),
        V("split-column-strict", replace_expr(MP, "MeshPatt._add_point_base_shading", "s_x <= x", "s_x < x"), "fire", "C18-P1"),
        V("split-row-uses-x", replace_expr(MP, "MeshPatt._add_point_base_shading", "s_y >= y", "s_y >= x"), "fire", "C18-P1"),
        V("new-perm-values-strict", replace_expr(MP, "MeshPatt._add_point_new_perm", "val if val < y else val + 1", "val if val <= y else val + 1", which=1), "fire", "C18-P1"),
        V("new-perm-inserts-x", replace_expr(MP, "MeshPatt._add_point_new_perm", "(y,)", "(x,)"), "fire", "C18-P1"),
        V("lemma-skips-wrong-column", replace_expr(MP, "MeshPatt.north_east_shading_lemma_conditions", "n_x not in (x - 1, x)", "n_x not in (x, x + 1)"), "fire", "C18-N1"),
        V("lemma-both-to-either", replace_expr(MP, "MeshPatt.north_east_shading_lemma_conditions", "all(((x, y - 1) in self.shading, (x - 1, y) in self.shading))", "any(((x, y - 1) in self.shading, (x - 1, y) in self.shading))"), "fire", "C18-N1"),
        V("lemma-propagation-reversed", replace_expr(MP, "MeshPatt.north_east_shading_lemma_conditions", "(n_x, y - 1) in self.shading and (n_x, y) not in self.shading", "(n_x, y) in self.shading and (n_x, y - 1) not in self.shading"), "fire", "C18-N1"),
        V("lemma-sw-box-ignored", replace_expr(MP, "MeshPatt.north_east_shading_lemma_conditions", "(x - 1, y - 1) in self.shading", "False"), "fire", "C18-N1"),
        V("lemma-point-value-off", replace_expr(MP, "MeshPatt.north_east_shading_lemma_conditions", "self.pattern[x - 1] != y - 1", "self.pattern[x - 1] != y"), "fire", "C18-N1"),
        # silent
        V("lemma-conditions-reordered", replace_expr(MP, "MeshPatt.north_east_shading_lemma_conditions", "(x, y) in self.shading", "(x - 1, y - 1) in self.shading", which=1), "fire-or-undecided", "C18-N1", note="(this swap duplicates a condition and drops another: not a pure reordering)"),
        V("lemma-x-eq-0", replace_expr(MP, "MeshPatt.north_east_shading_lemma_conditions", "x - 1 < 0", "x == 0"), "silent"),
        V("reformat", reformat_only(MP), "silent"),
        V("rename-ans", rename_local(MP, "MeshPatt.can_shade", "ans", "point"), "silent"),
        V("back-count-explicit", replace_expr(MP, "MeshPatt.can_shade", "range(-rot % 4)", "range((4 - rot) % 4)"), "silent"),
        V("cells-reordered-in-update", replace_expr(MP, "MeshPatt.add_point", "((x + 1, y), (x + 1, y + 1))", "((x + 1, y + 1), (x + 1, y))"), "silent"),
    ]


# ------------------------------------------------------------------ N1: the shading lemma's side conditions (single cell)


def rule_n1(ctx: Ctx) -> None:
    """Shading Lemma (Hilmarsson, Jonsdottir, Sigurdardottir, Vidarsdottir, Ulfarsson 2015): the box (x, y) north-east of
    the point (x-1, y-1) may be shaded if it is unshaded, the box south-west of the point is unshaded, at most one of the
    boxes west/south of (x, y) adjacent to the point is shaded, and shading propagates across the horizontal line below
    (x, y) and the vertical line left of it everywhere except next to the point."""
    import itertools

    from ..skelrules import check_skeleton

    f = ctx.repo.need_method("MeshPatt", "north_east_shading_lemma_conditions")
    S = "self.shading"
    N = "len(self.pattern) + 1"
    no_point = ["x - 1 < 0 or self.pattern[x - 1] != y - 1", "x == 0 or self.pattern[x - 1] != y - 1", "x < 1 or self.pattern[x - 1] != y - 1", "x <= 0 or self.pattern[x - 1] != y - 1"]
    excl_x = ["(x - 1, x)", "(x, x - 1)"]
    excl_y = ["(y - 1, y)", "(y, y - 1)"]
    specs = []
    for c2, ex, ey in itertools.product(no_point, excl_x, excl_y):
        specs.append(
            "x, y = a0\n"
            f"return not any(((x, y) in {S}, {c2}, (x - 1, y - 1) in {S}, (x, y - 1) in {S} and (x - 1, y) in {S}, "
            f"any((l, y - 1) in {S} and (l, y) not in {S} for l in range({N}) if l not in {ex}), "
            f"any((x - 1, l) in {S} and (x, l) not in {S} for l in range({N}) if l not in {ey})))"
        )
        specs.append(specs[-1].replace("len(self.pattern) + 1", "len(self) + 1"))
    check_skeleton(ctx, "C18-N1", f, specs, "north-east shading-lemma conditions = the published lemma's four conditions (plus: box unshaded, point present)")


_OLD_RUN = run


def run(ctx: Ctx) -> None:  # noqa: F811
    _OLD_RUN(ctx)
    ctx.run(rule_n1, ctx)


FLOORS["C18-N1"] = 1
EXPLANATION = EXPLANATION.replace("NOT decided: the north-east side conditions themselves,", "(c) the single-cell north-east side conditions are the published Shading Lemma's conditions (N1, skeleton comparison "
                                  "modulo order of the conditions). NOT decided: the simultaneous (two-cell) side conditions,")


# ------------------------------------------------------------------ D2: add_increase / add_decrease / shade by construction


def rule_d2(ctx: Ctx) -> None:
    from ..skelrules import check_skeleton

    repo = ctx.repo
    f = repo.need_method("MeshPatt", "add_increase")
    ctx.run(check_skeleton, ctx, "C18-D2", f, ["x, y = a0\nreturn self.add_point((x, y)).add_point((x + 1, y + 1))"], "add_increase = a point in the cell, then a point north-east of it", required_calls=["add_point"])
    f = repo.need_method("MeshPatt", "add_decrease")
    ctx.run(check_skeleton, ctx, "C18-D2", f, ["x, y = a0\nreturn self.add_point((x, y)).add_point((x + 1, y))"], "add_decrease = a point in the cell, then a point south-east of it", required_calls=["add_point"])
    f = repo.need_method("MeshPatt", "shade")
    ctx.run(check_skeleton, ctx, "C18-D2", f, ["return MeshPatt(self.pattern, self.shading | set(va))", "return MeshPatt(self.pattern, self.shading.union(va))", "return MeshPatt(self.pattern, self.shading | frozenset(va))"],
            "shade adds the given cells to the shading, same underlying pattern")
    ap = repo.need_method("MeshPatt", "add_point")
    first = ap.body[0]
    if isinstance(first, ast.Assert) and unparse(first.test) == f"{ap.params[1]} not in self.shading":
        ctx.ok("C18-D2", ap.where, "a point may only be added in an unshaded cell", first, ap)
    else:
        ctx.violation("C18-D2", ap, first, "add_point does not reject a shaded cell")
    rets = [st for st in ap.body if isinstance(st, ast.Return)]
    if len(rets) == 1 and unparse(rets[0].value).startswith("MeshPatt(self._add_point_new_perm(") and "self._add_point_base_shading(" in "".join(unparse(s) for s in ap.body):
        ctx.ok("C18-D2", ap.where, "result = (pattern with the new point, split base shading + directional cells)", rets[0], ap)
    else:
        raise AnalysisError(f"{ap.where}: result construction not recognised")


_OLD_RUN2 = run


def run(ctx: Ctx) -> None:  # noqa: F811
    _OLD_RUN2(ctx)
    ctx.run(rule_d2, ctx)


FLOORS["C18-D2"] = 5


# ------------------------------------------------------------------ G1: region tests (geometry of cells and lines)


def rule_g1(ctx: Ctx) -> None:
    """A region is the block of cells [left..right] x [lower..upper] (inclusive).  It is shaded iff every cell of the
    block is; the points in its interior are those on the lines strictly inside: index i with left <= i < right
    (line i separates columns i and i + 1) and value v with lower <= v < upper."""
    from ..skelrules import check_skeleton

    repo = ctx.repo
    f = repo.need_method("MeshPatt", "is_shaded")
    ctx.run(check_skeleton, ctx, "C18-G1", f, [
        "if a1 is None:\n    return a0 in self.shading\n(left, lower), (right, upper) = a0, a1\nreturn all((x, y) in self.shading for y in range(lower, upper + 1) for x in range(left, right + 1))",
        "if a1 is None:\n    return a0 in self.shading\n(left, lower), (right, upper) = a0, a1\nreturn all((x, y) in self.shading for x in range(left, right + 1) for y in range(lower, upper + 1))",
    ], "is_shaded(region) = every cell of the inclusive block is shaded", ignore_asserts=True)
    g = repo.need_method("MeshPatt", "is_pointfree")
    ctx.run(check_skeleton, ctx, "C18-G1", g, [
        "(left, lower), (right, upper) = a0, a1\nreturn not any(lower <= self.pattern[i] < upper for i in range(left, right))",
        "(left, lower), (right, upper) = a0, a1\nreturn all(not lower <= self.pattern[i] < upper for i in range(left, right))",
    ], "is_pointfree(region) = no point on a line strictly inside the block", ignore_asserts=True)


_OLD_RUN3 = run


def run(ctx: Ctx) -> None:  # noqa: F811
    _OLD_RUN3(ctx)
    ctx.run(rule_g1, ctx)


FLOORS["C18-G1"] = 2
EXPLANATION = EXPLANATION.replace("_add_point_base_shading's splitting, is_shaded / is_pointfree region arithmetic,", "(d) the region tests is_shaded / is_pointfree state the geometry of cells and lines (G1). NOT decided: _add_point_base_shading's splitting,")


# ------------------------------------------------------------------ P1: point insertion splits the grid


def rule_p1(ctx: Ctx) -> None:
    """Adding a point in cell (x, y) inserts the vertical line x and the horizontal line y: an old column c becomes
    c (if c < x), c + 1 (if c > x) or both (c == x, the split column); rows alike; a shaded cell is replaced by all
    combinations.  The new permutation has the new value y at position x and every old value >= y raised by one."""
    repo = ctx.repo
    f = repo.need_method("MeshPatt", "_add_point_base_shading")
    x, y = f.params[1], f.params[2]
    loops = [st for st in f.body if isinstance(st, ast.For)]
    if len(loops) != 1 or unparse(loops[0].iter) != "self.shading":
        raise AnalysisError(f"{f.where}: loop over the shading not recognised")
    lp = loops[0]
    sx, sy = [unparse(e) for e in lp.target.elts]
    ifs = [st for st in lp.body if isinstance(st, ast.If)]
    got = {}
    for st in ifs:
        if st.orelse or len(st.body) != 1:
            raise AnalysisError(f"{f.where}: split branch shape")
        call = st.body[0].value if isinstance(st.body[0], ast.Expr) else None
        if not (isinstance(call, ast.Call) and isinstance(call.func, ast.Attribute) and call.func.attr == "append"):
            raise AnalysisError(f"{f.where}: split branch shape")
        got.setdefault(unparse(call.func.value), []).append((st.test, call.args[0]))
    if len(got) != 2:
        raise AnalysisError(f"{f.where}: expected one list of new columns and one of new rows")
    from ..affine import NotAffine, Poly, poly_of

    S, L = Poly.sym("S"), Poly.sym("L")

    def rel_of(test: ast.AST, s_name: str, l_name: str):
        """the test as a relation `s REL l` between the old coordinate and the new line, or None"""
        if not (isinstance(test, ast.Compare) and len(test.ops) == 1):
            return None
        a, b, op = unparse(test.left), unparse(test.comparators[0]), type(test.ops[0])
        sym = {ast.Lt: "<", ast.LtE: "<=", ast.Gt: ">", ast.GtE: ">=", ast.Eq: "==", ast.NotEq: "!="}.get(op)
        if sym is None:
            return None
        if (a, b) == (s_name, l_name):
            return sym
        if (a, b) == (l_name, s_name):
            return {"<": ">", "<=": ">=", ">": "<", ">=": "<=", "==": "==", "!=": "!="}[sym]
        return None

    ok = True
    roles = {}
    for lst, pairs in got.items():
        role = None
        for axis, (s_name, l_name) in (("x", (sx, x)), ("y", (sy, y))):
            rels = [rel_of(t, s_name, l_name) for t, _v in pairs]
            if all(r is not None for r in rels):
                role = axis
                try:
                    vals = [poly_of(v, {s_name: S, l_name: L}) for _t, v in pairs]
                except NotAffine:
                    raise AnalysisError(f"{f.where}: new coordinate is not affine in the old one")
                have = set(zip(rels, vals))
                if have == {("<=", S), (">=", S + Poly.const(1))}:
                    roles[lst] = axis
                else:
                    ok = False
                    ctx.violation("C18-P1", f, lp, f"old coordinate is mapped by {[(unparse(t), unparse(v)) for t, v in pairs]}; a coordinate c splits around the new line l as: c (if c <= l) and c + 1 (if c >= l)")
        if role is None:
            # a coordinate compared with the line of the OTHER axis in one of the tests?
            for axis, (s_name, l_name, other_l) in (("x", (sx, x, y)), ("y", (sy, y, x))):
                rels = [(rel_of(t, s_name, l_name), rel_of(t, s_name, other_l)) for t, _v in pairs]
                if all(a is not None or b is not None for a, b in rels) and any(b is not None for _a, b in rels) and any(a is not None for a, _b in rels):
                    ctx.violation("C18-P1", f, lp, f"old coordinate `{s_name}` is split by {[(unparse(t), unparse(v)) for t, v in pairs]}: one of the tests compares it with `{other_l}`, the line of the other axis")
                    return
            raise AnalysisError(f"{f.where}: the tests {[unparse(t) for t, _v in pairs]} are not comparisons of an old coordinate with the new line")
    if not ok:
        return
    if sorted(roles.values()) != ["x", "y"]:
        ctx.violation("C18-P1", f, lp, "both split lists refer to the same axis")
        return
    lx = next(k for k, r in roles.items() if r == "x")
    ly = next(k for k, r in roles.items() if r == "y")
    nest = [st for st in lp.body if isinstance(st, ast.For)]
    good = len(nest) == 1 and unparse(nest[0].iter) == lx and len(nest[0].body) == 1 and isinstance(nest[0].body[0], ast.For) and unparse(nest[0].body[0].iter) == ly
    if good:
        a, b = unparse(nest[0].target), unparse(nest[0].body[0].target)
        inner = nest[0].body[0].body
        good = len(inner) == 1 and unparse(inner[0]).endswith(f".add(({a}, {b}))") and isinstance(inner[0], ast.Expr)
    if not good and not nest:
        # the same product as one bulk update:  S.update((a, b) for a in XS for b in YS)  /  itertools.product(XS, YS)
        for st in lp.body:
            c = st.value if isinstance(st, ast.Expr) and isinstance(st.value, ast.Call) else None
            if c is None or not (isinstance(c.func, ast.Attribute) and c.func.attr == "update" and len(c.args) == 1):
                continue
            g = c.args[0]
            if isinstance(g, (ast.GeneratorExp, ast.ListComp, ast.SetComp)) and len(g.generators) == 2 and not any(x.ifs for x in g.generators) and isinstance(g.elt, ast.Tuple) and len(g.elt.elts) == 2:
                by_list = {unparse(x.iter): unparse(x.target) for x in g.generators}
                if set(by_list) == {lx, ly} and [unparse(e) for e in g.elt.elts] == [by_list[lx], by_list[ly]]:
                    good = True
            if isinstance(g, ast.Call) and call_name(g) in (("product",), ("itertools", "product")) and [unparse(x) for x in g.args] == [lx, ly] and not g.keywords:
                good = True
    if good:
        ctx.ok("C18-P1", f.where, "every shaded cell is replaced by all combinations of its split columns and rows", lp, f)
    elif any(isinstance(n, ast.Call) and call_name(n) == ("zip",) and {unparse(x) for x in n.args} == {lx, ly} for n in ast.walk(lp)):
        ctx.violation("C18-P1", f, lp, "the split columns and rows are paired up (zip), not combined: the new shading is not the full product (new columns) x (new rows) of every old shaded cell", robust=True)
    elif len(nest) == 1 and unparse(nest[0].iter) in (lx, ly) and not any(isinstance(n, (ast.For, ast.comprehension)) for st in nest[0].body for n in ast.walk(st)):
        ctx.violation("C18-P1", f, lp, "only one of the two split lists is iterated: the new shading is not the full product (new columns) x (new rows) of every old shaded cell")
    elif len(nest) == 1 and len(nest[0].body) == 1 and isinstance(nest[0].body[0], ast.For) and {unparse(nest[0].iter), unparse(nest[0].body[0].iter)} <= {lx, ly}:
        ctx.violation("C18-P1", f, lp, "the new shading is not the full product (new columns) x (new rows) of every old shaded cell")
    else:
        raise AnalysisError(f"{f.where}: how the split columns and rows are combined into new shaded cells is not recognised")
    g = repo.need_method("MeshPatt", "_add_point_new_perm")
    gx, gy = g.params[1], g.params[2]
    rets = [st for st in g.body if isinstance(st, ast.Return)]
    env = {unparse(st.targets[0]): unparse(st.value) for st in g.body if isinstance(st, ast.Assign)}
    it = next((k for k, v in env.items() if v == "iter(self.pattern)"), None)
    if len(rets) != 1 or it is None:
        raise AnalysisError(f"{g.where}: construction not recognised")
    v = rets[0].value
    if not (isinstance(v, ast.Call) and call_name(v) == ("Perm",) and isinstance(v.args[0], ast.Call) and call_name(v.args[0]) == ("chain",) and len(v.args[0].args) == 3):
        raise AnalysisError(f"{g.where}: expected Perm(chain(before, (new,), after))")
    before, mid, after = v.args[0].args

    def part(node, src) -> bool:
        if not (isinstance(node, ast.GeneratorExp) and len(node.generators) == 1 and not node.generators[0].ifs and unparse(node.generators[0].iter) == src):
            return False
        t = unparse(node.generators[0].target)
        return unparse(node.elt) in (f"{t} if {t} < {gy} else {t} + 1", f"{t} + 1 if {t} >= {gy} else {t}")

    if part(before, f"islice({it}, {gx})") and unparse(mid) == f"({gy},)" and part(after, it):
        ctx.ok("C18-P1", g.where, f"new permutation: first {gx} entries, then the new value {gy}, then the rest; old values >= {gy} raised by one", rets[0], g)
    else:
        ctx.violation("C18-P1", g, rets[0], f"the new permutation is not (first {gx} entries) + ({gy},) + (rest) with every old value >= {gy} raised by one")


_OLD_RUN4 = run


def run(ctx: Ctx) -> None:  # noqa: F811
    _OLD_RUN4(ctx)
    ctx.run(rule_p1, ctx)


FLOORS["C18-P1"] = 2
EXPLANATION = EXPLANATION.replace("NOT decided: _add_point_base_shading's splitting,", "(e) point insertion splits columns, rows and values around the new lines (P1). NOT decided:")


# ------------------------------------------------------------------ N2: the simultaneous (two-cell) shading lemma


def rule_n2(ctx: Ctx) -> None:
    """Simultaneous Shading Lemma (Claesson, Tenner, Ulfarsson): let the point be (A-1, B-1), pos1 = (A, B) the cell
    north-east of it and pos2 = (A, B-1) the cell south-east of it.  Both cells may be shaded if
      (1) the point is there, (2) pos2 is directly below pos1, (3) neither cell is shaded,
      (4) the two cells west of the point, (A-1, B) and (A-1, B-1), are unshaded,
      (5) across the vertical line through the point, in every row except the two rows next to the point
          (B and B-1), a shaded cell on the left has a shaded cell on the right,
      (6) across the horizontal line through the point, in every column except the two next to the point
          (A and A-1), the cells above and below are shaded alike."""
    from .c17 import lin

    f = ctx.repo.need_method("MeshPatt", "north_east_simul_shading_lemma_conditions")
    if len(f.params) != 3:
        raise AnalysisError(f"{f.where}: signature not recognised")
    p1, p2 = f.params[1], f.params[2]
    rets = [st for st in f.body if isinstance(st, ast.Return)]
    if len(rets) != 1:
        raise AnalysisError(f"{f.where}: single return expected")
    v = rets[0].value
    if not (isinstance(v, ast.UnaryOp) and isinstance(v.op, ast.Not) and isinstance(v.operand, ast.Call) and unparse(v.operand.func) == "any" and len(v.operand.args) == 1
            and isinstance(v.operand.args[0], (ast.Tuple, ast.List))):
        raise AnalysisError(f"{f.where}: `not any((...))` over a display of conditions expected")
    conds = v.operand.args[0].elts

    class Unknown(Exception):
        pass

    def lcanon(e: ast.AST, var: Optional[str]) -> str:
        class Sub(ast.NodeTransformer):
            def visit_Subscript(self, node: ast.Subscript):
                t = unparse(node)
                if t in (f"{p1}[0]", f"{p2}[0]"):
                    return ast.Name(id="A", ctx=ast.Load())
                if t == f"{p1}[1]":
                    return ast.Name(id="B", ctx=ast.Load())
                if t == f"{p2}[1]":
                    return ast.BinOp(left=ast.Name(id="B", ctx=ast.Load()), op=ast.Sub(), right=ast.Constant(value=1))
                return self.generic_visit(node)

        import copy

        e2 = Sub().visit(copy.deepcopy(e))
        le = lin(e2)
        if le is None:
            raise Unknown(unparse(e))
        if var is not None and var in le:
            le["v"] = le.pop(var)
        if not set(le) <= {"A", "B", "v", ""}:
            raise Unknown(unparse(e))
        return "+".join(f"{c}*{k}" if k else str(c) for k, c in sorted(le.items())) or "0"

    def cell(node: ast.AST, var: Optional[str]):
        if isinstance(node, ast.Name) and node.id == p1:
            return (lcanon(ast.parse(f"{p1}[0]", mode="eval").body, var), lcanon(ast.parse(f"{p1}[1]", mode="eval").body, var))
        if isinstance(node, ast.Name) and node.id == p2:
            return (lcanon(ast.parse(f"{p2}[0]", mode="eval").body, var), lcanon(ast.parse(f"{p2}[1]", mode="eval").body, var))
        if isinstance(node, ast.Tuple) and len(node.elts) == 2:
            return (lcanon(node.elts[0], var), lcanon(node.elts[1], var))
        raise Unknown(unparse(node))

    def canon(node: ast.AST, var: Optional[str] = None):
        if isinstance(node, ast.BoolOp):
            return ("or" if isinstance(node.op, ast.Or) else "and", frozenset(canon(x, var) for x in node.values))
        if isinstance(node, ast.UnaryOp) and isinstance(node.op, ast.Not):
            return ("not", canon(node.operand, var))
        if isinstance(node, ast.Compare) and len(node.ops) == 1:
            op, l, r = node.ops[0], node.left, node.comparators[0]
            if isinstance(op, (ast.In, ast.NotIn)) and unparse(r) == "self.shading":
                return ("in" if isinstance(op, ast.In) else "notin", cell(l, var))
            if isinstance(op, (ast.NotEq, ast.Eq)) and isinstance(l, ast.Compare) and isinstance(r, ast.Compare):
                return ("differ" if isinstance(op, ast.NotEq) else "alike", frozenset((canon(l, var), canon(r, var))))
            if isinstance(op, (ast.NotEq, ast.Eq)) and isinstance(r, ast.Subscript) and unparse(r.value) == "self.pattern" and not (isinstance(l, ast.Subscript) and unparse(l.value) == "self.pattern"):
                l, r = r, l  # symmetric comparison written the other way round
            if isinstance(l, ast.Subscript) and unparse(l.value) == "self.pattern" and isinstance(op, (ast.NotEq, ast.Eq)):
                return ("pattern-ne" if isinstance(op, ast.NotEq) else "pattern-eq", lcanon(l.slice, var), lcanon(r, var))
            sym = {ast.Eq: "==", ast.NotEq: "!=", ast.Lt: "<", ast.LtE: "<=", ast.Gt: ">", ast.GtE: ">="}.get(type(op))
            if sym:
                return ("cmp", sym, lcanon(l, var), lcanon(r, var), unparse(node))
        if isinstance(node, ast.Call) and unparse(node.func) in ("any", "all") and len(node.args) == 1 and isinstance(node.args[0], ast.GeneratorExp):
            ge = node.args[0]
            if len(ge.generators) == 1 and isinstance(ge.generators[0].target, ast.Name):
                g = ge.generators[0]
                x = g.target.id
                rng = unparse(g.iter)
                if rng not in ("range(len(self.pattern) + 1)", "range(len(self) + 1)", "range(0, len(self.pattern) + 1)", "range(0, len(self) + 1)"):
                    raise Unknown(rng)
                excl = None
                if len(g.ifs) == 1 and isinstance(g.ifs[0], ast.Compare) and isinstance(g.ifs[0].ops[0], ast.NotIn) and unparse(g.ifs[0].left) == x \
                        and isinstance(g.ifs[0].comparators[0], (ast.Tuple, ast.List, ast.Set)):
                    excl = frozenset(lcanon(e, x) for e in g.ifs[0].comparators[0].elts)
                elif g.ifs:
                    raise Unknown(unparse(g.ifs[0]))
                return ("exists" if unparse(node.func) == "any" else "forall", canon(ge.elt, x), excl)
        raise Unknown(unparse(node)[:60])

    A, Am, B, Bm = "1*A", "-1+1*A", "1*B", "-1+1*B"
    want = {
        "the two cells are unshaded": ("or", frozenset({("in", (A, B)), ("in", (A, Bm))})),
        "the cells west of the point are unshaded": ("or", frozenset({("in", (Am, B)), ("in", (Am, Bm))})),
        "vertical line: left shaded => right shaded, except in the two rows next to the point": ("exists", ("and", frozenset({("in", (Am, "1*v")), ("notin", (A, "1*v"))})), frozenset({B, Bm})),
        "horizontal line: cells above and below shaded alike, except in the two columns next to the point": ("exists", ("differ", frozenset({("in", ("1*v", B)), ("in", ("1*v", Bm))})), frozenset({A, Am})),
    }
    got = []
    adjacency = point = 0
    for c in conds:
        raw = unparse(c)
        # (2) adjacency: recognised before the substitution pos2 := (A, B-1), which makes it a tautology
        if p1 in raw and p2 in raw and isinstance(c, ast.BoolOp) and isinstance(c.op, ast.Or) and all(isinstance(x, ast.Compare) and isinstance(x.ops[0], ast.NotEq) for x in c.values):
            try:
                sides = [(lcanon(x.left, None), lcanon(x.comparators[0], None)) for x in c.values]
            except Unknown as exc:
                raise AnalysisError(f"{f.where}: condition `{raw[:60]}` not recognised ({exc})")
            if all(a == b for a, b in sides) and {a for a, _ in sides} in ({A, Bm}, {A, B}):
                adjacency += 1
                continue
            ctx.violation("C18-N2", f, c, f"`{raw}` does not say that {p2} is the cell directly below {p1} (same column, one row lower)", robust=True)
            return
        try:
            t = canon(c)
        except Unknown as exc:
            raise AnalysisError(f"{f.where}: condition `{raw[:70]}` not recognised ({exc})")
        # (1) the point
        if t[0] == "or" and any(x[0] == "pattern-ne" for x in t[1]):
            pn = [x for x in t[1] if x[0] == "pattern-ne"]
            edge = [x for x in t[1] if x[0] == "cmp"]
            if len(t[1]) == 2 and pn[0][1:] == (Am, Bm) and len(edge) == 1 and edge[0][1:4] in (("==", A, "0"), ("<", Am, "0"), ("<", A, "1"), ("<=", A, "0"), ("<=", Am, "-1")):
                point += 1
                continue
            ctx.violation("C18-N2", f, c, f"`{raw}` does not test that the point south-west of {p1} is (pos1[0]-1, pos1[1]-1)", robust=True)
            return
        got.append((t, c))
    if adjacency != 1 or point != 1:
        ctx.violation("C18-N2", f, rets[0], f"conditions on the point ({point}) / on the two cells being stacked ({adjacency}) are missing or repeated", robust=True)
        return
    bad = False
    remaining = dict(want)
    for t, c in got:
        hit = [k for k, w in remaining.items() if w == t]
        if hit:
            ctx.ok("C18-N2", f.where, hit[0], c, f)
            del remaining[hit[0]]
            continue
        # same kind, other cells?
        kind = [k for k, w in want.items() if w[0] == t[0] and (t[0] != "exists" or w[1][0] == t[1][0] or {w[1][0], t[1][0]} == {"differ", "alike"})]
        if kind:
            ctx.violation("C18-N2", f, c, f"side condition `{unparse(c)[:110]}` is not the lemma's condition \"{kind[0]}\" (with the point at ({p1}[0]-1, {p1}[1]-1), {p1} = (A, B), {p2} = (A, B-1))", robust=True)
            bad = True
        else:
            raise AnalysisError(f"{f.where}: extra condition `{unparse(c)[:70]}` not part of the lemma; not decided")
    if bad:
        return
    if remaining:
        ctx.violation("C18-N2", f, rets[0], f"the lemma's condition(s) {sorted(remaining)} are not checked", robust=True)
        return
    ctx.ok("C18-N2", f.where, "the point is present and the two cells are stacked east of it", rets[0], f)
    asserts = [st for st in f.body if isinstance(st, ast.Assert)]
    _ = asserts


_OLD_RUN_N2 = run


def run(ctx: Ctx) -> None:  # noqa: F811
    _OLD_RUN_N2(ctx)
    ctx.run(rule_n2, ctx)


FLOORS["C18-N2"] = 5
EXPLANATION = EXPLANATION.replace("NOT decided: the simultaneous (two-cell) side conditions,", "(c') the two-cell side conditions are the published Simultaneous Shading Lemma's six conditions, compared after "
                                  "expressing every cell relative to the point (N2). NOT decided:")


# ------------------------------------------------------------------ T1: the text rendering is assembled as reviewed (grid rows top-down, one cell row = cell_size lines)


def rule_t1(ctx: Ctx) -> None:
    """ascii_plot: the reviewed assembly – point rows from the top value down, a cell row is `cell_size` copies of one line of
    `cell_size`-wide cells for columns 0..n, rows n..0, interleaved starting with a cell row, last newline dropped.  Decided
    as 'equal / propositionally equal to the reviewed construction, or a point change of it'; whether the text parses back
    is a value-level statement that is not decided."""
    from ..skeleton import Env, T, show
    from ..skelrules import classify_term

    f = ctx.repo.need_method("MeshPatt", "ascii_plot")
    if len(f.params) < 2:
        raise AnalysisError(f"{f.where}: signature not recognised")
    cs = f.params[1]
    binds = {}
    for st in f.body:
        if isinstance(st, ast.Assign) and len(st.targets) == 1 and isinstance(st.targets[0], ast.Name):
            binds.setdefault(st.targets[0].id, []).append(st)
    rets = [st for st in f.body if isinstance(st, ast.Return)]
    if len(rets) != 1 or rets[0].value is None:
        raise AnalysisError(f"{f.where}: single return expected")
    # the names of the locals are read off the construction itself
    rr = [n for n in ast.walk(rets[0].value) if isinstance(n, ast.Call) and isinstance(n.func, ast.Name) and n.func.id in f.nested and len(n.args) == 2 and all(isinstance(a, ast.Name) for a in n.args)]
    nn = [k for k, v in binds.items() if len(v) == 1 and unparse(v[0].value) in (f"len({f.params[0]})", f"len({f.params[0]}.pattern)")]
    if len(rr) != 1 or len(nn) != 1:
        raise AnalysisError(f"{f.where}: interleaving call / size local not recognised")
    inter, n = rr[0].func.id, nn[0]
    a0, a1 = rr[0].args[0].id, rr[0].args[1].id
    if len(binds.get(a0, [])) != 1 or len(binds.get(a1, [])) != 1:
        raise AnalysisError(f"{f.where}: the two line generators are not bound once")

    def helper_calls(name):
        return [x for x in ast.walk(binds[name][0].value) if isinstance(x, ast.Call) and isinstance(x.func, ast.Name) and x.func.id in f.nested]

    # the generator of cell rows is the one that asks the nested helper for the character of a cell
    if helper_calls(a0) and not helper_calls(a1):
        vl, ln = a0, a1
    elif helper_calls(a1) and not helper_calls(a0):
        vl, ln = a1, a0
    else:
        raise AnalysisError(f"{f.where}: cell-row / point-row generators not told apart")
    fills = helper_calls(vl)
    arrs = [k for k, v in binds.items() if len(v) == 1 and isinstance(v[0].value, ast.ListComp) and isinstance(v[0].value.elt, ast.ListComp)]
    if len(fills) != 1 or len(arrs) != 1:
        raise AnalysisError(f"{f.where}: grid array / cell character helper not recognised")
    arr, fill = arrs[0], fills[0].func.id
    spec = {
        arr: [f"[['+' for i in range({n})] for j in range({n})]"],
        ln: [f"((('-' * {cs}).join([''] + line + ['']) + '\\n') for line in reversed({arr}))"],
        vl: [f"((('|'.join({fill}((j, i)) * {cs} for j in range({n} + 1)) + '\\n') * {cs}) for i in range({n}, -1, -1))"],
        "<return>": [f"''.join({inter}({vl}, {ln}))[:-1]"],
    }
    for name, specs in spec.items():
        if name == "<return>":
            node, val = rets[0], rets[0].value
        else:
            if len(binds.get(name, [])) != 1:
                raise AnalysisError(f"{f.where}: local `{name}` of the reviewed construction not found")
            node, val = binds[name][0], binds[name][0].value
        got = T(val, Env())
        wants = [T(ast.parse(s, mode="eval").body, Env()) for s in specs]
        verdict, why = classify_term(ctx.repo, got, wants)
        if verdict == "ok":
            ctx.ok("C18-T1", f.where, f"rendering: `{name}` is the reviewed construction", node, f)
        elif verdict == "violation":
            ctx.violation("C18-T1", f, node, f"rendering: `{name}` {why[:300]}")
        else:
            raise AnalysisError(f"{f.where}: rendering: `{name}` = {show(got)[:160]} is neither the reviewed construction nor a point change of it")
    fc = f.nested.get(fill)
    if fc is None:
        raise AnalysisError(f"{f.where}: fill_char helper not found")
    from ..skelrules import check_skeleton

    ctx.run(check_skeleton, ctx, "C18-T1", fc, [f"if a0 in self.shading:\n    return '\\u2592'\nif a0[0] == {n}:\n    return ''\nreturn ' '"],
            "a shaded cell is drawn filled, the cells of the last column have no width beyond the shading mark, other cells are blank")


_OLD_RUN_T1 = run


def run(ctx: Ctx) -> None:  # noqa: F811
    _OLD_RUN_T1(ctx)
    ctx.run(rule_t1, ctx)


FLOORS["C18-T1"] = 5
