"""C13 – finiteness / polynomial growth / insertion encodability: container, history and
order independence, exhaustiveness of the type tables, sibling agreement."""

from __future__ import annotations

import ast
from typing import Dict, List, Optional, Set, Tuple

from .. import oneshot
from ..core import AnalysisError, ClassInfo, FuncInfo, Repo, attr_chain, call_name, const_value, deviates, is_const, unparse, walk_no_nested
from ..purity import Purity
from ..report import Ctx
from ..skelrules import check_skeleton
from ..templates import template_text

PROP = "C13"
FLOORS = {"C13-I1": 6, "C13-M1": 2, "C13-X1": 14, "C13-X2": 9, "C13-S1": 5}

EXPLANATION = (
    "Decided: (a) verdicts do not depend on the container type, one-shot iterators included (I1, one-shot discipline with callee summaries); "
    "(b) nor on earlier calls (M1: process-wide memo tables hold a pure function of their key, single writer, sentinel cannot collide); "
    "(c) order/repetition independence by construction (S1: the combinators are set union / bitwise OR / any over the basis); "
    "(d) necessary conditions for 'polynomial iff all ten types' and 'insertion encodable iff all four': exhaustiveness of the PermType table "
    "against its producers and the compared constant (X1), the four run-shape tests as one template with all four operator combinations, the mask "
    "constant, rightmost/maximum as one fold differing by an odd quarter turn (X2), wrappers reach the deciding function unchanged (S1). "
    "NOT decided: that each structural type test recognises its class, agreement with actual enumeration, symmetry invariance."
)

SCOPE = ["permuta.permutils.finite", "permuta.permutils.polynomial", "permuta.permutils.insertion_encodable", "permuta.perm_sets.permset", "permuta.cli",
         "permuta.permutils.symmetry"]
I1_ANCHORS = ["is_finite", "PolyPerms.is_polynomial", "PolyPerms.is_non_polynomial", "InsertionEncodablePerms.is_insertion_encodable",
              "InsertionEncodablePerms.is_insertion_encodable_rightmost", "InsertionEncodablePerms.is_insertion_encodable_maximum"]


# ------------------------------------------------------------------------------ M1


def dict_memo_sites(repo: Repo, ci: ClassInfo) -> List[Tuple[FuncInfo, str]]:
    """(function, cache attribute) pairs where function does ``Cls.<attr>.get(..)``."""
    out = []
    caches = [a for a, v in ci.assigns.items() if isinstance(v, ast.Dict) and not v.keys]
    for fi in ci.methods.values():
        for node in walk_no_nested(fi.node):
            if isinstance(node, ast.Call):
                cn = call_name(node)
                if cn and len(cn) == 3 and cn[0] in (ci.name, "cls") and cn[1] in caches and cn[2] == "get":
                    out.append((fi, cn[1]))
    return out


def rule_m1(ctx: Ctx) -> None:
    repo = ctx.repo
    pur = Purity(repo)
    for cname in ("PolyPerms", "InsertionEncodablePerms"):
        ci = repo.cls(cname)
        sites = dict_memo_sites(repo, ci)
        caches = [a for a, v in ci.assigns.items() if isinstance(v, ast.Dict) and not v.keys]
        if not sites:
            if not caches:
                ctx.ok("C13-M1", ci.where, "no process-wide memo table: nothing can depend on earlier calls")
                continue
            raise AnalysisError(f"{cname}: cache attribute(s) {caches} without a recognised get/store site")
        for fi, attr in sites:
            analyse_memo_site(ctx, pur, ci, fi, attr)
        # writers elsewhere
        for attr in caches:
            for f2 in repo.all_funcs():
                for node in walk_no_nested(f2.node):
                    hit = None
                    if isinstance(node, (ast.Assign, ast.AugAssign, ast.Delete)):
                        for t in (node.targets if isinstance(node, (ast.Assign, ast.Delete)) else [node.target]):
                            base = t.value if isinstance(t, ast.Subscript) else t
                            ch = attr_chain(base)
                            if ch and len(ch) == 2 and ch[1] == attr and ch[0] in (cname, "cls") and (ch[0] == cname or (f2.cls is not None and f2.cls.name == cname)):
                                hit = node
                    if isinstance(node, ast.Call):
                        cn = call_name(node)
                        if cn and len(cn) == 3 and cn[1] == attr and cn[0] in (cname,) and cn[2] in ("clear", "pop", "popitem", "update", "setdefault", "__setitem__", "__delitem__"):
                            hit = node
                    if hit is not None and not any(f2 is s[0] for s in sites):
                        ctx.violation("C13-M1", f2, hit, f"additional writer of the memo table {cname}.{attr} outside its compute-on-miss site", robust=True)


def analyse_memo_site(ctx: Ctx, pur: Purity, ci: ClassInfo, fi: FuncInfo, attr: str) -> None:
    body = fi.body
    # shape: v = C.attr.get(key[, default]); if <miss test on v>: v = <value>; C.attr[key] = v ; return v
    get_stmt = None
    for st in body:
        if isinstance(st, ast.Assign) and isinstance(st.value, ast.Call):
            cn = call_name(st.value)
            if cn and cn[-1] == "get" and cn[-2] == attr and len(st.targets) == 1 and isinstance(st.targets[0], ast.Name):
                get_stmt = st
    if get_stmt is None:
        raise AnalysisError(f"{fi.where}: memo lookup shape not recognised")
    var = get_stmt.targets[0].id
    key = get_stmt.value.args[0]
    default = get_stmt.value.args[1] if len(get_stmt.value.args) > 1 else None
    ifs = [st for st in body if isinstance(st, ast.If)]
    if len(ifs) != 1:
        raise AnalysisError(f"{fi.where}: expected one miss branch")
    miss = ifs[0]
    value = None
    store = None
    for st in miss.body:
        if isinstance(st, ast.Assign) and len(st.targets) == 1:
            t = st.targets[0]
            if isinstance(t, ast.Name) and t.id == var:
                value = st.value
            if isinstance(t, ast.Subscript):
                ch = attr_chain(t.value)
                if ch and ch[-1] == attr:
                    store = st
    if value is None or store is None:
        raise AnalysisError(f"{fi.where}: miss branch without value/store")
    # key agreement
    if unparse(store.targets[0].slice) != unparse(key):
        ctx.violation("C13-M1", fi, store, f"memo stored under key {unparse(store.targets[0].slice)} but looked up under {unparse(key)}", robust=True)
        return
    if not (isinstance(store.value, ast.Name) and store.value.id == var):
        ctx.violation("C13-M1", fi, store, f"memo stores {unparse(store.value)} instead of the computed value `{var}`", robust=True)
        return
    if not (isinstance(key, ast.Name) and key.id in fi.params):
        raise AnalysisError(f"{fi.where}: memo key {unparse(key)} is not a parameter")
    # value depends on the key only
    free = {n.id for n in ast.walk(value) if isinstance(n, ast.Name) and isinstance(n.ctx, ast.Load)}
    bound = {n.id for n in ast.walk(value) if isinstance(n, ast.Name) and isinstance(n.ctx, ast.Store)}
    known = {key.id, ci.name, "frozenset", "sum", "enumerate", "tuple", "len", "int", "bool", "set", "sorted"} | bound
    extra = {x for x in free - known if fi.module.assigns.get(x) is None and x not in fi.module.imports and x not in fi.module.classes}
    if extra:
        ctx.violation("C13-M1", fi, value, f"memoised value depends on {sorted(extra)} besides its key `{key.id}`", robust=True)
        return
    reasons: List[Tuple[FuncInfo, ast.AST, str]] = []
    callees: Set[str] = set()
    for node in ast.walk(value):
        if isinstance(node, ast.Call):
            cands, exact = ctx.repo.resolve_call(fi, node)
            for c in cands:
                if exact:
                    eff = pur.effects(c)
                    callees.add(c.where)
                    reasons.extend(eff.reasons)
                    ctx.dynamic.extend(eff.dynamic)
    # reads of the memo table itself inside callees are fine only for the same pure lookup; anything else is a finding
    reasons = [r for r in reasons if attr not in r[2]]
    if reasons:
        for f2, n2, why in reasons:
            ctx.violation("C13-M1", f2, n2, f"memoised per-permutation result is not a pure function of the permutation: {why}", path=[fi.where, f2.where], robust=True)
        return
    # sentinel cannot collide with a stored value
    test = unparse(miss.test)
    if default is None or is_const(default, None):
        ok_sent = test in (f"{var} is None",) and isinstance(value, ast.Call) and call_name(value) in (("frozenset",), ("tuple",))
        sent = "None vs frozenset/tuple value"
    else:
        try:
            dv = const_value(default)
        except ValueError:
            raise AnalysisError(f"{fi.where}: non-constant memo default")
        nonneg = isinstance(value, ast.Call) and call_name(value) == ("sum",) and not any(isinstance(n, (ast.Sub, ast.USub)) for n in ast.walk(value))
        ok_sent = isinstance(dv, int) and dv < 0 and test in (f"{var} < 0", f"{var} == {dv}") and nonneg
        sent = f"{dv} vs non-negative bit mask"
    if not ok_sent:
        raise AnalysisError(f"{fi.where}: cannot show that the miss sentinel ({unparse(miss.test)}) never collides with a stored value {unparse(value)[:60]}")
    # return
    rets = [st for st in body if isinstance(st, ast.Return)]
    if not (len(rets) == 1 and isinstance(rets[0].value, ast.Name) and rets[0].value.id == var):
        raise AnalysisError(f"{fi.where}: memo function does not return the looked-up/computed value")
    ctx.ok("C13-M1", fi.where, f"memo {ci.name}.{attr}[{key.id}] = pure function of {key.id} (callees {sorted(c.split(':')[1] for c in callees)}); sentinel {sent}; single writer", value, fi)


# ------------------------------------------------------------------------------ X1


def enum_members(ci: ClassInfo) -> Dict[str, object]:
    out = {}
    for name, val in ci.assigns.items():
        try:
            out[name] = const_value(val)
        except ValueError:
            raise AnalysisError(f"{ci.where}: non-constant enum member {name}")
    return out


def rule_x1(ctx: Ctx) -> None:
    repo = ctx.repo
    pt = repo.cls("PermType")
    ctx.require("Enum" in pt.base_names, "PermType is no longer an Enum")
    members = enum_members(pt)
    vals = list(members.values())
    if len(set(vals)) != len(vals):
        ctx.violation("C13-X1", pt.where, pt.node, "PermType has members with equal values (aliases): fewer distinct types than names", file=pt.module.relpath)
    n_members = len(set(vals))
    pp = repo.cls("PolyPerms")
    # --- constant in is_polynomial
    isp = repo.need_method("PolyPerms", "is_polynomial")
    cmps = [n for n in walk_no_nested(isp.node) if isinstance(n, ast.Compare) and len(n.ops) == 1]
    const_cmp = None
    for c in cmps:
        for side, other in ((c.comparators[0], c.left), (c.left, c.comparators[0])):
            if isinstance(side, ast.Constant) and isinstance(side.value, int) and isinstance(other, ast.Call) and call_name(other) == ("len",):
                const_cmp = (c, side.value)
        # len(PermType) form
        for side in (c.comparators[0], c.left):
            if isinstance(side, ast.Call) and call_name(side) == ("len",) and side.args and isinstance(side.args[0], ast.Name) and side.args[0].id == "PermType":
                const_cmp = (c, n_members)
    if const_cmp is None:
        raise AnalysisError(f"{isp.where}: comparison of the number of types with a constant not found")
    cnode, k = const_cmp
    if not isinstance(cnode.ops[0], ast.Eq):
        if isinstance(cnode.ops[0], ast.GtE) and k == n_members and isinstance(cnode.comparators[0], ast.Constant):
            ctx.ok("C13-X1", isp.where, f"count >= {k} with {n_members} members (equivalent to ==)", cnode, isp)
        else:
            ctx.violation("C13-X1", isp, cnode, f"polynomial test compares the number of met types with `{type(cnode.ops[0]).__name__} {k}`; it must require all {n_members} types (== {n_members})")
    elif k != n_members:
        ctx.violation("C13-X1", isp, cnode, f"polynomial test requires {k} types but PermType has {n_members} members")
    else:
        ctx.ok("C13-X1", isp.where, f"requires == {k} = |PermType|", cnode, isp)
    # the counted set must be built from _types over the whole basis
    ctx.run(check_skeleton, ctx, "C13-X1", isp,
                   [f"return len({{t for p in a0 for t in PolyPerms._types(p)}}) == {k}",
                    f"return len({{t for p in a0 for t in PolyPerms._types(p)}}) == len(PermType)",
                    f"return len(set(t for p in a0 for t in PolyPerms._types(p))) == {k}"],
                   "is_polynomial = |Union of types over the basis| == all", inline_cls=None)
    # --- producers
    producers: Dict[str, List[Tuple[FuncInfo, ast.AST]]] = {m: [] for m in members}
    for fi in pp.methods.values():
        for node in walk_no_nested(fi.node):
            if isinstance(node, ast.Yield) and node.value is not None:
                ch = attr_chain(node.value)
                if ch and len(ch) == 2 and ch[0] == "PermType":
                    if ch[1] not in producers:
                        ctx.violation("C13-X1", fi, node, f"yields unknown member PermType.{ch[1]}")
                    else:
                        producers[ch[1]].append((fi, node))
    # references to a member that are not direct yields (tables of types, PermType(i), ...): production then goes through data
    indirect = {m: 0 for m in members}
    for fi in repo.all_funcs():
        for node in walk_no_nested(fi.node):
            ch = attr_chain(node) if isinstance(node, ast.Attribute) else None
            if ch and len(ch) == 2 and ch[0] == "PermType" and ch[1] in indirect:
                indirect[ch[1]] += 1
    for ci2 in repo.classes.values():
        for v in ci2.assigns.values():
            for node in ast.walk(v):
                ch = attr_chain(node) if isinstance(node, ast.Attribute) else None
                if ch and len(ch) == 2 and ch[0] == "PermType" and ch[1] in indirect and ci2.name != "PermType":
                    indirect[ch[1]] += 1
    by_value = any(isinstance(n, ast.Call) and unparse(n.func) == "PermType" for fi in pp.methods.values() for n in walk_no_nested(fi.node))
    for m, lst in producers.items():
        if len(lst) == 1:
            ctx.ok("C13-X1", lst[0][0].where, f"PermType.{m} has exactly one producer", lst[0][1], lst[0][0])
        elif not lst and (indirect[m] > 0 or by_value):
            raise AnalysisError(f"{pt.where}: PermType.{m} is not yielded directly; it is produced through a table or by value – which test produces it is not decided")
        elif not lst:
            ctx.violation("C13-X1", pt.where, pt.assign_nodes[m], f"PermType.{m} has no producer: no basis can ever meet it, so no class is declared polynomial", file=pt.module.relpath)
        else:
            for fi, node in lst[1:]:
                ctx.violation("C13-X1", fi, node, f"PermType.{m} is produced at {len(lst)} sites; another member loses its producer or a test is duplicated")
    # producers must be reachable from _find_type
    ft = repo.need_method("PolyPerms", "_find_type")
    reach = {ft.where}
    for node in walk_no_nested(ft.node):
        if isinstance(node, ast.Call):
            for c in repo.resolve_call(ft, node)[0]:
                reach.add(c.where)
    for m, lst in producers.items():
        for fi, node in lst:
            if fi.where not in reach:
                ctx.violation("C13-X1", fi, node, f"producer of PermType.{m} is not reachable from _find_type")
    # _types -> frozenset(_find_type(perm))
    # --- sibling templates _type_0_3 / _type_4_7
    t03 = repo.need_method("PolyPerms", "_type_0_3")
    t47 = repo.need_method("PolyPerms", "_type_4_7")

    for fi in (t03, t47):
        ctx.run(check_sign_table, ctx, fi)
    ctx.run(check_find_type, ctx, ft)
    # _is_incr / _is_decr
    for nm, op in (("_is_incr", "<"), ("_is_decr", ">")):
        f = repo.need_method("PolyPerms", nm)
        ctx.run(check_skeleton, ctx, "C13-X1", f, [f"return all(x {op} y for x, y in zip(a0, islice(a0, 1, None)))",
                                          f"return all(x {op} y for x, y in zip(a0, itertools.islice(a0, 1, None)))"],
                       f"{nm} = every consecutive pair satisfies prev {op} curr")


def check_sign_table(ctx: Ctx, fi: FuncInfo) -> None:
    """P/M letters of the yielded member correspond to incr/decr tests on slice1/slice2."""
    p1, p2 = fi.params[0], fi.params[1]

    def test_of(t: ast.AST) -> Tuple[str, str]:
        if isinstance(t, ast.Call):
            cn = call_name(t)
            if cn and cn[-1] in ("_is_incr", "_is_decr") and len(t.args) == 1 and isinstance(t.args[0], ast.Name):
                return ("P" if cn[-1] == "_is_incr" else "M"), t.args[0].id
        raise AnalysisError(f"{fi.where}: unrecognised run test {unparse(t)}")

    found = 0
    for outer in fi.body:
        if not isinstance(outer, ast.If):
            raise AnalysisError(f"{fi.where}: unexpected statement in type template")
        s1, v1 = test_of(outer.test)
        for inner in outer.body:
            if not (isinstance(inner, ast.If) and len(inner.body) == 1 and isinstance(inner.body[0], ast.Expr) and isinstance(inner.body[0].value, ast.Yield)):
                raise AnalysisError(f"{fi.where}: unexpected inner statement in type template")
            s2, v2 = test_of(inner.test)
            ch = attr_chain(inner.body[0].value.value)
            if not ch:
                raise AnalysisError(f"{fi.where}: yield of a non-member")
            name = ch[1]
            signs = name[-2:]
            if (v1, v2) != (p1, p2):
                ctx.violation("C13-X1", fi, inner, f"PermType.{name}: tests are applied to ({v1}, {v2}) instead of ({p1}, {p2})")
            elif signs != s1 + s2:
                ctx.violation("C13-X1", fi, inner, f"PermType.{name} is yielded when ({p1} is {'increasing' if s1 == 'P' else 'decreasing'}, {p2} is {'increasing' if s2 == 'P' else 'decreasing'}): contradicts its name (+ = increasing, - = decreasing)")
            else:
                ctx.ok("C13-X1", fi.where, f"PermType.{name} <-> ({s1},{s2}) on ({p1},{p2})", inner, fi)
            found += 1
    if found != 4:
        raise AnalysisError(f"{fi.where}: expected 4 member branches, found {found}")


def check_find_type(ctx: Ctx, ft: FuncInfo) -> None:
    perm = ft.params[0]
    exits = [n for n in walk_no_nested(ft.node) if isinstance(n, (ast.Return, ast.Break, ast.Continue))]
    if exits:
        raise AnalysisError(f"{ft.where}: the scan can be left early (`{unparse(exits[0])}` at line {exits[0].lineno}); cannot show that every split of the permutation and of its inverse is examined for every input")
    deques: Dict[str, str] = {}
    for st in ft.body:
        if isinstance(st, (ast.Assign, ast.AnnAssign)):
            tgt = st.targets[0] if isinstance(st, ast.Assign) else st.target
            if isinstance(tgt, ast.Name) and isinstance(st.value, ast.Call) and call_name(st.value) == ("deque",):
                arg = unparse(st.value.args[0]) if st.value.args else "[]"
                deques[tgt.id] = arg
    kinds = {}
    for name, arg in deques.items():
        if arg in ("[]", "()"):
            kinds[name] = "empty"
        elif arg == perm:
            kinds[name] = "perm"
        elif arg == f"{perm}.inverse()":
            kinds[name] = "inverse"
        else:
            raise AnalysisError(f"{ft.where}: deque {name} initialised from {arg}")
    if sorted(kinds.values()) != ["empty", "empty", "inverse", "perm"]:
        ctx.violation("C13-X1", ft, ft.node, f"_find_type splits {sorted(kinds.values())}; expected the permutation and its inverse, each with an empty prefix")
        return

    def call_args(node: ast.Call) -> Tuple[str, Tuple[str, str]]:
        cn = call_name(node)
        return cn[-1], tuple(unparse(a) for a in node.args)  # type: ignore

    def yields_in(stmts) -> List[Tuple[str, Tuple[str, str]]]:
        out = []
        for st in stmts:
            if isinstance(st, ast.Expr) and isinstance(st.value, ast.YieldFrom) and isinstance(st.value.value, ast.Call):
                out.append(call_args(st.value.value))
        return out

    loop = [st for st in ft.body if isinstance(st, ast.For)]
    if len(loop) != 1:
        raise AnalysisError(f"{ft.where}: expected one split loop")
    lp = loop[0]
    before = yields_in(ft.body[: ft.body.index(lp)])
    inside = yields_in(lp.body)
    for label, ys in (("before the loop (empty prefix)", before), ("after each move", inside)):
        got = {}
        for fn, args in ys:
            got[fn] = tuple(kinds.get(a, a) for a in args)
        want = {"_type_0_3": ("empty", "perm"), "_type_4_7": ("empty", "inverse")}
        for fn, w in want.items():
            g = got.get(fn)
            if g is None:
                ctx.violation("C13-X1", ft, lp if "move" in label else ft.node, f"{fn} is not evaluated {label}: a split is never examined")
            elif set(g) != set(w) or g[1] != w[1]:
                ctx.violation("C13-X1", ft, lp if "move" in label else ft.node, f"{fn} receives {g} {label}; expected the (prefix, suffix) pair of the {'permutation' if fn == '_type_0_3' else 'inverse'}")
            else:
                ctx.ok("C13-X1", ft.where, f"{fn} evaluated {label} on {w}", lp if "move" in label else ft.node, ft)
    # loop bound and moves
    if unparse(lp.iter) != f"range(len({perm}))":
        ctx.violation("C13-X1", ft, lp, f"split loop runs over {unparse(lp.iter)}; all len(perm) single-element moves are needed to reach every split")
    else:
        ctx.ok("C13-X1", ft.where, "loop makes len(perm) moves: all n+1 splits are examined", lp, ft)
    moves = []
    for st in lp.body:
        if isinstance(st, ast.Expr) and isinstance(st.value, ast.Call):
            cn = call_name(st.value)
            if cn and cn[-1] == "append" and st.value.args and isinstance(st.value.args[0], ast.Call):
                inner = call_name(st.value.args[0])
                if inner and inner[-1] == "popleft":
                    moves.append((kinds.get(cn[0]), kinds.get(inner[0]), cn[0], inner[0]))
    srcs = sorted(m[1] for m in moves if m[0] == "empty")
    if srcs != ["inverse", "perm"]:
        ctx.violation("C13-X1", ft, lp, f"per-iteration moves {[(m[3], '->', m[2]) for m in moves]} do not advance both the permutation and its inverse by one element")
    # layered types
    l2 = {}
    for st in ft.body:
        if isinstance(st, ast.If) and len(st.body) == 1 and isinstance(st.body[0], ast.Expr) and isinstance(st.body[0].value, ast.Yield):
            ch = attr_chain(st.body[0].value.value)
            if ch and isinstance(st.test, ast.Call) and call_name(st.test)[-1] == "_of_type_8":
                l2[ch[1]] = (unparse(st.test.args[0]), st)
    want = {"L2": perm, "L2I": f"{perm}.reverse()"}
    for m, w in want.items():
        if m not in l2:
            continue
        if l2[m][0] == w:
            ctx.ok("C13-X1", ft.where, f"PermType.{m} from _of_type_8({w})", l2[m][1], ft)
        else:
            ctx.violation("C13-X1", ft, l2[m][1], f"PermType.{m} is derived from _of_type_8({l2[m][0]}); expected {w}")


# ------------------------------------------------------------------------------ X2


def rule_x2(ctx: Ctx) -> None:
    repo = ctx.repo
    ie = repo.cls("InsertionEncodablePerms")
    props = repo.need_method("InsertionEncodablePerms", "_insertion_encodable_properties")
    # the tuple of tests packed into the mask
    packed: List[str] = []
    shift_ok = False
    for node in walk_no_nested(props.node):
        if isinstance(node, ast.Call) and call_name(node) == ("enumerate",) and node.args and isinstance(node.args[0], ast.Tuple):
            for e in node.args[0].elts:
                if isinstance(e, ast.Call) and call_name(e):
                    packed.append(call_name(e)[-1])
                else:
                    raise AnalysisError(f"{props.where}: unrecognised mask component {unparse(e)}")
            if len(node.args) == 1 and not node.keywords:
                shift_ok = True
    if not packed:
        raise AnalysisError(f"{props.where}: mask construction not recognised")
    if not shift_ok:
        raise AnalysisError(f"{props.where}: enumerate start is not 0")
    # val << shift
    shl = [n for n in walk_no_nested(props.node) if isinstance(n, ast.BinOp) and isinstance(n.op, ast.LShift)]
    if len(shl) != 1:
        raise AnalysisError(f"{props.where}: expected one `val << shift`")
    k = len(packed)
    if len(set(packed)) != k:
        ctx.violation("C13-X2", props, props.node, f"mask packs {packed}: a test appears twice, so one of the four juxtaposition classes is never checked", robust=True)
    allp = ie.assigns.get("_ALL_PROPERTIES")
    if allp is None:
        raise AnalysisError("InsertionEncodablePerms._ALL_PROPERTIES vanished")
    try:
        allv = const_value(allp)
    except ValueError:
        allv = None
        if unparse(allp).replace(" ", "") in (f"2**{k}-1", f"(1<<{k})-1"):
            allv = 2 ** k - 1
    if allv == 2 ** k - 1:
        ctx.ok("C13-X2", ie.where, f"_ALL_PROPERTIES = {allv} = 2**{k} - 1 for {k} packed tests")
    else:
        ctx.violation("C13-X2", ie.where, ie.assign_nodes["_ALL_PROPERTIES"], f"_ALL_PROPERTIES = {unparse(allp)} but {k} tests are packed (full mask is {2 ** k - 1})", file=ie.module.relpath, robust=True)
    # the four tests: one specification template with two operator slots
    names = {"_is_incr_next_incr": ("<", "<"), "_is_incr_next_decr": ("<", ">"), "_is_decr_next_incr": (">", "<"), "_is_decr_next_decr": (">", ">")}
    for nm, (op1, op2) in names.items():
        f = repo.need_method("InsertionEncodablePerms", nm)
        spec = (f"return not any(curr {op1} prev and any(a0[j + 1] {op2} a0[j] for j in range(i + 1, len(a0) - 1)) "
                f"for i, (prev, curr) in enumerate(zip(a0, islice(a0, 1, None))))")
        ctx.run(check_skeleton, ctx, "C13-X2", f, [spec, spec.replace("islice(", "itertools.islice(")],
                f"{nm}: no step `later {op1} earlier` is followed by a step `later {op2} earlier`")
        if nm not in packed:
            ctx.violation("C13-X2", props, props.node, f"{nm} is not packed into the property mask", robust=True)
    # rightmost / maximum folds
    rm = repo.need_method("InsertionEncodablePerms", "is_insertion_encodable_rightmost")
    mx = repo.need_method("InsertionEncodablePerms", "is_insertion_encodable_maximum")
    turns: Dict[str, List[ast.Call]] = {rm.name: [], mx.name: []}

    def unrotate(fi: FuncInfo):
        def pick(node: ast.AST) -> Optional[str]:
            if isinstance(node, ast.Call):
                cn = call_name(node)
                if cn and len(cn) == 2 and cn[1] == "rotate" and isinstance(node.func, ast.Attribute) and isinstance(node.func.value, ast.Name):
                    turns[fi.name].append(node)
                    return node.func.value.id
            return None

        return template_text(fi.node, pick)[0]

    unrotate(rm)
    unrotate(mx)
    if turns[rm.name]:
        raise AnalysisError(f"{rm.where}: rightmost test rotates its elements; not an idiom this rule knows")
    if len(turns[mx.name]) != 1:
        ctx.violation("C13-X2", mx, mx.node, "topmost (maximum) test does not rotate the basis elements: it coincides with the rightmost test", robust=True)
    else:
        call = turns[mx.name][0]
        if not call.args and not call.keywords:
            q = 1
        else:
            arg = call.args[0] if call.args else call.keywords[0].value
            try:
                q = const_value(arg)
            except ValueError:
                raise AnalysisError(f"{mx.where}: non-constant rotation count")
        if q % 2 == 1:
            ctx.ok("C13-X2", mx.where, f"elements are turned by an odd number ({q}) of quarter turns", call, mx)
        else:
            ctx.violation("C13-X2", mx, call, f"topmost test turns elements by {q} quarter turns (even): the verdict coincides with the rightmost test", robust=True)
    # fold skeleton (each sibling against the same specification)
    ctx.run(check_fold, ctx, rm)
    ctx.run(check_fold, ctx, mx)
    # is_insertion_encodable = rightmost or maximum
    iie = repo.need_method("InsertionEncodablePerms", "is_insertion_encodable")
    alts = []
    for mat in ("a0", "tuple(a0)", "list(a0)", "frozenset(a0)"):
        alts.append(f"return InsertionEncodablePerms.is_insertion_encodable_rightmost({mat}) or InsertionEncodablePerms.is_insertion_encodable_maximum({mat})")
    ctx.run(check_skeleton, ctx, "C13-X2", iie, alts, "is_insertion_encodable = rightmost Or maximum")


def direction(f: FuncInfo, c: ast.Compare) -> Optional[str]:
    """'down' if the comparison states later < earlier (a descent), 'up' for an ascent; None if not strict.
    Operands are classified by which one is the later element of the pair."""
    l, r = unparse(c.left), unparse(c.comparators[0])
    op = type(c.ops[0])
    if op in (ast.LtE, ast.GtE):
        return None

    def later(x: str, y: str) -> Optional[bool]:
        # curr vs prev ; perm[j + 1] vs perm[j]
        if x.startswith("curr") and y.startswith("prev"):
            return True
        if x.startswith("prev") and y.startswith("curr"):
            return False
        if "+ 1]" in x and "+ 1]" not in y:
            return True
        if "+ 1]" in y and "+ 1]" not in x:
            return False
        return None

    lt = later(l, r)
    if lt is None:
        raise AnalysisError(f"{f.where}: cannot tell which operand of {unparse(c)} is the later element")
    # normalise to  later OP earlier
    less = (op is ast.Lt)
    if not lt:
        less = not less
    return "down" if less else "up"


def check_fold(ctx: Ctx, fi: FuncInfo) -> None:
    body = fi.body
    ok = (
        len(body) == 3
        and isinstance(body[0], ast.Assign) and is_const(body[0].value, 0)
        and isinstance(body[1], ast.For) and isinstance(body[2], ast.Return) and is_const(body[2].value, False)
    )
    if not ok:
        raise AnalysisError(f"{fi.where}: fold shape not recognised")
    acc = body[0].targets[0].id
    loop = body[1]
    if unparse(loop.iter) != fi.params[0]:
        ctx.violation("C13-X2", fi, loop, f"fold iterates {unparse(loop.iter)}, not the whole basis", robust=True)
        return
    upd, test = None, None
    for st in loop.body:
        if isinstance(st, ast.Assign) and isinstance(st.targets[0], ast.Name) and st.targets[0].id == acc and isinstance(st.value, ast.BinOp):
            upd = st
        if isinstance(st, ast.AugAssign) and isinstance(st.target, ast.Name) and st.target.id == acc:
            upd = st
        if isinstance(st, ast.If):
            test = st
    if upd is None or test is None:
        raise AnalysisError(f"{fi.where}: fold update/test not recognised")
    op = upd.value.op if isinstance(upd, ast.Assign) else upd.op
    if not isinstance(op, ast.BitOr):
        ctx.violation("C13-X2", fi, upd, f"properties are combined with {type(op).__name__}, not bitwise OR: the union over the basis is lost", robust=True)
        return
    t = test.test
    good = isinstance(t, ast.Compare) and len(t.ops) == 1 and isinstance(t.ops[0], ast.Eq) and {unparse(t.left), unparse(t.comparators[0])} == {acc, "InsertionEncodablePerms._ALL_PROPERTIES"}
    if not good:
        ctx.violation("C13-X2", fi, test, f"early exit tests `{unparse(t)}`; it must require the full mask (== _ALL_PROPERTIES)", robust=True)
        return
    if not (len(test.body) == 1 and isinstance(test.body[0], ast.Return) and is_const(test.body[0].value, True)):
        ctx.violation("C13-X2", fi, test, "full mask does not yield True", robust=True)
        return
    operand = upd.value.right if isinstance(upd, ast.Assign) else upd.value
    if isinstance(upd, ast.Assign) and not (isinstance(upd.value.left, ast.Name) and upd.value.left.id == acc):
        operand = upd.value.left
        if not (isinstance(upd.value.right, ast.Name) and upd.value.right.id == acc):
            raise AnalysisError(f"{fi.where}: fold update does not accumulate into {acc}")
    lv = unparse(loop.target)
    good_operand = isinstance(operand, ast.Call) and call_name(operand) and call_name(operand)[-1] == "_insertion_encodable_properties" and len(operand.args) == 1 and (
        unparse(operand.args[0]) == lv or (isinstance(operand.args[0], ast.Call) and call_name(operand.args[0]) == (lv, "rotate")))
    if not good_operand:
        deviates(ctx, "C13-X2", fi, upd, unparse(operand), [f"InsertionEncodablePerms._insertion_encodable_properties({lv})", f"InsertionEncodablePerms._insertion_encodable_properties({lv}.rotate())"],
                 f"fold accumulates {unparse(operand)[:70]}, not the run-shape properties of each basis element")
        return
    ctx.ok("C13-X2", fi.where, "fold: OR of the per-element properties over the basis, True at full mask, False at exhaustion", loop, fi)


# ------------------------------------------------------------------------------ S1 wrappers


def rule_s1(ctx: Ctx) -> None:
    repo = ctx.repo
    fin = repo.func("permuta.permutils.finite:is_finite")
    ctx.run(check_skeleton, ctx, "C13-S1", fin, [
        "it1, it2 = tee(a0, 2)\nreturn any(p.is_decreasing() for p in it1) and any(p.is_increasing() for p in it2)",
        "a0 = tuple(a0)\nreturn any(p.is_decreasing() for p in a0) and any(p.is_increasing() for p in a0)",
        "a0 = list(a0)\nreturn any(p.is_decreasing() for p in a0) and any(p.is_increasing() for p in a0)",
    ], "is_finite = (Exists decreasing element) And (Exists increasing element)")
    nonp = repo.need_method("PolyPerms", "is_non_polynomial")
    ctx.run(check_skeleton, ctx, "C13-S1", nonp, ["return not PolyPerms.is_polynomial(a0)"], "is_non_polynomial = Not is_polynomial")
    for meth, target in (("is_finite", "is_finite"), ("is_polynomial", "is_polynomial"), ("is_insertion_encodable", "is_insertion_encodable")):
        f = repo.need_method("Av", meth)
        ctx.run(check_skeleton, ctx, "C13-S1", f, [f"if isinstance(self.basis, MeshBasis):\n    raise NotImplementedError(Av._BASIS_ONLY_MSG)\nreturn {target}(self.basis)"],
                       f"Av.{meth} = {target}(self.basis), mesh bases rejected", required_calls=[target])
    # the module-level names used by Av resolve to the deciding functions
    av_mod = repo.cls("Av").module
    for name, want in (("is_finite", "permuta.permutils.finite:is_finite"), ("is_polynomial", "permuta.permutils.polynomial:PolyPerms.is_polynomial"),
                       ("is_insertion_encodable", "permuta.permutils.insertion_encodable:InsertionEncodablePerms.is_insertion_encodable")):
        r = repo.resolve_name(av_mod, name)
        if isinstance(r, FuncInfo) and r.where == want:
            ctx.ok("C13-S1", f"{av_mod.name}:{name}", f"resolves to {want}")
        elif isinstance(r, FuncInfo):
            ctx.violation("C13-S1", f"{av_mod.name}:{name}", av_mod.tree, f"name {name} used by Av resolves to {r.where}, not to {want}", file=av_mod.relpath)
        else:
            raise AnalysisError(f"cannot resolve {name} in {av_mod.name}")
    # CLI polarity
    cli = repo.module("permuta.cli")
    poly = cli.functions.get("has_poly_growth")
    if poly is not None:
        from ..core import inlined_text

        ife = [n for n in ast.walk(poly.node) if isinstance(n, ast.IfExp)]
        arg = poly.params[0]
        decided_by = inlined_text(poly, ife[0].test) if len(ife) == 1 else ""
        if decided_by in (f"PolyPerms.is_polynomial(Basis.from_string({arg}.basis))", f"is_polynomial(Basis.from_string({arg}.basis))"):
            pos, negt = unparse(ife[0].body), unparse(ife[0].orelse)
            if "not" in pos and "not" not in negt:
                ctx.violation("C13-S1", poly, ife[0], "CLI `poly` prints 'not polynomial' when the test says polynomial")
            elif "not" in negt and "not" not in pos:
                ctx.ok("C13-S1", poly.where, "CLI prints 'not' exactly when is_polynomial(basis) is false", ife[0], poly)
            else:
                raise AnalysisError(f"{poly.where}: message polarity not recognised")
        else:
            raise AnalysisError(f"{poly.where}: CLI wrapper shape not recognised")
    ins = cli.functions.get("has_regular_insertion_encoding")
    if ins is not None:
        from ..core import inlined_text

        wants = {"is_insertion_encodable_maximum": ("topmost", False), "is_insertion_encodable_rightmost": ("rightmost", False), "is_insertion_encodable": ("does not", True)}
        seen = 0
        for st in ins.body:
            if isinstance(st, ast.If):
                t, negated = st.test, False
                if isinstance(t, ast.UnaryOp) and isinstance(t.op, ast.Not):
                    t, negated = t.operand, True
                if isinstance(t, ast.Call) and call_name(t) and call_name(t)[-1] in wants and inlined_text(ins, t.args[0]) == f"Basis.from_string({ins.params[0]}.basis)":
                    word, neg_want = wants[call_name(t)[-1]]
                    msg = unparse(st.body[0])
                    seen += 1
                    if negated != neg_want or word not in msg:
                        ctx.violation("C13-S1", ins, st, f"CLI `insenc`: branch on {'not ' if negated else ''}{call_name(t)[-1]} prints {msg[:70]!r}")
                    else:
                        ctx.ok("C13-S1", ins.where, f"{'not ' if negated else ''}{call_name(t)[-1]}(basis) -> message mentions '{word}'", st, ins)
        # a verdict placed in the elif / else part of another verdict's test is reported only when that other one fails
        for st in ins.body:
            if isinstance(st, ast.If):
                t0 = st.test.operand if isinstance(st.test, ast.UnaryOp) and isinstance(st.test.op, ast.Not) else st.test
                if isinstance(t0, ast.Call) and call_name(t0) and call_name(t0)[-1] in ("is_insertion_encodable_maximum", "is_insertion_encodable_rightmost"):
                    for sub in st.orelse:
                        for n in ast.walk(sub):
                            if isinstance(n, ast.If):
                                t1 = n.test.operand if isinstance(n.test, ast.UnaryOp) and isinstance(n.test.op, ast.Not) else n.test
                                if isinstance(t1, ast.Call) and call_name(t1) and call_name(t1)[-1] in ("is_insertion_encodable_maximum", "is_insertion_encodable_rightmost") and call_name(t1)[-1] != call_name(t0)[-1] \
                                        and not (isinstance(n.test, ast.UnaryOp)):
                                    ctx.violation("C13-S1", ins, n, f"CLI `insenc`: the verdict of {call_name(t1)[-1]} is reported only when {call_name(t0)[-1]} fails (elif): a class with both encodings gets only one of the two lines", robust=True)
                                    return
        if seen != 3:
            raise AnalysisError(f"{ins.where}: expected three verdict branches, found {seen}")


def run(ctx: Ctx) -> None:
    ctx.run(oneshot.report, ctx, "C13-I1", SCOPE, I1_ANCHORS)
    ctx.run(rule_m1, ctx)
    ctx.run(rule_x1, ctx)
    ctx.run(rule_x2, ctx)
    ctx.run(rule_s1, ctx)
    ctx.assume("callers outside the package pass any iterable; `Iterable`-annotated parameters are the API's promise")


# ------------------------------------------------------------------------------ thorough tier


def sweep(ctx: Ctx):
    """Whole-package sweep of the one-shot discipline (not only this property's modules)."""
    an = oneshot.Analyzer(ctx.repo)
    total, flagged = 0, []
    for fi in ctx.repo.all_funcs():
        events, subjects = an.analyse(fi)
        total += len(subjects)
        for ev in events:
            flagged.append(f"{ev.fi.where}: {ev.message[:120]}")
    return {"sweep_one_shot_subjects": total, "sweep_one_shot_events_whole_package": flagged}


GENERIC_FILES = ['permuta/permutils/finite.py', 'permuta/permutils/polynomial.py', 'permuta/permutils/insertion_encodable.py', 'permuta/perm_sets/permset.py', 'permuta/cli.py']


def variants():
    from ..selftest import generic_equiv, generic_silent

    return _variants() + generic_silent(GENERIC_FILES) + generic_equiv(GENERIC_FILES)


def _variants():
    from ..selftest import V, insert_stmt, reformat_only, rename_local, replace_expr, replace_stmt

    IE, PO, FI, PS, CL = ("permuta/permutils/insertion_encodable.py", "permuta/permutils/polynomial.py", "permuta/permutils/finite.py",
                          "permuta/perm_sets/permset.py", "permuta/cli.py")
    Q = "InsertionEncodablePerms"
    return [
        V("insenc-double-consume", replace_stmt(IE, f"{Q}.is_insertion_encodable", "basis = tuple(basis)", ""), "fire", "C13-I1", "the original defect"),
        V("finite-no-tee", replace_stmt(FI, "is_finite", "it1, it2 = tee(basis, 2)", "it1 = it2 = basis"), "fire-or-undecided", "C13-I1"),
        V("finite-two-any-direct", [replace_stmt(FI, "is_finite", "it1, it2 = tee(basis, 2)", ""), replace_expr(FI, "is_finite", "it1", "basis"), replace_expr(FI, "is_finite", "it2", "basis")], "fire", "C13-I1"),
        V("poly-len-then-iter", replace_stmt(PO, "PolyPerms.is_polynomial", "return len({pol_type for perm in basis for pol_type in PolyPerms._types(perm)}) == 10",
                                             "if not any(True for _ in basis):\n    return False\nreturn len({pol_type for perm in basis for pol_type in PolyPerms._types(perm)}) == 10"), "fire", "C13-I1"),
        V("rightmost-in-loop", replace_stmt(IE, f"{Q}.is_insertion_encodable_rightmost", "for perm in basis: ...",
                                            "for _ in range(2):\n    for perm in basis:\n        curr = curr | InsertionEncodablePerms._insertion_encodable_properties(perm)\n        if curr == InsertionEncodablePerms._ALL_PROPERTIES:\n            return True"), "fire", "C13-I1"),
        V("poly-cache-key-mismatch", replace_stmt(PO, "PolyPerms._types", "PolyPerms._CACHE[perm] = interset", "PolyPerms._CACHE[len(perm)] = interset"), "fire", "C13-M1"),
        V("poly-cache-keyed-by-len", [replace_expr(PO, "PolyPerms._types", "PolyPerms._CACHE.get(perm)", "PolyPerms._CACHE.get(len(perm))"),
                                      replace_stmt(PO, "PolyPerms._types", "PolyPerms._CACHE[perm] = interset", "PolyPerms._CACHE[len(perm)] = interset")], "fire-or-undecided", "C13-M1"),
        V("insenc-cache-extra-writer", insert_stmt(IE, f"{Q}.is_insertion_encodable_rightmost", "curr = 0", "InsertionEncodablePerms._CACHE.clear()", "after"), "fire", "C13-M1"),
        V("insenc-value-impure", [insert_stmt(IE, None, "class InsertionEncodablePerms: ...", "_CALLS = []", "before"),
                                  replace_stmt(IE, f"{Q}._is_incr_next_incr", "n = len(perm)", "n = len(perm) - len(_CALLS)")], "fire", "C13-M1"),
        V("verdict-reads-global-flag", [insert_stmt(IE, None, "class InsertionEncodablePerms: ...", "_SEEN_BASES = []", "before"),
                                        replace_stmt(IE, f"{Q}.is_insertion_encodable_rightmost", "curr = 0", "curr = 0\n_SEEN_BASES.append(1)\nif len(_SEEN_BASES) > 1000:\n    return False")], "fire", "C13-M2"),
        V("poly-ge-9", replace_expr(PO, "PolyPerms.is_polynomial", "len({pol_type for perm in basis for pol_type in PolyPerms._types(perm)}) == 10",
                                    "len({pol_type for perm in basis for pol_type in PolyPerms._types(perm)}) >= 9"), "fire", "C13-X1"),
        V("poly-eq-9", replace_expr(PO, "PolyPerms.is_polynomial", "10", "9"), "fire", "C13-X1"),
        V("type47-duplicate-producer", replace_expr(PO, "PolyPerms._type_4_7", "PermType.WIMP", "PermType.WIPM"), "fire", "C13-X1"),
        V("type03-wrong-sign", [replace_expr(PO, "PolyPerms._type_0_3", "PermType.WPM", "PermType.WMP"), replace_expr(PO, "PolyPerms._type_0_3", "PermType.WMP", "PermType.WPM", which=2)], "fire", "C13-X1"),
        V("type47-tests-swapped-args", replace_expr(PO, "PolyPerms._type_4_7", "PolyPerms._is_decr(slice2)", "PolyPerms._is_decr(slice1)"), "fire", "C13-X1"),
        V("findtype-no-inverse", replace_expr(PO, "PolyPerms._find_type", "deque(perm.inverse())", "deque(perm)"), "fire", "C13-X1"),
        V("findtype-short-loop", replace_expr(PO, "PolyPerms._find_type", "range(len(perm))", "range(len(perm) - 1)"), "fire", "C13-X1"),
        V("findtype-l2i-not-reversed", replace_expr(PO, "PolyPerms._find_type", "PolyPerms._of_type_8(perm.reverse())", "PolyPerms._of_type_8(perm.inverse())"), "fire", "C13-X1"),
        V("findtype-drop-initial-split", replace_stmt(PO, "PolyPerms._find_type", "yield from PolyPerms._type_4_7(fp_deq1, fp_deq2)", ""), "fire", "C13-X1"),
        V("is-incr-nonstrict", replace_expr(PO, "PolyPerms._is_incr", "prev < curr", "prev <= curr"), "fire-or-undecided", "C13-X1"),
        V("is-decr-flipped", replace_expr(PO, "PolyPerms._is_decr", "prev > curr", "prev < curr"), "fire", "C13-X1"),
        V("mask-constant-7", replace_stmt(IE, Q, "_ALL_PROPERTIES: ClassVar[int] = 15", "_ALL_PROPERTIES: ClassVar[int] = 7"), "fire", "C13-X2"),
        V("mask-test-twice", replace_expr(IE, f"{Q}._insertion_encodable_properties", "InsertionEncodablePerms._is_decr_next_incr(perm)", "InsertionEncodablePerms._is_decr_next_decr(perm)"), "fire", "C13-X2"),
        V("runtest-flip-first-op", replace_expr(IE, f"{Q}._is_incr_next_decr", "curr < prev", "curr > prev"), "fire", "C13-X2"),
        V("runtest-flip-second-op", replace_expr(IE, f"{Q}._is_decr_next_decr", "perm[j + 1] > perm[j]", "perm[j + 1] < perm[j]"), "fire", "C13-X2"),
        V("runtest-range-shift", replace_expr(IE, f"{Q}._is_decr_next_incr", "range(i + 1, n - 1)", "range(i + 2, n - 1)"), "fire", "C13-X2"),
        V("maximum-even-turn", replace_expr(IE, f"{Q}.is_insertion_encodable_maximum", "perm.rotate()", "perm.rotate(2)"), "fire", "C13-X2"),
        V("maximum-no-turn", replace_expr(IE, f"{Q}.is_insertion_encodable_maximum", "perm.rotate()", "perm"), "fire", "C13-X2"),
        V("fold-and", replace_expr(IE, f"{Q}.is_insertion_encodable_rightmost", "curr | InsertionEncodablePerms._insertion_encodable_properties(perm)", "curr & InsertionEncodablePerms._insertion_encodable_properties(perm)"), "fire", "C13-X2"),
        V("fold-ge", replace_expr(IE, f"{Q}.is_insertion_encodable_rightmost", "curr == InsertionEncodablePerms._ALL_PROPERTIES", "curr >= 7"), "fire", "C13-X2"),
        V("insenc-and", replace_stmt(IE, f"{Q}.is_insertion_encodable", "return InsertionEncodablePerms.is_insertion_encodable_rightmost(basis) or InsertionEncodablePerms.is_insertion_encodable_maximum(basis)",
                                     "return InsertionEncodablePerms.is_insertion_encodable_rightmost(basis) and InsertionEncodablePerms.is_insertion_encodable_maximum(basis)"), "fire", "C13-X2"),
        V("finite-or", replace_expr(FI, "is_finite", "any((perm.is_decreasing() for perm in it1)) and any((perm.is_increasing() for perm in it2))",
                                    "any((perm.is_decreasing() for perm in it1)) or any((perm.is_increasing() for perm in it2))"), "fire", "C13-S1"),
        V("finite-all", replace_expr(FI, "is_finite", "any((perm.is_decreasing() for perm in it1))", "all((perm.is_decreasing() for perm in it1))"), "fire", "C13-S1"),
        V("av-ispoly-calls-finite", replace_expr(PS, "Av.is_polynomial", "is_polynomial(self.basis)", "is_finite(self.basis)"), "fire", "C13-S1"),
        V("av-isfinite-negated", replace_expr(PS, "Av.is_finite", "is_finite(self.basis)", "not is_finite(self.basis)"), "fire", "C13-S1"),
        V("nonpoly-not-dropped", replace_expr(PO, "PolyPerms.is_non_polynomial", "not PolyPerms.is_polynomial(basis)", "PolyPerms.is_polynomial(basis)"), "fire", "C13-S1"),
        V("cli-poly-polarity", replace_expr(CL, "has_poly_growth", "'' if poly else 'not '", "'not ' if poly else ''"), "fire", "C13-S1"),
        V("cli-insenc-swapped", replace_expr(CL, "has_regular_insertion_encoding", "InsertionEncodablePerms.is_insertion_encodable_maximum(basis)", "InsertionEncodablePerms.is_insertion_encodable_rightmost(basis)"), "fire-or-undecided", "C13-S1"),
        # silent
        V("reformat-insenc", reformat_only(IE), "silent"),
        V("reformat-poly", reformat_only(PO), "silent"),
        V("maximum-rotate-3", replace_expr(IE, f"{Q}.is_insertion_encodable_maximum", "perm.rotate()", "perm.rotate(3)"), "silent", note="any odd quarter turn gives the same verdict"),
        V("maximum-rotate-minus-1", replace_expr(IE, f"{Q}.is_insertion_encodable_maximum", "perm.rotate()", "perm.rotate(-1)"), "silent"),
        V("insenc-list-materialise", replace_stmt(IE, f"{Q}.is_insertion_encodable", "basis = tuple(basis)", "basis = list(basis)"), "silent"),
        V("finite-materialise", [replace_stmt(FI, "is_finite", "it1, it2 = tee(basis, 2)", "basis = tuple(basis)"), replace_expr(FI, "is_finite", "it1", "basis"), replace_expr(FI, "is_finite", "it2", "basis")], "silent"),
        V("fold-augassign", replace_stmt(IE, f"{Q}.is_insertion_encodable_rightmost", "curr = curr | InsertionEncodablePerms._insertion_encodable_properties(perm)", "curr |= InsertionEncodablePerms._insertion_encodable_properties(perm)"), "silent", note="siblings are compared with the same specification, not with each other's text"),
        V("runtest-inline-n", [replace_stmt(IE, f"{Q}._is_incr_next_incr", "n = len(perm)", ""), replace_expr(IE, f"{Q}._is_incr_next_incr", "n - 1", "len(perm) - 1")], "silent"),
        V("runtest-swap-sides", replace_expr(IE, f"{Q}._is_decr_next_incr", "curr > prev", "prev < curr"), "silent"),
        V("maximum-fold-other-source", replace_expr(IE, f"{Q}.is_insertion_encodable_maximum", "perm.rotate()", "perm.inverse()"), "fire", "C13-X2"),
        V("poly-len-permtype", replace_expr(PO, "PolyPerms.is_polynomial", "10", "len(PermType)"), "silent"),
        V("rename-basis-param", rename_local(PO, "PolyPerms.is_polynomial", "basis", "perms"), "silent"),
    ]


# ------------------------------------------------------------------------------ M2: no other history-dependent state


def rule_m2(ctx: Ctx) -> None:
    """Besides the two reviewed memo tables, the verdict functions read no mutable module/class level state
    that anything in the package writes."""
    repo = ctx.repo
    # by-name (dynamic) call edges are recorded as assumptions, not followed: following them would drag in
    # unrelated classes that merely share a method name
    pur = Purity(repo, follow_dynamic=False)
    entries = [repo.func("permuta.permutils.finite:is_finite"), repo.need_method("PolyPerms", "is_polynomial"), repo.need_method("PolyPerms", "is_non_polynomial"),
               repo.need_method("InsertionEncodablePerms", "is_insertion_encodable"), repo.need_method("InsertionEncodablePerms", "is_insertion_encodable_rightmost"),
               repo.need_method("InsertionEncodablePerms", "is_insertion_encodable_maximum")]
    reviewed = {"PolyPerms._CACHE", "InsertionEncodablePerms._CACHE"}
    for e in entries:
        eff = pur.effects(e)
        bad = []
        for f2, n2, why in eff.reasons:
            if any(r in why for r in reviewed):
                continue
            if why.startswith("writes non-local state") and any(r.split(".")[1] in why for r in reviewed):
                continue
            bad.append((f2, n2, why))
        if bad:
            for f2, n2, why in bad:
                ctx.violation("C13-M2", f2, n2, f"{e.qual} depends on / changes state outside its arguments: {why}; the verdict may depend on earlier calls", path=[e.where, f2.where], robust=True)
        else:
            ctx.ok("C13-M2", e.where, f"besides the reviewed memo tables the verdict reads and writes no process-wide state ({len(eff.callees)} callees examined)", e.node, e)
        ctx.dynamic.extend(eff.dynamic)


_OLD_RUN = run


def run(ctx: Ctx) -> None:  # noqa: F811
    _OLD_RUN(ctx)
    ctx.run(rule_m2, ctx)


FLOORS["C13-M2"] = 6
