"""C09 – generation, ranking and notations: the by-construction clauses."""

from __future__ import annotations

import ast
import re
import string as _string
from typing import Dict, List, Optional, Set, Tuple

from ..affine import N, ONE, NotAffine, Poly, poly_of
from ..core import AnalysisError, FuncInfo, Repo, attr_chain, call_name, deviates, is_const, unparse, walk_no_nested
from ..purity import Purity
from ..report import Ctx
from ..skelrules import check_skeleton

PROP = "C09"
FLOORS = {"C09-I1": 5, "C09-G1": 4, "C09-M1": 3, "C09-B1": 4, "C09-N1": 3}

EXPLANATION = (
    "Decided: (a) the generators yield every permutation exactly once in (length, lexicographic) order by construction – of_length is "
    "itertools.permutations(range(n)) unfiltered, up_to_length/_all concatenate lengths 0, 1, 2, ... ascending, first is islice of _all (G1; trusted base: "
    "itertools.permutations is lexicographic); (b) any earlier use of the memoised standardisation is irrelevant – the lru_cache'd function is a pure "
    "function of its key and to_standard materialises its argument exactly once before the memo (M1); (c) mesh pattern rank / unrank / of_length enumerate "
    "each shading of each pattern exactly once – the bit of cell (x, y) is x*B + y in rank and the cell of bit i is divmod(i, B) in unrank with the same "
    "B = n + 1 (polynomial identity), and of_length enumerates range(2**((n+1)**2)) once per underlying permutation (B1); (d) notation round trip as a "
    "necessary condition – the alphabet each branch of __str__ emits is accepted by from_string (N1). NOT decided: Perm.rank/unrank factoradic arithmetic and "
    "their agreement with <, that to_standard computes the order-isomorphic permutation with ties left to right, value round trip of one_based/from_integer."
)


def run(ctx: Ctx) -> None:
    ctx.run(rule_g1, ctx)
    ctx.run(rule_m1, ctx)
    ctx.run(rule_b1, ctx)
    ctx.run(rule_n1, ctx)
    from .. import oneshot

    # "all input sequences to standardisation" / constructors taking any iterable
    ctx.run(oneshot.report, ctx, "C09-I1", ["permuta.patterns.perm"], ["Perm.to_standard", "Perm.one_based", "Perm.from_iterable_validated"])


def rule_g1(ctx: Ctx) -> None:
    repo = ctx.repo
    ol = repo.need_method("Perm", "of_length")
    ctx.run(check_skeleton, ctx, "C09-G1", ol, [
        "yield from (cls(p) for p in itertools.permutations(range(a0)))",
        "return (cls(p) for p in itertools.permutations(range(a0)))",
        "return map(cls, itertools.permutations(range(a0)))",
    ], "of_length(n) = every tuple of itertools.permutations(range(n)), unfiltered, in that (lexicographic) order", required_calls=["permutations"])
    ul = repo.need_method("Perm", "up_to_length")
    ctx.run(check_skeleton, ctx, "C09-G1", ul, [
        "for n in range(a0 + 1):\n    yield from (cls(p) for p in itertools.permutations(range(n)))",
        "for n in range(a0 + 1):\n    yield from cls.of_length(n)",
    ], "up_to_length(n) = lengths 0..n ascending, each complete")
    fs = repo.need_method("Perm", "first")
    ctx.run(check_skeleton, ctx, "C09-G1", fs, ["yield from itertools.islice(cls._all(), a0)", "return itertools.islice(cls._all(), a0)"], "first(k) = islice(_all(), k)")
    al = repo.need_method("Perm", "_all")
    ctx.run(check_all, ctx, al)


def check_all(ctx: Ctx, fi: FuncInfo) -> None:
    body = fi.body
    if not (len(body) == 2 and isinstance(body[0], ast.Assign) and is_const(body[0].value) and isinstance(body[1], ast.While) and is_const(body[1].test, True)):
        raise AnalysisError(f"{fi.where}: shape `length = 0; while True:` not recognised")
    counter = unparse(body[0].targets[0])
    if not is_const(body[0].value, 0):
        ctx.violation("C09-G1", fi, body[0], f"_all starts at length {unparse(body[0].value)}: the empty permutation / short permutations are never generated")
        return
    lp = body[1]
    if len(lp.body) != 2:
        raise AnalysisError(f"{fi.where}: loop body not recognised")
    y, inc = lp.body
    ok_y = isinstance(y, ast.Expr) and isinstance(y.value, ast.YieldFrom) and unparse(y.value.value) in (f"cls.of_length({counter})", f"Perm.of_length({counter})")
    ok_inc = isinstance(inc, ast.AugAssign) and unparse(inc.target) == counter and isinstance(inc.op, ast.Add) and is_const(inc.value, 1)
    if not ok_y:
        ctx.violation("C09-G1", fi, y, f"round `{counter}` yields `{unparse(y)[:60]}`, not every permutation of length {counter}")
    elif not ok_inc:
        ctx.violation("C09-G1", fi, inc, "lengths are not visited as 0, 1, 2, ... (step must be +1)")
    else:
        ctx.ok("C09-G1", fi.where, "_all = of_length(0), of_length(1), ... without end", lp, fi)


def rule_m1(ctx: Ctx) -> None:
    repo = ctx.repo
    ts = repo.need_method("Perm", "to_standard")
    ctx.run(check_skeleton, ctx, "C09-M1", ts, ["return cls._to_standard(tuple(a0))"], "to_standard materialises its argument exactly once (tuple) before the memo", required_calls=["_to_standard", "tuple"])
    memo = repo.need_method("Perm", "_to_standard")
    # definition: positions sorted stably by value (ties keep their left-to-right order: sorted() is stable), then inverted
    ctx.run(check_skeleton, ctx, "C09-M1", memo, [
        "return cls(i for (i, _) in sorted(enumerate(a0), key=operator.itemgetter(1))).inverse()",
        "return cls(i for (i, _) in sorted(enumerate(a0), key=lambda t: t[1])).inverse()",
        "return cls(sorted(range(len(a0)), key=a0.__getitem__)).inverse()",
    ], "standardisation = inverse of the stable argsort (ties broken left to right)", required_calls=["sorted", "inverse"])
    if not any("lru_cache" in d or d.endswith("cache") for d in memo.decorators):
        ctx.ok("C09-M1", memo.where, "no memo on the standardisation: nothing depends on earlier calls", memo.node, memo)
        return
    pur = Purity(repo)
    eff = pur.effects(memo)
    if eff.reasons:
        for f2, n2, why in eff.reasons:
            ctx.violation("C09-M1", f2, n2, f"the memoised standardisation is not a pure function of its key: {why}", path=[memo.where, f2.where], robust=True)
        return
    free = {n.id for st in memo.body for n in ast.walk(st) if isinstance(n, ast.Name) and isinstance(n.ctx, ast.Load)}
    bound = {n.id for st in memo.body for n in ast.walk(st) if isinstance(n, ast.Name) and isinstance(n.ctx, ast.Store)} | set(memo.params)
    bound |= {a.arg for st in memo.body for n in ast.walk(st) if isinstance(n, ast.Lambda) for a in n.args.args}
    extra = {x for x in free - bound if x not in ("sorted", "enumerate", "operator", "cls", "tuple", "len", "range", "Perm", "zip", "list", "itertools")}
    if extra:
        ctx.violation("C09-M1", memo, memo.node, f"the memoised value depends on {sorted(extra)} besides its key", robust=True)
        return
    ctx.ok("C09-M1", memo.where, f"lru_cache keyed on ({', '.join(memo.params)}); value is a pure function of the key (callees {sorted(c.split(':')[1] for c in eff.callees)})", memo.node, memo)
    ctx.dynamic.extend(eff.dynamic)


def rule_b1(ctx: Ctx) -> None:
    repo = ctx.repo
    un = repo.need_method("MeshPatt", "unrank")
    rk = repo.need_method("MeshPatt", "rank")
    # ---- unrank: cell of bit `index` is divmod(index, B)
    patt = un.params[1]
    num = un.params[2]
    env: Dict[str, Poly] = {}
    for st in un.body:
        if isinstance(st, ast.Assign) and isinstance(st.targets[0], ast.Name):
            try:
                env[st.targets[0].id] = poly_of(st.value, env, (patt,))
            except NotAffine:
                pass
    dm = [n for n in walk_no_nested(un.node) if isinstance(n, ast.Call) and call_name(n) == ("divmod",)]
    ge = [n for n in walk_no_nested(un.node) if isinstance(n, ast.GeneratorExp)]
    if len(dm) != 1 or len(ge) != 1:
        raise AnalysisError(f"{un.where}: expected one divmod in one generator expression")
    g = ge[0].generators[0]
    # bits enumerated least significant first: enumerate(reversed(bin(number)[2:])) with bit == '1'
    it_ok = unparse(g.iter) == f"enumerate(reversed(bin({num})[2:]))" and len(g.ifs) == 1 and isinstance(g.target, ast.Tuple)
    if not it_ok:
        raise AnalysisError(f"{un.where}: bit enumeration `{unparse(g.iter)}` not recognised")
    idx_name, bit_name = unparse(g.target.elts[0]), unparse(g.target.elts[1])
    if unparse(g.ifs[0]) not in (f"{bit_name} == '1'", f"'1' == {bit_name}"):
        ctx.violation("C09-B1", un, g.ifs[0], f"a cell is shaded when `{unparse(g.ifs[0])}`; it must be shaded exactly for the 1-bits")
        return
    if ge[0].elt is not dm[0]:
        raise AnalysisError(f"{un.where}: the generated cell is not the divmod itself")
    if unparse(dm[0].args[0]) != idx_name:
        ctx.violation("C09-B1", un, dm[0], f"the cell of a bit is divmod({unparse(dm[0].args[0])}, ..), not of the bit index `{idx_name}`")
        return
    try:
        b_un = poly_of(dm[0].args[1], env, (patt,))
    except NotAffine as exc:
        raise AnalysisError(f"{un.where}: divisor not affine ({exc})")
    # ---- rank: bit of cell (x, y)
    envr: Dict[str, Poly] = {}
    first = rk.body[0]
    if isinstance(first, ast.Assign) and isinstance(first.targets[0], ast.Tuple) and isinstance(first.value, ast.Tuple):
        for t, v in zip(first.targets[0].elts, first.value.elts):
            try:
                envr[unparse(t)] = poly_of(v, envr, (rk.params[0], f"{rk.params[0]}.pattern"))
            except NotAffine:
                pass
    for st in rk.body:
        if isinstance(st, ast.Assign) and isinstance(st.targets[0], ast.Name):
            try:
                envr[st.targets[0].id] = poly_of(st.value, envr, (rk.params[0], f"{rk.params[0]}.pattern"))
            except NotAffine:
                pass
    loops = [st for st in rk.body if isinstance(st, ast.For)]
    if len(loops) != 1 or unparse(loops[0].iter) != f"{rk.params[0]}.shading":
        raise AnalysisError(f"{rk.where}: loop over the shading not recognised")
    lp = loops[0]
    x, y = [unparse(e) for e in lp.target.elts]
    shl = [n for n in ast.walk(lp) if isinstance(n, ast.BinOp) and isinstance(n.op, ast.LShift)]
    if len(shl) != 1 or not is_const(shl[0].left, 1):
        raise AnalysisError(f"{rk.where}: `1 << bit` not found")
    upd = lp.body[0]
    if not (isinstance(upd, ast.AugAssign) and isinstance(upd.op, (ast.BitOr, ast.Add))):
        ctx.violation("C09-B1", rk, upd, "bits are not accumulated with |= (or +=)")
        return
    acc = unparse(upd.target)
    acc0 = envr.get(acc)
    last = rk.body[-1]
    if acc0 is None or acc0 != Poly.const(0):
        ctx.violation("C09-B1", rk, rk.body[0], f"the rank accumulator `{acc}` does not start at 0: rank and unrank are no longer inverse (offset)")
        return
    if not (isinstance(last, ast.Return) and last.value is not None and unparse(last.value) == acc):
        ctx.violation("C09-B1", rk, last, f"rank does not return the accumulated bits `{acc}`")
        return
    un_ret = un.body[-1]
    if not (isinstance(un_ret, ast.Return) and isinstance(un_ret.value, ast.Call) and unparse(un_ret.value.func) in ("cls", "MeshPatt") and len(un_ret.value.args) == 2 and unparse(un_ret.value.args[0]) == patt):
        ctx.violation("C09-B1", un, un_ret, "unrank does not return cls(pattern, <cells of the 1-bits>)")
        return
    sh_arg = un_ret.value.args[1]
    if not (sh_arg is ge[0] or (isinstance(sh_arg, ast.Name) and any(isinstance(st, ast.Assign) and unparse(st.targets[0]) == sh_arg.id and st.value is ge[0] for st in un.body))):
        ctx.violation("C09-B1", un, un_ret, "unrank does not build the pattern from the cells of the 1-bits")
        return
    envr2 = dict(envr)
    envr2[x], envr2[y] = Poly.sym("X"), Poly.sym("Y")
    try:
        bit = poly_of(shl[0].right, envr2, (rk.params[0], f"{rk.params[0]}.pattern"))
    except NotAffine as exc:
        raise AnalysisError(f"{rk.where}: bit index not polynomial ({exc})")
    want = Poly.sym("X") * b_un + Poly.sym("Y")
    transposed = Poly.sym("Y") * b_un + Poly.sym("X")
    if b_un != N + ONE:
        ctx.violation("C09-B1", un, dm[0], f"unrank splits a bit index with base {b_un!r}; the grid has n + 1 cells per column, so distinct cells would collide or fall outside")
        return
    if bit == want:
        ctx.ok("C09-B1", rk.where, f"rank: bit(x, y) = x*(n+1) + y; unrank: cell(i) = divmod(i, n+1) – mutually inverse for 0 <= y <= n (identity in n)", shl[0], rk)
        ctx.ok("C09-B1", un.where, "unrank shades exactly the cells of the 1-bits, least significant bit first", dm[0], un)
    elif bit == transposed:
        ctx.violation("C09-B1", rk, shl[0], "rank uses bit(x, y) = y*(n+1) + x but unrank reads cell(i) = divmod(i, n+1) = (x, y): the two layouts are transposed, rank(unrank(p, k)) != k")
    else:
        ctx.violation("C09-B1", rk, shl[0], f"rank uses bit(x, y) = {bit!r} while unrank's layout is x*{b_un!r} + y: rank and unrank disagree")
    # the constructor's assertion bounds the coordinates (0 <= c <= n) – needed for divmod to invert
    init = repo.need_method("MeshPatt", "__init__")
    import re as _re

    txt = unparse(init.node)
    m0 = _re.search(r"0 <= (\w+)\[0\] <= len\(self\.pattern\)", txt)
    if m0 and f"0 <= {m0.group(1)}[1] <= len(self.pattern)" in txt:
        ctx.ok("C09-B1", init.where, "constructor asserts 0 <= x, y <= n for every shaded cell", init.node, init)
    else:
        ctx.note("C09-B1: constructor bound on cell coordinates not found (layout inverse assumes 0 <= y <= n)")
    # ---- of_length
    ol = repo.need_method("MeshPatt", "of_length")
    ln = ol.params[1]
    loops = [n for n in walk_no_nested(ol.node) if isinstance(n, ast.For)]
    ranges = [unparse(l.iter) for l in loops]
    want_rng = f"range(2 ** ({ln} + 1) ** 2)"
    n_rng = sum(1 for r in ranges if r.replace("(", "").replace(")", "") == want_rng.replace("(", "").replace(")", ""))
    outer = [l for l in loops if unparse(l.iter) == f"Perm.of_length({ln})"]
    yields = [n for n in walk_no_nested(ol.node) if isinstance(n, ast.Yield)]
    good_y = all(isinstance(yv.value, ast.Call) and call_name(yv.value) and call_name(yv.value)[-1] == "unrank" for yv in yields)
    if n_rng >= 1 and len(outer) == 1 and good_y and n_rng == len(yields):
        ctx.ok("C09-B1", ol.where, f"of_length: for every permutation of Perm.of_length(n), every rank in range(2**((n+1)**2)) once", ol.node, ol)
    else:
        ctx.violation("C09-B1", ol, ol.node, f"of_length enumerates ranks over {ranges}; expected every permutation of the length x range(2 ** ((n + 1) ** 2))")


DIGITS = set("0123456789")


def emitted(node: ast.AST, self_n: str) -> Optional[Set[str]]:
    """Characters an expression of type str may contain (None = unknown)."""
    if isinstance(node, ast.Constant) and isinstance(node.value, str):
        return set(node.value)
    if isinstance(node, ast.Call):
        cn = call_name(node)
        if cn == ("str",) and len(node.args) == 1:
            return set(DIGITS)  # entries of a permutation are non-negative integers
        if isinstance(node.func, ast.Attribute) and node.func.attr == "join" and isinstance(node.func.value, ast.Constant) and len(node.args) == 1:
            sep = set(node.func.value.value)
            arg = node.args[0]
            if isinstance(arg, (ast.GeneratorExp, ast.ListComp)):
                inner = emitted(arg.elt, self_n)
                return None if inner is None else inner | sep
            if isinstance(arg, ast.Call) and call_name(arg) == ("map",) and len(arg.args) == 2 and unparse(arg.args[0]) in ("str", "repr"):
                return set(DIGITS) | sep  # "".join(map(str, entries))
            return None
    if isinstance(node, ast.JoinedStr):
        out: Set[str] = set()
        for v in node.values:
            if isinstance(v, ast.Constant):
                out |= set(str(v.value))
            elif isinstance(v, ast.FormattedValue):
                if v.format_spec is not None:
                    return None
                out |= DIGITS
        return out
    return None


def entry_bound(wr: FuncInfo, ret: ast.Return) -> Optional[int]:
    """Largest entry a permutation reaching this return may have, from the path condition
    (``len(self) <= K`` gives K - 1, ``max(self) <= K`` gives K); None if unknown."""
    self_n = wr.params[0]
    conds: List[Tuple[ast.AST, bool]] = []

    def walk(stmts, acc) -> bool:
        for st in stmts:
            if st is ret:
                conds.extend(acc)
                return True
            if isinstance(st, ast.If):
                if walk(st.body, acc + [(st.test, True)]):
                    return True
                if walk(st.orelse, acc + [(st.test, False)]):
                    return True
                # an ``if`` whose body always returns narrows what follows
                if st.body and isinstance(st.body[-1], (ast.Return, ast.Raise)):
                    acc = acc + [(st.test, False)]
        return False

    walk(wr.body, [])
    best: Optional[int] = None
    for test, pol in conds:
        if not pol or not isinstance(test, ast.Compare) or len(test.ops) != 1:
            continue
        l, r, op = unparse(test.left), test.comparators[0], test.ops[0]
        if not (isinstance(r, ast.Constant) and isinstance(r.value, int)):
            continue
        k = r.value
        b = None
        if l == f"len({self_n})":
            b = k - 1 if isinstance(op, ast.LtE) else k - 2 if isinstance(op, ast.Lt) else None
        elif l == f"max({self_n})":
            b = k if isinstance(op, ast.LtE) else k - 1 if isinstance(op, ast.Lt) else None
        if b is not None:
            best = b if best is None else min(best, b)
    return best


def rule_n1(ctx: Ctx) -> None:
    repo = ctx.repo
    wr = repo.need_method("Perm", "__str__")
    rd = repo.need_method("Perm", "from_string")
    p = rd.params[1]
    # reader: accepted whole strings and accepted alphabet
    whole: Set[str] = set()
    alphabet: Set[str] = set()
    per_char_int = False
    for node in walk_no_nested(rd.node):
        if isinstance(node, ast.Compare) and len(node.ops) == 1 and isinstance(node.ops[0], ast.Eq) and unparse(node.left) == p and isinstance(node.comparators[0], ast.Constant):
            whole.add(node.comparators[0].value)
        if isinstance(node, ast.Call):
            cn = call_name(node)
            if cn == ("map",) and len(node.args) == 2 and unparse(node.args[0]) == "int":
                per_char_int = True
            if cn == ("int",):
                per_char_int = True
            if isinstance(node.func, ast.Attribute) and node.func.attr in ("startswith", "endswith", "split", "strip", "replace", "lstrip", "rstrip", "partition"):
                for a in node.args:
                    if isinstance(a, ast.Constant) and isinstance(a.value, str):
                        alphabet |= set(a.value)
    if per_char_int:
        alphabet |= DIGITS
    if not alphabet and not whole:
        raise AnalysisError(f"{rd.where}: reader not recognised")
    rets = [n for n in walk_no_nested(wr.node) if isinstance(n, ast.Return) and n.value is not None]
    if not rets:
        raise AnalysisError(f"{wr.where}: no return")
    for r in rets:
        if isinstance(r.value, ast.Constant) and isinstance(r.value.value, str) and r.value.value in whole:
            ctx.ok("C09-N1", wr.where, f"branch emits the literal {r.value.value!r}, which from_string accepts as a whole", r, wr)
            continue
        em = emitted(r.value, wr.params[0])
        if em is None:
            raise AnalysisError(f"{wr.where}: cannot determine the alphabet of `{unparse(r.value)[:60]}`")
        if em <= DIGITS:
            # entries are written without any separator: unambiguous only if every entry is a single digit
            bound = entry_bound(wr, r)
            if bound is None:
                raise AnalysisError(f"{wr.where}: cannot bound the entries written without separators in `{unparse(r.value)[:50]}`")
            if bound > 9:
                ctx.violation("C09-N1", wr, r, f"entries up to {bound} are written as unseparated digits: a two-digit entry cannot be told from two entries, so from_string(str(p)) returns a different permutation")
                continue
        extra = em - alphabet
        if extra:
            ctx.violation("C09-N1", wr, r, f"str() may emit {sorted(extra)} in `{unparse(r.value)[:60]}`, which from_string does not accept: from_string(str(p)) fails for permutations taking this branch")
        else:
            ctx.ok("C09-N1", wr.where, f"branch emits only {''.join(sorted(em))!r} – accepted by from_string", r, wr)


GENERIC_FILES = ['permuta/patterns/perm.py', 'permuta/patterns/meshpatt.py']


def variants():
    from ..selftest import generic_equiv, generic_silent

    return _variants() + generic_silent(GENERIC_FILES) + generic_equiv(GENERIC_FILES)


def _variants():
    from ..selftest import V, insert_stmt, reformat_only, rename_local, replace_expr, replace_stmt

    PE, MP = "permuta/patterns/perm.py", "permuta/patterns/meshpatt.py"
    return [
        V("unrank-table-wrong-factor", replace_expr(PE, "Perm.unrank", "i * factorial[-1]", "(length - 1) * factorial[-1]"), "fire", "C09-F1"),
        V("unrank-table-initial", replace_stmt(PE, "Perm.unrank", "factorial = [1, 1]", "factorial = [1, 2]"), "fire", "C09-F1"),
        V("rank-table-off-by-one", replace_expr(PE, "Perm.rank", "fact[i] * (i + 1)", "fact[i] * i"), "fire", "C09-F1"),
        V("unrank-table-len-form", replace_expr(PE, "Perm.unrank", "i * factorial[-1]", "len(factorial) * factorial[-1]"), "silent"),
        V("unrank-shared-table", [insert_stmt(PE, "Perm", "ind2perm = unrank", "_FACTORIALS = [1, 1]", "after"), replace_stmt(PE, "Perm.unrank", "factorial = [1, 1]", "factorial = cls._FACTORIALS")], "undecided", "C09-H1"),
        V("mesh-rank-offset", replace_stmt(MP, "MeshPatt.rank", "n, res = (len(self), 0)", "n, res = (len(self), 1)"), "fire", "C09-B1"),
        V("mesh-unrank-drops-shading", replace_stmt(MP, "MeshPatt.unrank", "return cls(pattern, shading)", "return cls(pattern, [])"), "fire", "C09-B1"),
        V("of-length-filtered", replace_expr(PE, "Perm.of_length", "(cls(perm) for perm in itertools.permutations(range(length)))", "(cls(perm) for perm in itertools.permutations(range(length)) if perm)"), "fire-or-undecided", "C09-G1", note="an added filter may be redundant: not decided"),
        V("of-length-reversed", replace_expr(PE, "Perm.of_length", "itertools.permutations(range(length))", "itertools.permutations(range(length - 1, -1, -1))"), "fire-or-undecided", "C09-G1", note="three arguments changed at once: beyond a point change"),
        V("up-to-length-exclusive", replace_expr(PE, "Perm.up_to_length", "range(length + 1)", "range(length)"), "fire", "C09-G1"),
        V("all-starts-at-1", replace_stmt(PE, "Perm._all", "length = 0", "length = 1"), "fire", "C09-G1"),
        V("all-step-2", replace_stmt(PE, "Perm._all", "length += 1", "length += 2"), "fire", "C09-G1"),
        V("first-off-by-one", replace_expr(PE, "Perm.first", "itertools.islice(cls._all(), count)", "itertools.islice(cls._all(), count - 1)"), "fire", "C09-G1"),
        V("to-standard-no-materialise", replace_expr(PE, "Perm.to_standard", "cls._to_standard(tuple(iterable))", "cls._to_standard(iterable)"), "fire", "C09-M1"),
        V("to-standard-memo-impure", [insert_stmt(PE, None, "class Perm(Tuple[int], Patt): ...", "_STD_LOG = []", "before"),
                                      replace_expr(PE, "Perm._to_standard", "sorted(enumerate(iterable), key=operator.itemgetter(1))", "sorted(enumerate(iterable), key=lambda t: (t[1], len(_STD_LOG)))")], "fire", "C09-M1"),
        V("to-standard-no-inverse", replace_expr(PE, "Perm._to_standard", "cls((idx for idx, _ in sorted(enumerate(iterable), key=operator.itemgetter(1)))).inverse()", "cls((idx for idx, _ in sorted(enumerate(iterable), key=operator.itemgetter(1))))"), "fire", "C09-M1"),
        V("to-standard-sort-by-index", replace_expr(PE, "Perm._to_standard", "operator.itemgetter(1)", "operator.itemgetter(0)"), "fire", "C09-M1"),
        V("to-standard-reverse-sort", replace_expr(PE, "Perm._to_standard", "sorted(enumerate(iterable), key=operator.itemgetter(1))", "sorted(enumerate(iterable), key=operator.itemgetter(1), reverse=True)"), "fire", "C09-M1"),
        V("to-standard-memo-random", replace_expr(PE, "Perm._to_standard", "operator.itemgetter(1)", "lambda t: (t[1], random.random())"), "fire", "C09-M1"),
        V("rank-transposed", replace_expr(MP, "MeshPatt.rank", "x * (n + 1) + y", "y * (n + 1) + x"), "fire", "C09-B1"),
        V("rank-base-n", replace_expr(MP, "MeshPatt.rank", "x * (n + 1) + y", "x * n + y"), "fire", "C09-B1"),
        V("unrank-base-n", replace_stmt(MP, "MeshPatt.unrank", "bound = len(pattern) + 1", "bound = len(pattern)"), "fire", "C09-B1"),
        V("unrank-zero-bits", replace_expr(MP, "MeshPatt.unrank", "bit == '1'", "bit == '0'"), "fire", "C09-B1"),
        V("mesh-of-length-half", replace_expr(MP, "MeshPatt.of_length", "range(2 ** (length + 1) ** 2)", "range(2 ** (length + 1) ** 2 - 1)", which=1), "fire", "C09-B1"),
        V("from-string-digits-only", replace_stmt(PE, "Perm.from_string", "if string.startswith('('): ...", ""), "fire", "C09-N1", "the original defect"),
        V("str-compact-by-max-10", replace_expr(PE, "Perm.__str__", "len(self) <= 10", "max(self) <= 10"), "fire", "C09-N1"),
        V("str-compact-len-11", replace_expr(PE, "Perm.__str__", "len(self) <= 10", "len(self) <= 11"), "fire", "C09-N1"),
        V("str-other-separator", replace_expr(PE, "Perm.__str__", "''.join((f'({i})' for i in self))", "','.join((str(i) for i in self))"), "fire", "C09-N1"),
        V("validated-scans-then-builds", replace_stmt(PE, "Perm.from_iterable_validated", "perm = cls(iterable)", "if any(isinstance(v, bool) for v in iterable):\n    raise TypeError('bool')\nperm = cls(iterable)"), "fire", "C09-I1"),
        V("one-based-plus", replace_expr(PE, "Perm.one_based", "val - 1", "val + 1"), "fire", "C09-D1"),
        V("identity-from-1", replace_expr(PE, "Perm.identity", "range(length)", "range(1, length)"), "fire", "C09-D1"),
        V("decreasing-misses-zero", replace_expr(PE, "Perm.monotone_decreasing", "range(length - 1, -1, -1)", "range(length - 1, 0, -1)"), "fire", "C09-D1"),
        V("from-integer-not-reversed", replace_expr(PE, "Perm.from_integer", "cls.to_standard(reversed(digit_list))", "cls.to_standard(digit_list)"), "fire", "C09-D1"),
        V("from-string-paren-off-by-one", replace_expr(PE, "Perm.from_string", "string[1:-1]", "string[1:]"), "fire", "C09-D1"),
        V("unrank-float-quotient", replace_stmt("permuta/patterns/perm.py", "Perm._unrank", "division, number = divmod(number, factorial[length - val])", "division, number = int(number / factorial[length - val]), number % factorial[length - val]"), "fire", "C09-X1"),
        V("mesh-rank-float-power", replace_expr("permuta/patterns/meshpatt.py", "MeshPatt.unrank", "2 ** (len(perm) + 1) ** 2", "int(2.0 ** (len(perm) + 1) ** 2)"), "fire-or-undecided", "C09-X1"),
        V("unrank-floor-division", replace_stmt("permuta/patterns/perm.py", "Perm._unrank", "division, number = divmod(number, factorial[length - val])", "division, number = number // factorial[length - val], number % factorial[length - val]"), "nofire"),
        V("rank-vals-appended-not-inserted", replace_stmt("permuta/patterns/perm.py", "Perm.rank", "vals.insert(ordered_pos, val)", "vals.append(val)"), "undecided", "C09-S1"),
        V("rank-search-on-set-order", [replace_stmt("permuta/patterns/perm.py", "Perm.rank", "vals: List[int] = []", "vals = list(set(self))"), replace_stmt("permuta/patterns/perm.py", "Perm.rank", "vals.insert(ordered_pos, val)", "")], "fire-or-undecided", "C09-S1"),
        # silent
        V("reformat", reformat_only(MP), "silent"),
        V("str-compact-by-max-9", replace_expr(PE, "Perm.__str__", "len(self) <= 10", "max(self) <= 9"), "silent"),
        V("of-length-return-gen", replace_stmt(PE, "Perm.of_length", "yield from (cls(perm) for perm in itertools.permutations(range(length)))", "return (cls(perm) for perm in itertools.permutations(range(length)))"), "silent"),
        V("up-to-length-via-of-length", replace_stmt(PE, "Perm.up_to_length", "for n in range(length + 1): ...", "for n in range(length + 1):\n    yield from cls.of_length(n)"), "silent"),
        V("rank-commuted", replace_expr(MP, "MeshPatt.rank", "x * (n + 1) + y", "y + (n + 1) * x"), "silent"),
        V("unrank-inline-bound", [replace_stmt(MP, "MeshPatt.unrank", "bound = len(pattern) + 1", ""), replace_expr(MP, "MeshPatt.unrank", "divmod(index, bound)", "divmod(index, len(pattern) + 1)")], "silent"),
    ]


# ------------------------------------------------------------------------------ D1: one-line constructors / notations


ONE_LINERS = [
    ("one_based", ["return cls(v - 1 for v in a0)"], "one_based subtracts 1 from every entry"),
    ("identity", ["return cls(range(a0))"], "identity(n) = 0, 1, ..., n-1"),
    ("monotone_decreasing", ["return cls(range(a0 - 1, -1, -1))"], "monotone_decreasing(n) = n-1, ..., 0"),
    ("from_string", ["if a0 == 'ε':\n    return cls(())\nif a0.startswith('('):\n    return cls(map(int, a0[1:-1].split(')(')))\nreturn cls(map(int, a0))"], "from_string reads 'ε', the parenthesised and the compact notation"),
    ("__repr__", ["return f'Perm({super().__repr__()})'"], "repr = Perm(<tuple repr>): evaluates back to the permutation"),
    ("__new__", ["return tuple.__new__(cls, a0)"], "a Perm is the tuple of its entries"),
    ("get_perm", ["return self"], "get_perm of a permutation is itself"),
]


def rule_d1(ctx: Ctx) -> None:
    repo = ctx.repo
    for name, specs, what in ONE_LINERS:
        f = repo.method("Perm", name)
        if f is None or (f.cls is not None and f.cls.name != "Perm"):
            ctx.note(f"C09-D1: Perm.{name} not present")
            continue
        ctx.run(check_skeleton, ctx, "C09-D1", f, specs, what)
    fi = repo.method("Perm", "from_integer")
    if fi is not None:
        ctx.run(_from_integer, ctx, fi)


def _from_integer(ctx: Ctx, f: FuncInfo) -> None:
    """Digits are peeled least significant first (n % 10, n //= 10) and standardised in reverse (= reading order)."""
    p = f.params[1]
    loops = [st for st in f.body if isinstance(st, ast.While)]
    if len(loops) != 1 or unparse(loops[0].test) not in (f"{p} != 0", f"{p} > 0", p):
        raise AnalysisError(f"{f.where}: digit loop not recognised")
    body = [unparse(s) for s in loops[0].body]
    lst = next((unparse(s.targets[0]) if isinstance(s, ast.Assign) else unparse(s.target) for s in f.body if isinstance(s, (ast.Assign, ast.AnnAssign)) and s.value is not None and unparse(s.value) == "[]"), None)
    if lst is None:
        raise AnalysisError(f"{f.where}: digit list not found")
    peel = [f"{lst}.append({p} % 10)", f"{p} //= 10"]
    if body != peel:
        m = len(loops[0].body) == 2 and isinstance(loops[0].body[0], ast.Assign) and re.fullmatch(rf"\(?{p}, (\w+)\)? = divmod\({p}, 10\)", body[0])
        if not (m and body[1] == f"{lst}.append({m.group(1)})"):
            deviates(ctx, "C09-D1", f, loops[0], body, [peel], f"digits are peeled by `{'; '.join(body)}`; expected append(n % 10); n //= 10")
            return
    # what happens to the digit list between the loop and the return
    after = f.body[f.body.index(loops[0]) + 1:]
    flipped = False
    while after and unparse(after[0]) == f"{lst}.reverse()":
        flipped = not flipped
        after = after[1:]
    if len(after) != 1 or not isinstance(after[0], ast.Return) or after[0].value is None:
        raise AnalysisError(f"{f.where}: what follows the digit loop is not a single return of the standardised digits")
    got = unparse(after[0].value)
    in_order = (f"cls.to_standard(reversed({lst}))", f"cls.to_standard({lst}[::-1])", f"cls.to_standard(tuple(reversed({lst})))", f"cls.to_standard(list(reversed({lst})))")
    as_is = (f"cls.to_standard({lst})", f"cls.to_standard(tuple({lst}))")
    if got in (as_is if flipped else in_order):
        ctx.ok("C09-D1", f.where, "from_integer = standardisation of the decimal digits in reading order", loops[0], f)
    elif got in (in_order if flipped else as_is):
        ctx.violation("C09-D1", f, after[0], f"the digits are combined as `{got}`{' after reversing the list in place' if flipped else ''}: that is least significant digit first, not reading order", robust=True)
    else:
        deviates(ctx, "C09-D1", f, after[0], got, as_is if flipped else in_order, f"the digits are combined as `{got}`; expected the standardisation of the digits in reading order (reversed peel order)")


_OLD_RUN = run


def run(ctx: Ctx) -> None:  # noqa: F811
    _OLD_RUN(ctx)
    ctx.run(rule_d1, ctx)


FLOORS["C09-D1"] = 7


# ------------------------------------------------------------------ H1: no unreviewed state shared between calls


def rule_h1(ctx: Ctx) -> None:
    from ..core import check_no_unreviewed_shared_state

    check_no_unreviewed_shared_state(ctx, "C09-H1", ["Perm", "MeshPatt", "Patt"], ["permuta.patterns.perm", "permuta.patterns.meshpatt", "permuta.patterns.patt"], {},
                                     "generation, ranking and the notations")


_OLD_RUN_H = run


def run(ctx: Ctx) -> None:  # noqa: F811
    _OLD_RUN_H(ctx)
    ctx.run(rule_h1, ctx)


FLOORS["C09-H1"] = 1


# ------------------------------------------------------------------ F1: factorial tables hold factorials


def _fact_tables(fi: FuncInfo) -> Dict[str, ast.AST]:
    """locals that are used as a factorial table: a list that is appended to with a product involving its own entries."""
    out: Dict[str, ast.AST] = {}
    for node in walk_no_nested(fi.node):
        if isinstance(node, ast.Call) and isinstance(node.func, ast.Attribute) and node.func.attr == "extend" and isinstance(node.func.value, ast.Name) and len(node.args) == 1 \
                and isinstance(node.args[0], (ast.ListComp, ast.GeneratorExp)):
            t = node.func.value.id
            if any(isinstance(x, ast.Subscript) and unparse(x.value) == t for x in ast.walk(node.args[0].elt)):
                out[t] = node
        if isinstance(node, ast.Call) and isinstance(node.func, ast.Attribute) and node.func.attr == "append" and isinstance(node.func.value, ast.Name) and len(node.args) == 1:
            t = node.func.value.id
            if isinstance(node.args[0], ast.BinOp) and isinstance(node.args[0].op, ast.Mult) and any(isinstance(x, ast.Subscript) and unparse(x.value) == t for x in ast.walk(node.args[0])):
                out[t] = node
    return out


def rule_f1(ctx: Ctx) -> None:
    from .c17 import lin, lin_diff

    repo = ctx.repo
    seen = 0
    for qual in ("unrank", "rank"):
        fi = repo.need_method("Perm", qual)
        tables = _fact_tables(fi)
        if not tables:
            raise AnalysisError(f"{fi.where}: no factorial table found")
        for t in tables:
            # a list comprehension is evaluated completely before extend() sees it: T[-1] is the same old entry for every
            # new element, so more than one new entry cannot be a running product
            for node in walk_no_nested(fi.node):
                if isinstance(node, ast.Call) and isinstance(node.func, ast.Attribute) and node.func.attr == "extend" and unparse(node.func.value) == t and len(node.args) == 1:
                    a0 = node.args[0]
                    reads_own = any(isinstance(x, ast.Subscript) and unparse(x.value) == t for x in ast.walk(a0.elt)) if isinstance(a0, (ast.ListComp, ast.GeneratorExp)) else False
                    if isinstance(a0, ast.ListComp) and reads_own:
                        g = a0.generators[0]
                        many = len(a0.generators) == 1 and not g.ifs and isinstance(g.iter, ast.Call) and isinstance(g.iter.func, ast.Name) and g.iter.func.id == "range" \
                            and len(g.iter.args) == 2 and unparse(g.iter.args[0]) == f"len({t})" and isinstance(g.iter.args[1], ast.Name)
                        if not many:
                            raise AnalysisError(f"{fi.where}: `{unparse(node)[:60]}`: how many entries the comprehension adds is not recognised")
                        seen += 1
                        ctx.violation("C09-F1", fi, node, f"`{unparse(node)[:80]}` builds all new entries from the table as it was before the call (a list comprehension is evaluated before extend() runs): when more than one entry is missing the new entries are not factorials")
                        break
                    if isinstance(a0, ast.GeneratorExp) and reads_own:
                        raise AnalysisError(f"{fi.where}: `{unparse(node)[:60]}` grows the table lazily through a generator; not analysed")
            if any(f.rule == 'C09-F1' and f.where == fi.where for f in ctx.findings):
                continue
            # initial value: a display of factorials (or a shared class-level display)
            inits = [n for n in walk_no_nested(fi.node) if isinstance(n, (ast.Assign, ast.AnnAssign)) and n.value is not None
                     and any(isinstance(x, ast.Name) and x.id == t for x in (n.targets if isinstance(n, ast.Assign) else [n.target]))]
            if len(inits) != 1:
                raise AnalysisError(f"{fi.where}: table `{t}` is bound {len(inits)} times")
            init = inits[0].value
            if isinstance(init, ast.Attribute) and isinstance(init.value, ast.Name) and init.value.id in ("cls", "self", "Perm"):
                src = None
                for ci in repo.mro("Perm"):
                    if init.attr in ci.assigns:
                        src = ci.assigns[init.attr]
                if src is None:
                    raise AnalysisError(f"{fi.where}: table `{unparse(init)}` not found")
                init = src
            if not (isinstance(init, ast.List) and init.elts and all(isinstance(e, ast.Constant) and isinstance(e.value, int) for e in init.elts)):
                raise AnalysisError(f"{fi.where}: initial table `{unparse(init)[:40]}` is not a display of integers")
            vals = [e.value for e in init.elts]
            f = 1
            for k, v in enumerate(vals):
                f = f * k if k else 1
                if v != f:
                    ctx.violation("C09-F1", fi, inits[0], f"initial factorial table {vals}: entry {k} is {v}, but {k}! = {f}")
                    return
            len0 = len(vals)
            # every append keeps T[k] = k!
            for node in walk_no_nested(fi.node):
                if not (isinstance(node, ast.Call) and isinstance(node.func, ast.Attribute) and node.func.attr == "append" and unparse(node.func.value) == t):
                    continue
                seen += 1
                arg = node.args[0]
                # N = len(T) at the time of the append; which names equal N (+ const)?
                env: Dict[str, int] = {}  # name -> offset, meaning name == N + offset
                for loop in walk_no_nested(fi.node):
                    if isinstance(loop, ast.For) and any(sub is node for st in loop.body for sub in ast.walk(st)) and isinstance(loop.target, ast.Name) \
                            and isinstance(loop.iter, ast.Call) and unparse(loop.iter.func) == "range":
                        appends_here = [x for st in loop.body for x in ast.walk(st) if isinstance(x, ast.Call) and isinstance(x.func, ast.Attribute) and x.func.attr == "append" and unparse(x.func.value) == t]
                        direct = [st for st in loop.body if isinstance(st, ast.Expr) and st.value is node]
                        if len(appends_here) != 1 or not direct:
                            raise AnalysisError(f"{fi.where}: appends to `{t}` in the loop at line {loop.lineno} are conditional or repeated")
                        a = loop.iter.args[0] if len(loop.iter.args) >= 2 else ast.Constant(value=0)
                        if unparse(a) == f"len({t})":
                            env[loop.target.id] = 0
                        else:
                            d = lin_diff(a, {"": len0})
                            if d is None:
                                raise AnalysisError(f"{fi.where}: loop start `{unparse(a)}` not related to the table length")
                            earlier = [x for x in walk_no_nested(fi.node) if isinstance(x, ast.Call) and isinstance(x.func, ast.Attribute) and x.func.attr in ("append", "extend", "pop", "insert")
                                       and unparse(x.func.value) == t and x.lineno < loop.lineno]
                            if earlier or init is not inits[0].value:
                                raise AnalysisError(f"{fi.where}: the table `{t}` may not have its initial length when the loop at line {loop.lineno} starts")
                            # requires that the table still has its initial length when the loop starts
                            env[loop.target.id] = d

                def as_n(e: ast.AST) -> Optional[int]:
                    """e == N + c  ->  c"""
                    if unparse(e) == f"len({t})":
                        return 0
                    le = lin(e)
                    if le is None:
                        return None
                    c = le.pop("", 0)
                    if len(le) == 1:
                        (nm, k), = le.items()
                        if k == 1 and nm in env:
                            return env[nm] + c
                    return None

                def is_last(e: ast.AST) -> bool:
                    if isinstance(e, ast.Subscript) and unparse(e.value) == t:
                        if unparse(e.slice) == "-1":
                            return True
                        return as_n(e.slice) == -1
                    return False

                okay = False
                if isinstance(arg, ast.BinOp) and isinstance(arg.op, ast.Mult):
                    for x, y in ((arg.left, arg.right), (arg.right, arg.left)):
                        if is_last(x) and as_n(y) == 0:
                            okay = True
                if okay:
                    ctx.ok("C09-F1", fi.where, f"`{t}.append({unparse(arg)})` appends len({t}) * {t}[-1], keeping {t}[k] = k!", node, fi)
                else:
                    ctx.violation("C09-F1", fi, node, f"`{t}.append({unparse(arg)})` does not append len({t}) * {t}[-1]: the table stops holding factorials (entry k must be k!), so rank and unrank stop being inverse for longer permutations")
    if seen < 3:
        raise AnalysisError(f"only {seen} factorial-table appends found (3 confirmed by hand)")


_OLD_RUN_F = run


def run(ctx: Ctx) -> None:  # noqa: F811
    _OLD_RUN_F(ctx)
    ctx.run(rule_f1, ctx)


FLOORS["C09-F1"] = 3


# ------------------------------------------------------------------ C09-S1: binary searches run on sequences sorted by construction


def rule_bisect(ctx: Ctx) -> None:
    from ..core import check_bisect_preconditions

    n = check_bisect_preconditions(ctx, "C09-S1", ['permuta.patterns.perm'])
    if n == 0:
        ctx.ok("C09-S1", "permuta.patterns.perm", "no binary search in the anchored modules (nothing to establish)")


_OLD_RUN_BISECT = run


def run(ctx: Ctx) -> None:  # noqa: F811
    _OLD_RUN_BISECT(ctx)
    ctx.run(rule_bisect, ctx)


FLOORS["C09-S1"] = 1


# ------------------------------------------------------------------ X1: ranking arithmetic is exact integer arithmetic


EXACT_FUNCS = (("Perm", "rank"), ("Perm", "unrank"), ("Perm", "_unrank"), ("MeshPatt", "rank"), ("MeshPatt", "unrank"), ("Perm", "from_integer"))


def rule_x1(ctx: Ctx) -> None:
    """Ranks exceed 2**53 from length 19 on (19! > 2**53): ranking / unranking must stay in integer arithmetic.  True division,
    float(), floating constants, math.sqrt/log/floor-of-quotient idioms and round() lose the low digits of a large rank."""
    repo = ctx.repo
    for cname, mname in EXACT_FUNCS:
        f = repo.method(cname, mname)
        if f is None:
            continue
        bad = None
        for n in walk_no_nested(f.node):
            if isinstance(n, ast.BinOp) and isinstance(n.op, ast.Div):
                bad = (n, "true division `/` yields a float")
            elif isinstance(n, ast.AugAssign) and isinstance(n.op, ast.Div):
                bad = (n, "true division `/=` yields a float")
            elif isinstance(n, ast.Constant) and isinstance(n.value, float):
                bad = (n, f"floating constant {n.value!r}")
            elif isinstance(n, ast.Call) and isinstance(n.func, ast.Name) and n.func.id in ("float", "round"):
                bad = (n, f"`{n.func.id}(..)`")
            elif isinstance(n, ast.Call) and isinstance(n.func, ast.Attribute) and isinstance(n.func.value, ast.Name) and n.func.value.id == "math" and n.func.attr in ("sqrt", "log", "log2", "log10", "exp", "pow", "floor", "ceil", "trunc", "fmod"):
                bad = (n, f"`math.{n.func.attr}(..)` works on floats")
            if bad:
                break
        if bad:
            ctx.violation("C09-X1", f, bad[0], f"{cname}.{mname} leaves integer arithmetic ({bad[1]}: `{unparse(bad[0])[:60]}`): ranks of permutations of length 19 and more (and of mesh patterns of length 7 and more) exceed 2**53 "
                          "and lose their low digits, so rank and unrank stop being inverse", robust=True)
        else:
            ctx.ok("C09-X1", f.where, "integer arithmetic only (no true division, float conversion or math.* float function)", f.node, f)


_OLD_RUN_X1 = run


def run(ctx: Ctx) -> None:  # noqa: F811
    _OLD_RUN_X1(ctx)
    ctx.run(rule_x1, ctx)


FLOORS["C09-X1"] = 5
