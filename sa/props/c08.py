"""C08 – equality, hashing and ordering are coherent (engine E6, rules R1–R7)."""

from __future__ import annotations

import ast
from typing import Dict, List, Optional, Set, Tuple

from ..core import AnalysisError, ClassInfo, FuncInfo, Repo, attr_chain, call_name, is_const, norm_text, unparse, walk_no_nested
from ..report import Ctx

PROP = "C08"
CMP = ("__lt__", "__le__", "__gt__", "__ge__")
DUNDERS = ("__eq__", "__ne__", "__hash__") + CMP
VALUE_BASES = {"tuple", "Tuple", "frozenset", "FrozenSet", "str", "int", "bytes", "NamedTuple"}
FLOORS = {"C08-R1": 4, "C08-R2": 4, "C08-R3": 4, "C08-R4": 3, "C08-R5": 4, "C08-R6": 8, "C08-R7": 2, "C08-scope": 7}

EXPLANATION = (
    "Decided (fully, relative to the CPython data-model trusted base): equal => equal hash (R1 co-definition, R2 value-based hash, "
    "R3 hash fields subset of compared fields, R4 one hash function per equality group and symmetric acceptance); hash stable over the "
    "object's lifetime whatever else is allocated (R2: no identity/temporary in the hashed expression; R7: hashed fields written only by "
    "constructors and stored as immutable values); ordering defined on every pair of the mesh-pattern group (R5) and is a key order on totally "
    "ordered components consistent with equality, (length, entries) for Perm (R6). Not decided: nothing of substance beyond the trusted base."
)


# ------------------------------------------------------------------ scope discovery


def in_scope(repo: Repo) -> List[ClassInfo]:
    out = []
    for ci in repo.classes.values():
        own = any(d in ci.methods or d in ci.assigns for d in DUNDERS)
        inherited = any(
            any(d in anc.methods or d in anc.assigns for d in DUNDERS) for anc in repo.mro(ci.name)[1:]
        )
        if own or inherited:
            out.append(ci)
    return out


def has_value_base(repo: Repo, cname: str) -> bool:
    return bool(repo.external_bases(cname) & VALUE_BASES)


# ------------------------------------------------------------------ guards


class Guard:
    def __init__(self, kind: str, names: Set[str], reject: str, node: Optional[ast.AST]):
        self.kind = kind  # 'dynamic' | 'named' | 'none'
        self.names = names
        self.reject = reject  # 'False' | 'NotImplemented' | 'none'
        self.node = node

    def accepts(self, repo: Repo, self_cls: str, other_cls: str) -> bool:
        other_mro = {c.name for c in repo.mro(other_cls)}
        if self.kind == "none":
            return True
        if self.kind == "dynamic":
            return self_cls in other_mro
        return bool(self.names & other_mro)


def guard_of(fi: FuncInfo) -> Guard:
    if len(fi.params) < 2:
        raise AnalysisError(f"{fi.where}: comparison dunder without an 'other' parameter")
    other = fi.params[1]
    guards: List[Tuple[str, Set[str], ast.AST]] = []
    for node in walk_no_nested(fi.node):
        if isinstance(node, ast.Call) and isinstance(node.func, ast.Name) and node.func.id == "isinstance" and len(node.args) == 2:
            if isinstance(node.args[0], ast.Name) and node.args[0].id == other:
                spec = node.args[1]
                ch = attr_chain(spec)
                if ch == (fi.params[0], "__class__") or (
                    isinstance(spec, ast.Call) and isinstance(spec.func, ast.Name) and spec.func.id == "type"
                    and len(spec.args) == 1 and isinstance(spec.args[0], ast.Name) and spec.args[0].id == fi.params[0]
                ):
                    guards.append(("dynamic", set(), node))
                elif isinstance(spec, ast.Name):
                    guards.append(("named", {spec.id}, node))
                elif isinstance(spec, ast.Tuple) and all(isinstance(e, ast.Name) for e in spec.elts):
                    guards.append(("named", {e.id for e in spec.elts}, node))
                else:
                    raise AnalysisError(f"{fi.where}: unrecognised isinstance guard {unparse(node)}")
    reject = "none"
    for node in walk_no_nested(fi.node):
        if isinstance(node, ast.Return) and node.value is not None:
            if isinstance(node.value, ast.Name) and node.value.id == "NotImplemented":
                reject = "NotImplemented"
            elif is_const(node.value, False) and reject == "none":
                reject = "False"
    if not guards:
        return Guard("none", set(), reject, None)
    kinds = {g[0] for g in guards}
    if len(kinds) > 1:
        raise AnalysisError(f"{fi.where}: mixed isinstance guards")
    names: Set[str] = set()
    for g in guards:
        names |= g[1]
    if reject == "none":
        reject = "False"  # ``return isinstance(..) and ..``
    return Guard(guards[0][0], names, reject, guards[0][2])


# ------------------------------------------------------------------ eq fields


def eq_fields(repo: Repo, fi: FuncInfo) -> Tuple[Set[str], List[Tuple[ast.AST, str]]]:
    """Fields F such that the function compares self.F == other.F.  Also returns
    suspicious comparisons (self.F against self.F / different fields)."""
    self_n, other_n = fi.params[0], fi.params[1]
    fields: Set[str] = set()
    odd: List[Tuple[ast.AST, str]] = []
    pairs: List[Tuple[ast.AST, ast.AST, ast.AST]] = []
    for node in walk_no_nested(fi.node):
        if isinstance(node, ast.Compare) and len(node.ops) == 1 and isinstance(node.ops[0], (ast.Eq, ast.NotEq)):
            a, b = node.left, node.comparators[0]
            if isinstance(a, ast.Tuple) and isinstance(b, ast.Tuple) and len(a.elts) == len(b.elts):
                # (self.f, self.g) == (other.f, other.g): componentwise
                pairs += [(node, x, y) for x, y in zip(a.elts, b.elts)]
            else:
                pairs.append((node, a, b))
    for node, a, b in pairs:
        if True:
            l, r = attr_chain(a), attr_chain(b)
            if l is None or r is None or len(l) != 2 or len(r) != 2 or not {l[0], r[0]} <= {self_n, other_n}:
                # a comparison this extraction does not understand (sorted(..) of a field, a key helper, ...)
                if any(isinstance(x, ast.Name) and x.id in (self_n, other_n) for x in ast.walk(a)) and any(isinstance(x, ast.Name) and x.id in (self_n, other_n) for x in ast.walk(b)):
                    fields.add("<unrecognised>")
            if l and r and len(l) == 2 and len(r) == 2 and {l[0], r[0]} <= {self_n, other_n}:
                if l[0] != r[0] and l[1] == r[1]:
                    fields.add(l[1])
                elif l[0] == r[0]:
                    odd.append((node, f"compares {unparse(a)} with {unparse(b)}: both sides are the same object's field"))
                else:
                    odd.append((node, f"compares different fields {l[1]} and {r[1]}"))
    for node in walk_no_nested(fi.node):
        if isinstance(node, ast.Call):
            ch = call_name(node)
            if ch and len(ch) == 2 and ch[1] == "__eq__" and ch[0] in VALUE_BASES | {"super()"}:
                if ch[0] == "super()":
                    nxt = next_in_mro(repo, fi, "__eq__")
                    if nxt is None:
                        fields.add("<tuple>" if has_value_base(repo, fi.cls.name) else "<identity>")
                    else:
                        sub, odd2 = eq_fields(repo, nxt)
                        fields |= sub
                        odd += odd2
                else:
                    fields.add("<tuple>")
    return fields, odd


def next_in_mro(repo: Repo, fi: FuncInfo, mname: str) -> Optional[FuncInfo]:
    mro = repo.mro(fi.cls.name)
    for ci in mro[1:]:
        m = repo.method(ci.name, mname)
        if m is not None:
            return m
    return None


# ------------------------------------------------------------------ hash expression


class HashInfo:
    def __init__(self) -> None:
        self.fields: Set[str] = set()
        self.delegates: List[FuncInfo] = []
        self.bad: List[Tuple[FuncInfo, ast.AST, str]] = []
        self.uses_class = False


def _local_value(fi: FuncInfo, name: str) -> Optional[ast.AST]:
    vals = []
    for node in walk_no_nested(fi.node):
        if isinstance(node, ast.Assign) and len(node.targets) == 1 and isinstance(node.targets[0], ast.Name) and node.targets[0].id == name:
            vals.append(node.value)
    return vals[0] if len(vals) == 1 else None


def _attr_store_value(fi: FuncInfo, attr: str) -> List[ast.AST]:
    vals = []
    for node in walk_no_nested(fi.node):
        if isinstance(node, ast.Assign) and len(node.targets) == 1:
            ch = attr_chain(node.targets[0])
            if ch == (fi.params[0], attr):
                vals.append(node.value)
    return vals


def analyse_hash(repo: Repo, fi: FuncInfo, depth: int = 0) -> HashInfo:
    info = HashInfo()
    self_n = fi.params[0]
    rets = [n for n in walk_no_nested(fi.node) if isinstance(n, ast.Return) and n.value is not None]
    if not rets:
        raise AnalysisError(f"{fi.where}: __hash__ without a return value")
    for ret in rets:
        _hash_value(repo, fi, ret.value, info, self_n, depth)
    return info


def _hash_value(repo: Repo, fi: FuncInfo, node: ast.AST, info: HashInfo, self_n: str, depth: int) -> None:
    """node is an expression whose *integer value* is (part of) the hash."""
    if isinstance(node, ast.BinOp):
        _hash_value(repo, fi, node.left, info, self_n, depth)
        _hash_value(repo, fi, node.right, info, self_n, depth)
        return
    if isinstance(node, ast.UnaryOp):
        _hash_value(repo, fi, node.operand, info, self_n, depth)
        return
    if isinstance(node, ast.Constant) and isinstance(node.value, int):
        return
    if isinstance(node, ast.IfExp):
        _hash_value(repo, fi, node.body, info, self_n, depth)
        _hash_value(repo, fi, node.orelse, info, self_n, depth)
        return
    if isinstance(node, ast.Name):
        val = _local_value(fi, node.id)
        if val is None:
            raise AnalysisError(f"{fi.where}: cannot resolve local {node.id} in __hash__")
        _hash_value(repo, fi, val, info, self_n, depth)
        return
    ch = attr_chain(node)
    if ch and len(ch) == 2 and ch[0] == self_n:
        # cached hash attribute: classify every value stored into it in this function
        vals = [v for v in _attr_store_value(fi, ch[1]) if not is_const(v)]
        if not vals:
            raise AnalysisError(f"{fi.where}: __hash__ returns attribute {ch[1]} whose origin is not in the function")
        for v in vals:
            _hash_value(repo, fi, v, info, self_n, depth)
        info.fields.add(f"<cached:{ch[1]}>")
        return
    if isinstance(node, ast.Call):
        cn = call_name(node)
        if cn == ("hash",) and len(node.args) == 1:
            _hashed_object(repo, fi, node.args[0], info, self_n)
            return
        if cn == ("id",):
            info.bad.append((fi, node, "hash built from id(): identity based, differs between equal objects"))
            return
        if cn and len(cn) == 2 and cn[1] == "__hash__":
            if cn[0] == "super()":
                nxt = next_in_mro(repo, fi, "__hash__")
                if nxt is not None:
                    info.delegates.append(nxt)
                    if depth < 5:
                        sub = analyse_hash(repo, nxt, depth + 1)
                        info.fields |= sub.fields
                        info.bad += sub.bad
                    return
                if has_value_base(repo, fi.cls.name):
                    info.fields.add("<tuple>")
                    return
                info.bad.append((fi, node, "super().__hash__() resolves to object.__hash__: identity based"))
                return
            if cn[0] in VALUE_BASES:
                if len(node.args) == 1 and isinstance(node.args[0], ast.Name) and node.args[0].id == self_n:
                    info.fields.add("<tuple>")
                    return
                info.bad.append((fi, node, f"{unparse(node)} does not hash self"))
                return
            if cn[0] == "object":
                info.bad.append((fi, node, "object.__hash__ is identity based"))
                return
            if repo.has_cls(cn[0]):
                m = repo.method(cn[0], "__hash__")
                if m is not None:
                    info.delegates.append(m)
                    if depth < 5:
                        sub = analyse_hash(repo, m, depth + 1)
                        info.fields |= sub.fields
                        info.bad += sub.bad
                    return
                if has_value_base(repo, cn[0]):
                    info.fields.add("<tuple>")
                    return
                info.bad.append((fi, node, f"{cn[0]}.__hash__ is object.__hash__: identity based"))
                return
        if cn and len(cn) == 2 and cn[0] == self_n and fi.cls is not None:
            m = repo.method(fi.cls.name, cn[1])
            if m is not None and depth < 5:
                sub = analyse_hash(repo, m, depth + 1)
                info.fields |= sub.fields
                info.bad += sub.bad
                info.delegates += sub.delegates
                return
    raise AnalysisError(f"{fi.where}: unrecognised __hash__ expression {unparse(node)}")


def _hashed_object(repo: Repo, fi: FuncInfo, node: ast.AST, info: HashInfo, self_n: str) -> None:
    """node is the argument of hash(..): its hash must be by value."""
    if isinstance(node, ast.Tuple):
        for e in node.elts:
            _hashed_object(repo, fi, e, info, self_n)
        return
    if isinstance(node, ast.Starred):
        a0 = attr_chain(node.value)
        if a0 and len(a0) == 2 and a0[0] == self_n and fi.cls is not None and a0[1] in set_typed_fields(repo, fi.cls.name):
            info.bad.append((fi, node, f"*self.{a0[1]} spreads a set into the hashed tuple in its internal order, which depends on insertion history: equal objects can hash differently"))
            return
        _hashed_object(repo, fi, node.value, info, self_n)
        return
    if isinstance(node, ast.Constant):
        return
    if isinstance(node, ast.Name):
        if node.id == self_n:
            info.bad.append((fi, node, "hash(self) inside __hash__ recurses"))
            return
        val = _local_value(fi, node.id)
        if val is None:
            raise AnalysisError(f"{fi.where}: cannot resolve local {node.id} hashed in __hash__")
        _hashed_object(repo, fi, val, info, self_n)
        return
    ch = attr_chain(node)
    if ch and len(ch) == 2 and ch[0] == self_n:
        if ch[1] == "__class__":
            info.uses_class = True
            return
        if fi.cls is not None and repo.method(fi.cls.name, ch[1]) is not None:
            info.bad.append((fi, node, f"hashes the bound method self.{ch[1]}: not a value of the object"))
            return
        info.fields.add(ch[1])
        return
    if isinstance(node, (ast.Lambda, ast.GeneratorExp)):
        info.bad.append((fi, node, "hashes a lambda/generator: identity based temporary"))
        return
    if isinstance(node, (ast.List, ast.ListComp, ast.Set, ast.SetComp, ast.Dict, ast.DictComp)):
        info.bad.append((fi, node, "hashes an unhashable display"))
        return
    if isinstance(node, ast.Call):
        cn = call_name(node)
        if cn == ("super",):
            info.bad.append((fi, node, "hash(super()) hashes a temporary proxy object: identity based, unequal for equal objects and unstable across allocations"))
            return
        if cn in (("object",), ("id",)):
            info.bad.append((fi, node, f"hash of {unparse(node)} is identity based"))
            return
        if cn == ("type",) and len(node.args) == 1:
            info.uses_class = True
            return
        if cn in (("tuple",), ("frozenset",), ("sorted",), ("str",), ("repr",), ("len",), ("int",)):
            if cn == ("sorted",):
                info.bad.append((fi, node, "hash(sorted(..)) hashes a list: raises TypeError"))
                return
            if cn in (("tuple",), ("str",), ("repr",)) and node.args and fi.cls is not None:
                a0 = attr_chain(node.args[0])
                if a0 and len(a0) == 2 and a0[0] == self_n and a0[1] in set_typed_fields(repo, fi.cls.name):
                    info.bad.append((fi, node, f"{cn[0]}(self.{a0[1]}) traverses a set in its internal order, which depends on insertion history: equal objects can hash differently"))
                    return
            for a in node.args:
                if isinstance(a, ast.Name) and a.id == self_n:
                    info.fields.add("<tuple>")
                else:
                    for sub in ast.walk(a):
                        c2 = attr_chain(sub)
                        if c2 and len(c2) == 2 and c2[0] == self_n and c2[1] != "__class__":
                            info.fields.add(c2[1])
            return
        if cn and len(cn) == 1 and repo.has_cls(cn[0]):
            target = cn[0]
            if repo.method(target, "__hash__") is None and not has_value_base(repo, target):
                info.bad.append((fi, node, f"hashes a fresh {target} instance whose hash is identity based"))
                return
            for a in node.args:
                _hashed_object(repo, fi, a, info, self_n)
            return
    raise AnalysisError(f"{fi.where}: unrecognised object under hash(): {unparse(node)}")


# ------------------------------------------------------------------ ordering keys


def order_compare(fi: FuncInfo) -> Tuple[str, Optional[ast.AST], Optional[ast.AST], Optional[ast.AST]]:
    """Return (kind, self_key, other_key, node).
    kind: '<' '<=' '>' '>=' for a direct key comparison,
          'reflect:__lt__' / 'reflect:__le__' for ``other.__lt__(self)``."""
    self_n, other_n = fi.params[0], fi.params[1]
    rets = [n for n in walk_no_nested(fi.node) if isinstance(n, ast.Return) and n.value is not None
            and not (isinstance(n.value, ast.Name) and n.value.id == "NotImplemented")]
    if len(rets) != 1:
        raise AnalysisError(f"{fi.where}: expected exactly one comparing return")
    val = rets[0].value
    if isinstance(val, ast.Compare) and len(val.ops) == 1:
        op = {ast.Lt: "<", ast.LtE: "<=", ast.Gt: ">", ast.GtE: ">="}.get(type(val.ops[0]))
        if op is None:
            raise AnalysisError(f"{fi.where}: unrecognised comparison operator")
        return op, val.left, val.comparators[0], rets[0]
    if isinstance(val, ast.Call):
        cn = call_name(val)
        if cn and len(cn) == 2 and cn[0] == other_n and cn[1] in CMP and len(val.args) == 1 and isinstance(val.args[0], ast.Name) and val.args[0].id == self_n:
            return f"reflect:{cn[1]}", None, None, rets[0]
    raise AnalysisError(f"{fi.where}: unrecognised ordering body {unparse(val)}")


class _Subst(ast.NodeTransformer):
    def __init__(self, a: str, b: str):
        self.a, self.b = a, b

    def visit_Name(self, node: ast.Name):
        if node.id == self.a:
            return ast.Name(id=self.b, ctx=node.ctx)
        return node


def key_text(expr: ast.AST, who: str) -> str:
    import copy

    e = _Subst(who, "$").visit(copy.deepcopy(expr))
    return unparse(e)


def set_typed_fields(repo: Repo, cname: str) -> Set[str]:
    out: Set[str] = set()
    for ci in repo.mro(cname):
        init = ci.methods.get("__init__")
        if init is None:
            continue
        for node in walk_no_nested(init.node):
            if isinstance(node, (ast.Assign, ast.AnnAssign)):
                tgts = node.targets if isinstance(node, ast.Assign) else [node.target]
                for t in tgts:
                    ch = attr_chain(t)
                    if ch and len(ch) == 2 and ch[0] == init.params[0] and node.value is not None:
                        txt = unparse(node.value)
                        if "frozenset(" in txt or "set(" in txt or isinstance(node.value, (ast.Set, ast.SetComp)):
                            out.add(ch[1])
    return out


def key_components(key: ast.AST) -> List[ast.AST]:
    return list(key.elts) if isinstance(key, ast.Tuple) else [key]


# ------------------------------------------------------------------ the rules


def effective(repo: Repo, cname: str, mname: str) -> Optional[FuncInfo]:
    return repo.method(cname, mname)


def run(ctx: Ctx) -> None:
    repo = ctx.repo
    classes = in_scope(repo)
    for ci in classes:
        ctx.ok("C08-scope", ci.where, "class defines or inherits comparison/hash dunders from an in-repo class")
    names = {c.name for c in classes}
    ctx.run(rule_r1, ctx, classes)
    hashinfo = ctx.run(rule_r2_r3, ctx, classes)
    groups = ctx.run(rule_r4, ctx, classes, hashinfo or {})
    if groups is not None:
        ctx.run(rule_r5_r6, ctx, classes, groups)
    ctx.run(rule_r7, ctx, classes)
    ctx.assume("fields compared by __eq__ hold values whose own ==/hash are coherent (Perm = tuple, frozenset): checked recursively for in-repo classes, trusted for builtins")
    _ = names


def rule_r1(ctx: Ctx, classes: List[ClassInfo]) -> None:
    for ci in classes:
        if "__eq__" in ci.methods:
            if "__hash__" in ci.methods:
                ctx.ok("C08-R1", ci.where, "defines __eq__ and __hash__ together", ci.methods["__hash__"].node, ci.methods["__hash__"])
            elif "__hash__" in ci.assigns and not is_const(ci.assigns["__hash__"]):
                ctx.ok("C08-R1", ci.where, "defines __eq__ and binds __hash__ explicitly")
            else:
                ctx.violation("C08-R1", ci.methods["__eq__"], ci.methods["__eq__"].node,
                              f"class {ci.name} defines __eq__ but not __hash__: Python sets __hash__ = None, instances become unhashable", robust=True)
        elif "__hash__" in ci.assigns and is_const(ci.assigns["__hash__"]):
            ctx.violation("C08-R1", ci.where, ci.assign_nodes["__hash__"], f"class {ci.name} sets __hash__ = None", file=ci.module.relpath, robust=True)


def rule_r2_r3(ctx: Ctx, classes: List[ClassInfo]) -> Dict[str, HashInfo]:
    repo = ctx.repo
    infos: Dict[str, HashInfo] = {}
    for ci in classes:
        hf = ci.methods.get("__hash__")
        if hf is None and "__hash__" in ci.assigns and not is_const(ci.assigns["__hash__"]):
            v = ci.assigns["__hash__"]
            if isinstance(v, ast.Attribute) and isinstance(v.value, ast.Name) and v.attr == "__hash__":
                src = v.value.id
                if src in repo.classes and any(k.name == src for k in repo.mro(ci.name)):
                    ctx.ok("C08-R2", ci.where, f"__hash__ is bound to {src}.__hash__ (a base class's value-based hash, checked there)")
                    hf = repo.method(src, "__hash__")
                elif src in ("tuple", "frozenset", "str", "int", "bytes") and any(b.split("[")[0] in (src, src.capitalize(), "Tuple") for k in repo.mro(ci.name) for b in k.base_names):
                    ctx.ok("C08-R2", ci.where, f"__hash__ is bound to the builtin value hash {src}.__hash__ of its base type")
                    ctx.ok("C08-R3", ci.where, f"builtin {src} hash: equal {src}s hash equally; the class's __eq__ only adds a class test")
                elif src == "object":
                    ctx.violation("C08-R2", ci.where, ci.assign_nodes["__hash__"], f"{ci.name} hashes by identity (object.__hash__) although it defines value equality", file=ci.module.relpath, robust=True)
                else:
                    raise AnalysisError(f"{ci.where}: __hash__ is bound to `{unparse(v)}`, which is not the hash of one of its base types")
            else:
                raise AnalysisError(f"{ci.where}: __hash__ is bound to `{unparse(v)}`; not recognised")
            if hf is None:
                continue
            info = analyse_hash(repo, hf)
            infos[ci.name] = info
            _r3(ctx, repo, ci, hf, info)
            continue
        if hf is None:
            continue
        info = analyse_hash(repo, hf)
        infos[ci.name] = info
        if info.bad:
            for bfi, node, msg in info.bad:
                # reported where the offending expression is (a delegating subclass inherits the defect)
                ctx.violation("C08-R2", bfi, node if hasattr(node, "lineno") else bfi.node, msg, robust=True)
        else:
            ctx.ok("C08-R2", hf.where, f"hash is value based over fields {sorted(info.fields)}", hf.node, hf)
        _r3(ctx, repo, ci, hf, info)
    return infos


def _r3(ctx: Ctx, repo: Repo, ci: ClassInfo, hf: FuncInfo, info: "HashInfo") -> None:
    """R3 against the effective __eq__ of the class: the hash reads only what equality compares."""
    ef = effective(repo, ci.name, "__eq__")
    if ef is None:
        eqf = {"<tuple>"} if has_value_base(repo, ci.name) else {"<identity>"}
        odd: List[Tuple[ast.AST, str]] = []
    else:
        eqf, odd = eq_fields(repo, ef)
    for node, msg in odd:
        ctx.violation("C08-R3", ef, node, f"__eq__ {msg}", robust=True)
    hfields = {f for f in info.fields if not f.startswith("<cached:")}
    if info.bad:
        return
    if hfields <= eqf:
        ctx.ok("C08-R3", f"{ci.where}.__hash__" if hf.cls is not ci else hf.where, f"hash fields {sorted(hfields)} subset of compared fields {sorted(eqf)}", hf.node, hf)
    elif "<unrecognised>" in eqf:
        raise AnalysisError(f"{ef.where if ef else ci.where}: __eq__ contains a comparison whose operands are not plain fields; which fields equality looks at is not decided")
    else:
        ctx.violation("C08-R3", hf, hf.node,
                      f"__hash__ reads {sorted(hfields - eqf)} which {ef.where if ef else 'the inherited __eq__'} does not compare: equal objects may hash differently", robust=True)


def _never_instantiated_private_base(repo: Repo, ci: ClassInfo) -> bool:
    """A private (underscore) class that only serves as a base: it has subclasses and nothing in the package calls it."""
    if not ci.name.startswith("_") or len(repo.subclasses(ci.name, strict=True)) == 0:
        return False
    for fi in repo.all_funcs():
        for n in walk_no_nested(fi.node):
            if isinstance(n, ast.Call) and isinstance(n.func, ast.Name) and n.func.id == ci.name:
                return False
    return True


def _concrete_pairs(repo: Repo, classes: List[ClassInfo]) -> List[Tuple[str, str]]:
    out = []
    names = [c.name for c in classes if not _never_instantiated_private_base(repo, c)]
    for a in names:
        for b in names:
            if a >= b:
                continue
            ma = {c.name for c in repo.mro(a)}
            mb = {c.name for c in repo.mro(b)}
            common = (ma & mb) & set(names)
            if common:
                out.append((a, b))
    return out


def _guard_eval(repo: Repo, fi: FuncInfo, a: str, b: str) -> str:
    """Outcome class of a comparison dunder for self of class ``a`` and other of class ``b`` when its isinstance tests are
    combined in a way the Guard abstraction does not cover: 'compare' (the answer depends on the values), 'False' or
    'NotImplemented'.  isinstance atoms are decided from the class hierarchy, everything else is value dependent."""
    s_n, o_n = fi.params[0], fi.params[1]
    a_mro = {c.name for c in repo.mro(a)}
    b_mro = {c.name for c in repo.mro(b)}

    def type_of(e: ast.AST) -> Optional[str]:
        if isinstance(e, ast.Call) and isinstance(e.func, ast.Name) and e.func.id == "type" and len(e.args) == 1 and isinstance(e.args[0], ast.Name):
            return e.args[0].id
        ch = attr_chain(e)
        if ch and len(ch) == 2 and ch[1] == "__class__":
            return ch[0]
        return None

    def ev(e: ast.AST):
        if isinstance(e, ast.Constant) and isinstance(e.value, bool):
            return e.value
        if isinstance(e, ast.UnaryOp) and isinstance(e.op, ast.Not):
            v = ev(e.operand)
            return (not v) if isinstance(v, bool) else "?"
        if isinstance(e, ast.BoolOp):
            vs = [ev(x) for x in e.values]
            if isinstance(e.op, ast.And):
                return False if any(v is False for v in vs) else (True if all(v is True for v in vs) else "?")
            return True if any(v is True for v in vs) else (False if all(v is False for v in vs) else "?")
        if isinstance(e, ast.Call) and isinstance(e.func, ast.Name) and e.func.id == "isinstance" and len(e.args) == 2 and isinstance(e.args[0], ast.Name):
            subj = e.args[0].id
            subj_mro = b_mro if subj == o_n else a_mro if subj == s_n else None
            if subj_mro is None:
                return "?"
            spec = e.args[1]
            t = type_of(spec)
            if t == s_n:
                return a in subj_mro
            if t == o_n:
                return b in subj_mro
            names = [x.id for x in (spec.elts if isinstance(spec, ast.Tuple) else [spec]) if isinstance(x, ast.Name)]
            if names and len(names) == len(spec.elts if isinstance(spec, ast.Tuple) else [spec]):
                return bool(set(names) & subj_mro)
        return "?"

    def block(stmts) -> Optional[str]:
        for st in stmts:
            if isinstance(st, ast.Return):
                if isinstance(st.value, ast.Name) and st.value.id == "NotImplemented":
                    return "NotImplemented"
                v = ev(st.value) if st.value is not None else "?"
                return "False" if v is False else "compare"
            if isinstance(st, ast.If):
                v = ev(st.test)
                if v == "?":
                    return "compare"
                r = block(st.body if v else st.orelse)
                if r is not None:
                    return r
                continue
            if isinstance(st, (ast.Assign, ast.AnnAssign, ast.Expr, ast.Pass)):
                continue
            raise AnalysisError(f"{fi.where}: statement `{unparse(st)[:50]}` outside the guard fragment")
        return None

    r = block(fi.body)
    if r is None:
        raise AnalysisError(f"{fi.where}: falls off the end")
    return r


def _eq_outcome(repo: Repo, a: str, b: str) -> str:
    """Outcome class of ``x == y`` for x of class a, y of class b: 'compare' or 'False'."""
    fa, fb = effective(repo, a, "__eq__"), effective(repo, b, "__eq__")
    b_sub_a = a in {c.name for c in repo.mro(b)} and a != b
    order = [(fb, b, a), (fa, a, b)] if (b_sub_a and fb is not fa) else [(fa, a, b), (fb, b, a)]
    for f, s, o in order:
        if f is None:
            return "compare"  # builtin tuple equality accepts any tuple
        try:
            g = guard_of(f)
        except AnalysisError:
            r = _guard_eval(repo, f, s, o)
            if r == "compare":
                return "compare"
            if r == "False":
                return "False"
            continue
        if g.accepts(repo, s, o):
            return "compare"
        if g.reject == "False":
            return "False"
    return "False"


def rule_r4(ctx: Ctx, classes: List[ClassInfo], hashinfo: Dict[str, HashInfo]) -> List[Set[str]]:
    repo = ctx.repo
    names = [c.name for c in classes]
    adj: Dict[str, Set[str]] = {n: {n} for n in names}
    for a, b in _concrete_pairs(repo, classes):
        ab, ba = _eq_outcome(repo, a, b), _eq_outcome(repo, b, a)
        if ab != ba:
            fa = effective(repo, a, "__eq__") or effective(repo, b, "__eq__")
            ctx.violation("C08-R4", fa, fa.node, f"equality is not symmetric between {a} and {b}: {a}()=={b}() -> {ab}, {b}()=={a}() -> {ba}", robust=True)
        if "compare" in (ab, ba):
            adj[a].add(b)
            adj[b].add(a)
    # connected components
    groups: List[Set[str]] = []
    seen: Set[str] = set()
    for n in names:
        if n in seen:
            continue
        comp, stack = set(), [n]
        while stack:
            x = stack.pop()
            if x in comp:
                continue
            comp.add(x)
            stack.extend(adj[x] - comp)
        seen |= comp
        groups.append(comp)
    pairs = _concrete_pairs(repo, classes)
    for comp in groups:
        # inside one equality group every two members must be comparable: if x == m and m == y can both hold for the same
        # field values while x == y is rejected outright, equality is not transitive
        for a, b in pairs:
            if a in comp and b in comp and _eq_outcome(repo, a, b) == "False" and _eq_outcome(repo, b, a) == "False":
                bridge = sorted(c for c in comp if c not in (a, b) and "compare" in (_eq_outcome(repo, a, c), _eq_outcome(repo, c, a)) and "compare" in (_eq_outcome(repo, b, c), _eq_outcome(repo, c, b)))
                if bridge:
                    fa = effective(repo, a, "__eq__") or effective(repo, b, "__eq__")
                    ctx.violation("C08-R4", fa, fa.node, f"equality is not transitive: a {a} and a {b} with the same field values are never equal to each other, although each can equal the same {bridge[0]} (and hash like it)", robust=True)
    for comp in groups:
        roots: Dict[str, str] = {}
        for c in sorted(comp):
            hf = effective(repo, c, "__hash__")
            if hf is None:
                roots[c] = "<builtin>" if has_value_base(repo, c) else "<object>"
                continue
            # follow delegation to the root hash function
            cur, hops = hf, 0
            while hops < 6:
                info = analyse_hash(repo, cur)
                if info.delegates and not info.bad and len(info.delegates) == 1 and not (info.fields - {f for f in analyse_hash(repo, info.delegates[0]).fields}):
                    cur = info.delegates[0]
                    hops += 1
                    continue
                break
            roots[c] = cur.where
        if len(comp) == 1:
            c = next(iter(comp))
            ctx.ok("C08-R4", repo.cls(c).where, f"equality group {{{c}}} resolves __hash__ to {roots[c]}")
            continue
        distinct = set(roots.values())
        r2_blamed = {f.where for f in ctx.findings if f.rule == "C08-R2"}
        if distinct & r2_blamed:
            ctx.note(f"C08-R4: group {sorted(comp)} not compared because C08-R2 already blames {sorted(distinct & r2_blamed)}")
        elif len(distinct) == 1:
            ctx.ok("C08-R4", repo.cls(sorted(comp)[0]).where, f"equality group {sorted(comp)} shares one hash function {distinct.pop()}")
        else:
            # name the minority definition(s)
            from collections import Counter

            cnt = Counter(roots.values())
            major = cnt.most_common(1)[0][0]
            for c, r in sorted(roots.items()):
                if r != major:
                    hf = effective(repo, c, "__hash__")
                    if hf is not None and hf.cls is not None and hf.cls.name == c:
                        ctx.violation("C08-R4", hf, hf.node,
                                      f"{c} may compare equal to other members of {sorted(comp)} but its __hash__ ({r}) is not the group's hash function ({major})", robust=True)
                    elif hf is None:
                        ctx.violation("C08-R4", repo.cls(c).where, repo.cls(c).node, f"{c} hashes by {r} but may equal members of {sorted(comp)} hashing by {major}", file=repo.cls(c).module.relpath, robust=True)
        # a class-dependent hash inside a multi-class group
        for c in sorted(comp):
            if c in hashinfo and hashinfo[c].uses_class:
                hf = effective(repo, c, "__hash__")
                ctx.violation("C08-R4", hf, hf.node, f"__hash__ depends on the dynamic class but {sorted(comp)} may compare equal across classes", robust=True)
    return groups


def rule_r5_r6(ctx: Ctx, classes: List[ClassInfo], groups: List[Set[str]]) -> None:
    repo = ctx.repo
    for ci in classes:
        own = [m for m in CMP if m in ci.methods]
        if not own:
            continue
        if 0 < len(own) < 4:
            missing = sorted(set(CMP) - set(own))
            inherited = [m for m in missing if effective(repo, ci.name, m) is None]
            if inherited:
                ctx.violation("C08-R6", ci.methods[own[0]], ci.methods[own[0]].node, f"{ci.name} defines {own} but not {inherited}: ordering is partial", robust=True)
        group = next(g for g in groups if ci.name in g)
        inheritors = [s.name for s in repo.subclasses(ci.name, strict=True) if all(effective(repo, s.name, m) is ci.methods.get(m) for m in own)]
        keys: Dict[str, Tuple[str, str]] = {}
        for m in own:
            fi = ci.methods[m]
            g = guard_of(fi)
            # ---- R5
            if g.kind == "dynamic" and inheritors:
                ctx.violation("C08-R5", fi, g.node,
                              f"type guard on the dynamic class: for operands of different classes among {sorted({ci.name, *inheritors})} both {m} and its reflection answer NotImplemented, so the comparison raises TypeError (sorted() of mixed patterns fails)", robust=True)
            elif g.kind == "named":
                uncovered = [c for c in sorted(group) if not (g.names & {k.name for k in repo.mro(c)})]
                if uncovered and len(group) > 1:
                    ctx.violation("C08-R5", fi, g.node, f"type guard {sorted(g.names)} excludes {uncovered} of the equality group {sorted(group)}", robust=True)
                else:
                    ctx.ok("C08-R5", fi.where, f"guard on fixed class {sorted(g.names)} covers the group {sorted(group)}", g.node, fi)
            else:
                ctx.ok("C08-R5", fi.where, "no restricting type guard (dynamic guard without inheriting subclasses, or none)", fi.node, fi)
        # ---- R6: decided semantically over the finite set of orderings of the key components
        rule_r6_semantic(ctx, ci, own)


# ------------------------------------------------------------------ R6 as a finite evaluation

ORDER_OPS = {ast.Lt: "<", ast.LtE: "<=", ast.Gt: ">", ast.GtE: ">=", ast.Eq: "==", ast.NotEq: "!="}
INV = {"lt": "gt", "eq": "eq", "gt": "lt"}


def _apply(op: str, rel: str) -> bool:
    return {"<": rel == "lt", "<=": rel in ("lt", "eq"), ">": rel == "gt", ">=": rel in ("gt", "eq"), "==": rel == "eq", "!=": rel != "eq"}[op]


def _lex(rels: List[str]) -> str:
    for r in rels:
        if r != "eq":
            return r
    return "eq"


class OrderEval:
    """Evaluates a comparison dunder on an abstract case: for every key component c, the relation
    (lt / eq / gt) between c(self) and c(other).  Values are touched only through comparisons, so the
    finite set of cases is exhaustive."""

    def __init__(self, repo: Repo, ci: ClassInfo):
        self.repo, self.ci = repo, ci
        self.components: Dict[str, ast.AST] = {}
        self.discover = False

    def comp_of(self, fi: FuncInfo, node: ast.AST, eq_only: bool = False) -> Optional[Tuple[str, str]]:
        """(component text with the object replaced by $, which object: 'self' | 'other').  Under == / != a set-typed
        field stands for its sorted listing (two sets are equal iff their sorted listings are)."""
        if eq_only and isinstance(node, ast.Attribute) and isinstance(node.value, ast.Name) and node.attr in set_typed_fields(self.repo, self.ci.name):
            node = ast.Call(func=ast.Name(id="sorted", ctx=ast.Load()), args=[node], keywords=[])
        names = {n.id for n in ast.walk(node) if isinstance(n, ast.Name)}
        s_n, o_n = fi.params[0], fi.params[1]
        if s_n in names and o_n in names:
            return None
        who = "self" if s_n in names else "other" if o_n in names else None
        if who is None:
            return None
        txt = key_text(node, s_n if who == "self" else o_n)
        if who == "self":
            self.components.setdefault(txt, node)
        return txt, who

    def rel(self, fi: FuncInfo, l: ast.AST, r: ast.AST, case: Dict[str, str], eq_only: bool = False) -> str:
        if isinstance(l, ast.Tuple) and isinstance(r, ast.Tuple) and len(l.elts) == len(r.elts):
            return _lex([self.rel(fi, a, b, case, eq_only) for a, b in zip(l.elts, r.elts)])
        cl, cr = self.comp_of(fi, l, eq_only), self.comp_of(fi, r, eq_only)
        if cl is not None and cr is not None and cl == cr:
            return "eq"  # a component of one operand compared with itself: equal in every case
        if cl is None or cr is None or cl[0] != cr[0] or cl[1] == cr[1]:
            raise AnalysisError(f"{fi.where}: comparison of `{unparse(l)}` with `{unparse(r)}` is not between the same key component of the two operands")
        if self.discover:
            return "eq"
        if cl[0] not in case:
            raise AnalysisError(f"{fi.where}: key component {cl[0]} appears only on some paths")
        base = case[cl[0]]  # relation of component(self) to component(other)
        return base if cl[1] == "self" else INV[base]

    # identity tests (`a.f is b.f`) are not determined by the abstract case: equal components may or may not be the same
    # object.  Every evaluation is therefore repeated for all outcomes of the identity tests it meets.
    _bits: List[bool] = []
    _pos: int = 0

    def choose(self) -> bool:
        if self._pos < len(self._bits):
            v = self._bits[self._pos]
        else:
            self._bits.append(False)
            v = False
        self._pos += 1
        return v

    def all_results(self, fn) -> List:
        out = []
        stack: List[List[bool]] = [[]]
        seen = set()
        while stack:
            prefix = stack.pop()
            self._bits, self._pos = list(prefix), 0
            out.append(fn())
            used = self._bits[:self._pos]
            for i in range(len(prefix), len(used)):
                alt = tuple(used[:i] + [True])
                if alt not in seen:
                    seen.add(alt)
                    stack.append(list(alt))
            if len(seen) > 64:
                raise AnalysisError("too many identity tests in the ordering methods")
        return out

    def expr(self, fi: FuncInfo, node: ast.AST, case: Dict[str, str], depth: int):
        if isinstance(node, ast.Constant) and isinstance(node.value, bool):
            return node.value
        if isinstance(node, ast.Compare) and len(node.ops) == 1 and isinstance(node.ops[0], (ast.Is, ast.IsNot)) and not (isinstance(node.comparators[0], ast.Constant)):
            r = self.rel(fi, node.left, node.comparators[0], case, eq_only=True)
            same = self.choose() if r == "eq" else False
            return same if isinstance(node.ops[0], ast.Is) else not same
        if isinstance(node, ast.Name) and node.id == "NotImplemented":
            return "NotImplemented"
        if isinstance(node, ast.UnaryOp) and isinstance(node.op, ast.Not):
            return not self.expr(fi, node.operand, case, depth)
        if isinstance(node, ast.BoolOp):
            vals = [self.expr(fi, v, case, depth) for v in node.values]
            return all(vals) if isinstance(node.op, ast.And) else any(vals)
        if isinstance(node, ast.IfExp):
            return self.expr(fi, node.body if self.expr(fi, node.test, case, depth) else node.orelse, case, depth)
        if isinstance(node, ast.Compare):
            operands = [node.left] + list(node.comparators)
            out = True
            for i, op in enumerate(node.ops):
                sym = ORDER_OPS.get(type(op))
                if sym is None:
                    raise AnalysisError(f"{fi.where}: operator in `{unparse(node)}` not supported")
                out = out and _apply(sym, self.rel(fi, operands[i], operands[i + 1], case, eq_only=sym in ("==", "!=")))
            return out
        if isinstance(node, ast.Call):
            cn = call_name(node)
            if cn == ("isinstance",):
                return True  # operands of the group: the guard is judged by R5
            if cn and len(cn) == 2 and cn[0] in ("tuple",) and cn[1] in CMP and len(node.args) == 2:
                # tuple.__le__(a, b)  ==  tuple(a) <= tuple(b)
                sym = {"__lt__": "<", "__le__": "<=", "__gt__": ">", "__ge__": ">="}[cn[1]]
                mk = lambda a: ast.Call(func=ast.Name(id="tuple", ctx=ast.Load()), args=[a], keywords=[])
                return _apply(sym, self.rel(fi, mk(node.args[0]), mk(node.args[1]), case))
            if cn and len(cn) == 2 and cn[1] in CMP and len(node.args) == 1 and depth < 4:
                recv, arg = cn[0], unparse(node.args[0])
                target = self.repo.method(self.ci.name, cn[1])
                if target is None:
                    raise AnalysisError(f"{fi.where}: {cn[1]} not found")
                if recv == fi.params[1] and arg == fi.params[0]:
                    return self.method(target, {k: INV[v] for k, v in case.items()}, depth + 1)
                if recv == fi.params[0] and arg == fi.params[1]:
                    return self.method(target, case, depth + 1)
        raise AnalysisError(f"{fi.where}: expression `{unparse(node)[:60]}` is outside the comparison fragment")

    def inline(self, fi: FuncInfo, node: ast.AST, env: Dict[str, ast.AST]) -> ast.AST:
        """substitute simple locals and one-expression helpers (`Cls.key(x)` whose body is straight-line assignments + return)"""
        from ..core import subst_names

        node = subst_names(node, env) if env else node

        class Inl(ast.NodeTransformer):
            def visit_Call(inner, call: ast.Call):  # noqa: N805
                call = inner.generic_visit(call)
                cn = call_name(call)
                # a key object built by another (NamedTuple) class:  _Key.of(x)  ->  the tuple of its fields
                if cn and len(cn) == 2 and cn[0] in self.repo.classes and cn[0] != self.ci.name and not call.keywords:
                    kc = self.repo.classes[cn[0]]
                    h2 = self.repo.method(cn[0], cn[1])
                    if h2 is not None and (h2.is_classmethod or h2.is_static) and any("NamedTuple" in b or b in ("tuple", "Tuple") for k in self.repo.mro(cn[0]) for b in k.base_names):
                        params = h2.params[1:] if h2.is_classmethod else h2.params
                        if len(params) == len(call.args):
                            henv2: Dict[str, ast.AST] = dict(zip(params, call.args))
                            for st in h2.body:
                                if isinstance(st, ast.Assign) and len(st.targets) == 1 and isinstance(st.targets[0], ast.Name):
                                    henv2[st.targets[0].id] = subst_names(st.value, henv2)
                                elif isinstance(st, ast.Return) and isinstance(st.value, ast.Call) and unparse(st.value.func) in ("cls", kc.name) and not st.value.keywords:
                                    return ast.Tuple(elts=[subst_names(a, henv2) for a in st.value.args], ctx=ast.Load())
                                else:
                                    return call
                    _ = kc
                if cn and len(cn) == 2 and cn[0] in (self.ci.name, "cls", fi.params[0]) and not call.keywords:
                    h = self.repo.method(self.ci.name, cn[1])
                    if h is not None and cn[1] not in CMP and cn[1] not in ("__eq__", "__ne__", "__hash__"):
                        params = h.params if h.is_static else h.params[1:]
                        args = list(call.args)
                        if cn[0] == fi.params[0] and not h.is_static and not h.is_classmethod:
                            params = h.params
                            args = [ast.Name(id=fi.params[0], ctx=ast.Load())] + args
                        if len(params) == len(args):
                            henv: Dict[str, ast.AST] = dict(zip(params, args))
                            for st in h.body:
                                if isinstance(st, ast.Assign) and len(st.targets) == 1 and isinstance(st.targets[0], ast.Name):
                                    henv[st.targets[0].id] = subst_names(st.value, henv)
                                elif isinstance(st, ast.Return) and st.value is not None:
                                    return subst_names(st.value, henv)
                                else:
                                    return call
                return call

        return ast.fix_missing_locations(Inl().visit(node))

    def method(self, fi: FuncInfo, case: Dict[str, str], depth: int = 0):
        env: Dict[str, ast.AST] = {}

        def block(stmts):
            for st in stmts:
                if isinstance(st, ast.Return):
                    return ("ret", self.expr(fi, self.inline(fi, st.value, env), case, depth))
                if isinstance(st, ast.If):
                    r = block(st.body if self.expr(fi, self.inline(fi, st.test, env), case, depth) else st.orelse)
                    if r is not None:
                        return r
                    continue
                if isinstance(st, (ast.Assign, ast.AnnAssign)) and st.value is not None:
                    tgt = st.targets[0] if isinstance(st, ast.Assign) else st.target
                    if isinstance(tgt, ast.Name):
                        env[tgt.id] = self.inline(fi, st.value, env)
                        continue
                    if isinstance(tgt, ast.Tuple) and isinstance(st.value, ast.Tuple) and len(tgt.elts) == len(st.value.elts) and all(isinstance(t, ast.Name) for t in tgt.elts):
                        vals = [self.inline(fi, v, env) for v in st.value.elts]
                        for t, v in zip(tgt.elts, vals):
                            env[t.id] = v
                        continue
                raise AnalysisError(f"{fi.where}: statement `{unparse(st)[:50]}` is outside the comparison fragment")
            return None

        r = block(fi.body)
        if r is None:
            raise AnalysisError(f"{fi.where}: falls off the end")
        return r[1]


def rule_r6_semantic(ctx: Ctx, ci: ClassInfo, own: List[str]) -> None:
    import itertools

    repo = ctx.repo
    ev = OrderEval(repo, ci)
    # discover the key components (first pass with a permissive case map)
    ev.discover = True
    for m in own:
        # comparisons hidden behind locals / key helpers: collect them from the inlined return expressions
        fi_m = ci.methods[m]
        env_m: Dict[str, ast.AST] = {}
        for st in walk_no_nested(fi_m.node):
            if isinstance(st, ast.Assign) and len(st.targets) == 1 and isinstance(st.targets[0], ast.Name):
                env_m[st.targets[0].id] = ev.inline(fi_m, st.value, env_m)
            elif isinstance(st, ast.Assign) and len(st.targets) == 1 and isinstance(st.targets[0], ast.Tuple) and isinstance(st.value, ast.Tuple) and len(st.targets[0].elts) == len(st.value.elts):
                vals = [ev.inline(fi_m, v, env_m) for v in st.value.elts]
                for t, v in zip(st.targets[0].elts, vals):
                    if isinstance(t, ast.Name):
                        env_m[t.id] = v
        for st in walk_no_nested(fi_m.node):
            if isinstance(st, (ast.Return, ast.If)):
                e0 = st.value if isinstance(st, ast.Return) else st.test
                if e0 is None:
                    continue
                for node in ast.walk(ev.inline(fi_m, e0, env_m)):
                    if isinstance(node, ast.Compare):
                        ops = [node.left] + list(node.comparators)
                        for (a, b), o in zip(zip(ops, ops[1:]), node.ops):
                            try:
                                ev.rel(fi_m, a, b, {}, eq_only=isinstance(o, (ast.Eq, ast.NotEq, ast.Is, ast.IsNot)))
                            except AnalysisError:
                                pass
    for m in own:
        # walk every comparison of the method (both arms of every branch) to collect the components
        for node in walk_no_nested(ci.methods[m].node):
            if isinstance(node, ast.Compare) and any(type(o) in ORDER_OPS or isinstance(o, (ast.Is, ast.IsNot)) for o in node.ops):
                ops = [node.left] + list(node.comparators)
                for (a, b), o in zip(zip(ops, ops[1:]), node.ops):
                    try:
                        ev.rel(ci.methods[m], a, b, {}, eq_only=isinstance(o, (ast.Eq, ast.NotEq, ast.Is, ast.IsNot)))
                    except AnalysisError:
                        pass
    ev.discover = False
    comps = sorted(ev.components)
    if not comps or len(comps) > 3:
        raise AnalysisError(f"{ci.where}: {len(comps)} key components found in the ordering methods")
    first = ci.methods[own[0]]
    for c in comps:
        check_key_components(ctx, ci, first, ev.components[c], first.node)
    tuple_sub = effective(repo, ci.name, "__eq__") is None and has_value_base(repo, ci.name)
    cases = []
    for rels in itertools.product(("lt", "eq", "gt"), repeat=len(comps)):
        case = dict(zip(comps, rels))
        if tuple_sub and "tuple($)" in case and "len($)" in case and case["tuple($)"] == "eq" and case["len($)"] != "eq":
            continue  # equal tuples have equal length
        cases.append(case)
    table: Dict[str, List[bool]] = {}
    for m in own:
        vals = []
        for case in cases:
            results = ev.all_results(lambda: ev.method(ci.methods[m], case))
            if any(v == "NotImplemented" for v in results):
                raise AnalysisError(f"{ci.methods[m].where}: returns NotImplemented for operands of the group")
            if len({bool(v) for v in results}) != 1:
                ctx.violation("C08-R6", ci.methods[m], ci.methods[m].node, f"{m} gives different answers for equal operands depending on whether a component is the very same object (identity test): when {case}", robust=True)
                return
            vals.append(bool(results[0]))
        table[m] = vals
    sym = {"__lt__": "<", "__le__": "<=", "__gt__": ">", "__ge__": ">="}
    orders = [list(p) for p in itertools.permutations(comps)]
    if tuple_sub:
        if set(comps) != {"len($)", "tuple($)"}:
            ctx.violation("C08-R6", first, first.node, f"ordering of the tuple subclass {ci.name} uses the key components {comps}; 'by length then lexicographically' is (len, entries)", robust=True)
            return
        orders = [["len($)", "tuple($)"]]
    best = None
    for order in orders:
        diffs = []
        for m in own:
            for case, got in zip(cases, table[m]):
                want = _apply(sym[m], _lex([case[c] for c in order]))
                if got != want:
                    diffs.append((m, case, got, want))
        if best is None or len(diffs) < len(best[1]):
            best = (order, diffs)
    order, diffs = best
    pretty = lambda c: ", ".join(f"{k.replace('$', 'self')} {'<' if v == 'lt' else '=' if v == 'eq' else '>'} {k.replace('$', 'other')}" for k, v in c.items())
    if diffs:
        seen = set()
        for m, case, got, want in diffs:
            if m in seen:
                continue
            seen.add(m)
            fi = ci.methods[m]
            ctx.violation("C08-R6", fi, fi.node, f"{m} is not `{sym[m]}` of the total order by ({', '.join(c.replace('$', 'self') for c in order)}): when {pretty(case)} it returns {got}, the order gives {want}", robust=True)
    else:
        for m in own:
            fi = ci.methods[m]
            ctx.ok("C08-R6", fi.where, f"{m} = `{sym[m]}` of the lexicographic order by ({', '.join(order)}) on all {len(cases)} abstract cases", fi.node, fi)
    # consistency with equality: the key components are the compared fields
    ef = effective(repo, ci.name, "__eq__")
    if ef is not None:
        eqf, _ = eq_fields(repo, ef)
        kfields = set()
        for c in comps:
            for sub in ast.walk(ev.components[c]):
                ch = attr_chain(sub)
                if ch and len(ch) == 2 and ch[0] == first.params[0]:
                    kfields.add(ch[1])
        if kfields == eqf:
            ctx.ok("C08-R6", ci.where, f"ordering key fields {sorted(kfields)} = equality fields: a<=b and b<=a iff a==b")
        elif "<unrecognised>" in eqf:
            raise AnalysisError(f"{ef.where}: __eq__ contains a comparison whose operands are not plain fields; consistency of the order with == is not decided")
        else:
            ctx.violation("C08-R6", first, first.node, f"ordering key fields {sorted(kfields)} differ from equality fields {sorted(eqf)}: order inconsistent with ==", robust=True)
    elif tuple_sub:
        ctx.ok("C08-R6", ci.where, "tuple subclass ordered by (length, entries); key equality <=> tuple equality")


def check_key_components(ctx: Ctx, ci: ClassInfo, fi: FuncInfo, key: ast.AST, node: ast.AST) -> None:
    repo = ctx.repo
    sets = set_typed_fields(repo, ci.name)
    self_n = fi.params[0]
    for comp in key_components(key):
        ch = attr_chain(comp)
        if ch and len(ch) == 2 and ch[0] == self_n and ch[1] in sets:
            ctx.violation("C08-R6", fi, node, f"key component self.{ch[1]} is a set: '<' on sets is inclusion, not a total order", robust=True)
            return
        if isinstance(comp, ast.Call):
            cn = call_name(comp)
            if cn in (("set",), ("frozenset",)):
                ctx.violation("C08-R6", fi, node, f"key component {unparse(comp)} is a set: '<' on sets is inclusion, not a total order", robust=True)
                return
            if cn in (("sorted",), ("tuple",), ("len",), ("list",)):
                continue
            raise AnalysisError(f"{fi.where}: unrecognised ordering key component {unparse(comp)}")
        if ch and len(ch) == 2 and ch[0] == self_n:
            continue
        if isinstance(comp, ast.Constant):
            continue
        raise AnalysisError(f"{fi.where}: unrecognised ordering key component {unparse(comp)}")


def rule_r7(ctx: Ctx, classes: List[ClassInfo]) -> None:
    """Fields read by __eq__/__hash__ are written only in constructors of the family."""
    repo = ctx.repo
    fields: Dict[str, Set[str]] = {}
    for ci in classes:
        fs: Set[str] = set()
        for mname in ("__eq__", "__hash__") + CMP:
            f = ci.methods.get(mname)
            if f is None:
                continue
            for sub in ast.walk(f.node):
                ch = attr_chain(sub)
                if ch and len(ch) == 2 and ch[0] == f.params[0] and not ch[1].startswith("__"):
                    if repo.method(ci.name, ch[1]) is None:
                        fs.add(ch[1])
        if fs:
            fields[ci.name] = fs
    allf: Set[str] = set().union(*fields.values()) if fields else set()
    if not allf:
        raise AnalysisError("C08-R7: no hashed/compared instance fields found")
    family: Set[str] = set()
    for cname in fields:
        family |= {s.name for s in repo.subclasses(cname)}
    stores = 0
    immutable_fields: Set[str] = set()
    for fi in repo.all_funcs():
        if fi.cls is None or fi.cls.name not in family or fi.name not in ("__init__", "__new__"):
            continue
        for node in walk_no_nested(fi.node):
            if isinstance(node, (ast.Assign, ast.AnnAssign)) and node.value is not None:
                for t in (node.targets if isinstance(node, ast.Assign) else [node.target]):
                    if isinstance(t, ast.Attribute) and t.attr in allf and attr_chain(t) == (fi.params[0], t.attr):
                        if immut_class(repo, fi, node.value) == "immutable":
                            immutable_fields.add(t.attr)
    for fi in repo.all_funcs():
        for node in walk_no_nested(fi.node):
            tgts: List[ast.AST] = []
            if isinstance(node, ast.Assign):
                tgts = list(node.targets)
            elif isinstance(node, (ast.AugAssign, ast.AnnAssign)):
                tgts = [node.target]
            elif isinstance(node, ast.Delete):
                tgts = list(node.targets)
            flat: List[ast.AST] = []
            for t in tgts:
                flat.extend(t.elts if isinstance(t, (ast.Tuple, ast.List)) else [t])
            for t in flat:
                if isinstance(t, ast.Attribute) and t.attr in allf:
                    in_ctor = fi.cls is not None and fi.cls.name in family and fi.name in ("__init__", "__new__") and attr_chain(t) == (fi.params[0], t.attr)
                    owner_has = fi.cls is not None and fi.cls.name in family
                    if in_ctor:
                        stores += 1
                        val = node.value if isinstance(node, (ast.Assign, ast.AnnAssign)) else None
                        verdict = immut_class(repo, fi, val) if val is not None else "unknown"
                        if verdict == "mutable":
                            ctx.violation("C08-R7", fi, node, f"hashed field {t.attr} is stored as a mutable container", robust=True)
                        else:
                            ctx.ok("C08-R7", fi.where, f"hashed field {t.attr} written in constructor ({verdict} value)", node, fi)
                    elif owner_has or isinstance(t.value, ast.Name):
                        # a store to x.<field> outside a constructor: only a violation when x may be a family instance
                        if owner_has or not _receiver_foreign(repo, fi, t, family):
                            ctx.violation("C08-R7", fi, node, f"field {t.attr} (read by __eq__/__hash__) is assigned outside a constructor: hash may change during the object's lifetime", robust=True)
            if isinstance(node, ast.Call):
                cn = call_name(node)
                if cn in (("setattr",), ("object", "__setattr__")) and len(node.args) >= 2 and isinstance(node.args[1], ast.Constant) and node.args[1].value in allf:
                    ctx.violation("C08-R7", fi, node, f"setattr on hashed field {node.args[1].value}", robust=True)
                # in-place mutation of a hashed field value
                if cn and len(cn) == 3 and cn[1] in allf and cn[1] not in immutable_fields and cn[2] in MUTATORS and fi.cls is not None and fi.cls.name in family:
                    ctx.violation("C08-R7", fi, node, f"in-place mutation of hashed field {cn[1]}", robust=True)
    if stores == 0:
        raise AnalysisError("C08-R7: no constructor store of a hashed field found")


MUTATORS = {"append", "extend", "insert", "pop", "remove", "clear", "update", "setdefault", "popitem", "sort", "reverse", "add", "discard",
            "difference_update", "intersection_update", "symmetric_difference_update"}


def _receiver_foreign(repo: Repo, fi: FuncInfo, target: ast.Attribute, family: Set[str]) -> bool:
    """True when the receiver of the store is 'self' of a class outside the family
    (another class that happens to use the same attribute name)."""
    ch = attr_chain(target)
    if ch and ch[0] in ("self", "cls") and fi.cls is not None and fi.cls.name not in family:
        return True
    return False


def immut_class(repo: Repo, fi: FuncInfo, val: ast.AST) -> str:
    if isinstance(val, ast.IfExp):
        a, b = immut_class(repo, fi, val.body), immut_class(repo, fi, val.orelse)
        # ``x if isinstance(x, frozenset) else frozenset(x)``
        if isinstance(val.test, ast.Call) and call_name(val.test) == ("isinstance",) and len(val.test.args) == 2:
            tname = unparse(val.test.args[1])
            if tname in ("frozenset", "tuple") and isinstance(val.body, ast.Name):
                a = "immutable"
        if "mutable" in (a, b):
            return "mutable"
        return "immutable" if a == b == "immutable" else "unknown"
    if isinstance(val, ast.Call):
        cn = call_name(val)
        if cn in (("frozenset",), ("tuple",)):
            return "immutable"
        if cn in (("set",), ("list",), ("dict",), ("sorted",)):
            return "mutable"
        if cn and len(cn) == 1 and repo.has_cls(cn[0]) and has_value_base(repo, cn[0]):
            return "immutable"
    if isinstance(val, (ast.List, ast.ListComp, ast.Set, ast.SetComp, ast.Dict, ast.DictComp)):
        return "mutable"
    if isinstance(val, (ast.Tuple, ast.Constant)):
        return "immutable"
    if isinstance(val, ast.Name):
        ann = fi.annotation(val.id)
        if ann is not None:
            txt = unparse(ann).strip("'\"")
            base = txt.split("[")[0].split(".")[-1]
            if repo.has_cls(base) and has_value_base(repo, base):
                return "immutable"
            if base in ("int", "str", "tuple", "Tuple", "frozenset", "FrozenSet"):
                return "immutable"
            if base in ("list", "List", "set", "Set", "dict", "Dict"):
                return "mutable"
    return "unknown"


# ------------------------------------------------------------------ thorough tier


GENERIC_FILES = ['permuta/patterns/perm.py', 'permuta/patterns/meshpatt.py', 'permuta/patterns/bivincularpatt.py', 'permuta/perm_sets/basis.py']


def variants():
    from ..selftest import generic_equiv, generic_silent

    return _variants() + generic_silent(GENERIC_FILES) + generic_equiv(GENERIC_FILES)


def _variants():
    from ..selftest import V, insert_stmt, reformat_only, remove_def, rename_local, replace_expr, replace_stmt

    MP, BV, BA, PE = "permuta/patterns/meshpatt.py", "permuta/patterns/bivincularpatt.py", "permuta/perm_sets/basis.py", "permuta/patterns/perm.py"
    return [
        # ---- must fire
        V("biv-hash-super-proxy", replace_expr(BV, "BivincularPatt.__hash__", "super().__hash__()", "hash(super())"), "fire", "C08-R2", "the original defect"),
        V("mesh-hash-id", replace_expr(MP, "MeshPatt.__hash__", "hash((self.pattern, self.shading))", "hash((self.pattern, id(self)))"), "fire", "C08-R2"),
        V("mesh-hash-bound-method", replace_expr(MP, "MeshPatt.__hash__", "hash((self.pattern, self.shading))", "hash((self.pattern, self.rank))"), "fire", "C08-R2"),
        V("biv-drop-hash", remove_def(BV, "BivincularPatt.__hash__"), "fire", "C08-R1"),
        V("mesh-eq-ignores-shading", replace_expr(MP, "MeshPatt.__eq__", "self.shading == other.shading and self.pattern == other.pattern", "self.pattern == other.pattern"), "fire", "C08-R3"),
        V("mesh-eq-self-self", replace_expr(MP, "MeshPatt.__eq__", "self.shading == other.shading", "self.shading == self.shading"), "fire", "C08-R3"),
        V("biv-own-hash", replace_expr(BV, "BivincularPatt.__hash__", "super().__hash__()", "hash((self.pattern, tuple(sorted(self.shading))))"), "fire", "C08-R4"),
        V("mesh-hash-class", replace_expr(MP, "MeshPatt.__hash__", "hash((self.pattern, self.shading))", "hash((self.__class__, self.pattern, self.shading))"), "fire", "C08-R4"),
        V("mesh-lt-dynamic-guard", replace_expr(MP, "MeshPatt.__lt__", "isinstance(other, MeshPatt)", "isinstance(other, self.__class__)"), "fire", "C08-R5", "the original defect"),
        V("mesh-ge-guard-biv", replace_expr(MP, "MeshPatt.__ge__", "isinstance(other, MeshPatt)", "isinstance(other, type(self))"), "fire", "C08-R5"),
        V("mesh-lt-raw-frozenset", replace_expr(MP, "MeshPatt.__lt__", "(self.pattern, sorted(self.shading))", "(self.pattern, self.shading)"), "fire", "C08-R6"),
        V("mesh-le-strict", replace_stmt(MP, "MeshPatt.__le__", "return (self.pattern, sorted(self.shading)) <= (other.pattern, sorted(other.shading))",
                                       "return (self.pattern, sorted(self.shading)) < (other.pattern, sorted(other.shading))"), "fire", "C08-R6"),
        V("perm-lt-no-length", [replace_expr(PE, "Perm.__lt__", "(len(self), tuple(self))", "tuple(self)"), replace_expr(PE, "Perm.__lt__", "(len(other), tuple(other))", "tuple(other)"),
                                replace_expr(PE, "Perm.__le__", "(len(self), tuple(self))", "tuple(self)"), replace_expr(PE, "Perm.__le__", "(len(other), tuple(other))", "tuple(other)")], "fire", "C08-R6"),
        V("mesh-gt-reflects-le", replace_expr(MP, "MeshPatt.__gt__", "other.__lt__(self)", "other.__le__(self)"), "fire", "C08-R6"),
        V("mesh-order-drops-shading", [replace_expr(MP, "MeshPatt.__lt__", "(self.pattern, sorted(self.shading)) < (other.pattern, sorted(other.shading))", "(self.pattern,) < (other.pattern,)"),
                                       replace_expr(MP, "MeshPatt.__le__", "(self.pattern, sorted(self.shading)) <= (other.pattern, sorted(other.shading))", "(self.pattern,) <= (other.pattern,)")], "fire", "C08-R6"),
        V("mesh-shade-in-place", replace_stmt(MP, "MeshPatt.shade", "return MeshPatt(self.pattern, self.shading | set(positions))", "self.shading = self.shading | set(positions)\nreturn self"), "fire", "C08-R7"),
        V("mesh-init-mutable-shading", replace_stmt(MP, "MeshPatt.__init__", "self.shading = shading if isinstance(shading, frozenset) else frozenset(shading)", "self.shading = set(shading)"), "fire", "C08-R7"),
        V("basis-eq-no-hash", remove_def(BA, "Basis.__hash__"), "fire", "C08-R1"),
        V("basis-hash-id", replace_expr(BA, "MeshBasis.__hash__", "tuple.__hash__(self)", "id(self)"), "fire", "C08-R2"),
        # ---- must stay silent
        V("mesh-shading-kept-as-set", replace_expr(MP, "MeshPatt.__init__", "isinstance(shading, frozenset)", "isinstance(shading, (set, frozenset))"), "fire", "C08-R9"),
        V("mesh-shading-stored-as-set", replace_expr(MP, "MeshPatt.__init__", "shading if isinstance(shading, frozenset) else frozenset(shading)", "set(shading)"), "fire", "C08-R9"),
        V("mesh-shading-always-converted", replace_expr(MP, "MeshPatt.__init__", "shading if isinstance(shading, frozenset) else frozenset(shading)", "frozenset(shading)"), "silent"),
        V("reformat-meshpatt", reformat_only(MP), "silent"),
        V("mesh-hash-subset", replace_expr(MP, "MeshPatt.__hash__", "hash((self.pattern, self.shading))", "hash(self.pattern)"), "silent", note="hashing fewer fields than compared is coherent"),
        V("mesh-hash-xor", replace_expr(MP, "MeshPatt.__hash__", "hash((self.pattern, self.shading))", "hash(self.pattern) ^ hash(self.shading)"), "silent"),
        V("mesh-eq-swapped-sides", replace_expr(MP, "MeshPatt.__eq__", "self.shading == other.shading", "other.shading == self.shading"), "silent"),
        V("biv-hash-explicit-base", replace_expr(BV, "BivincularPatt.__hash__", "super().__hash__()", "MeshPatt.__hash__(self)"), "silent"),
        V("mesh-gt-direct", replace_stmt(MP, "MeshPatt.__gt__", "return other.__lt__(self)", "return (self.pattern, sorted(self.shading)) > (other.pattern, sorted(other.shading))"), "silent"),
        V("rename-other", rename_local(MP, "MeshPatt.__lt__", "other", "rhs"), "silent"),
        V("perm-le-cascaded-correct", replace_stmt(PE, "Perm.__le__", "return (len(self), tuple(self)) <= (len(other), tuple(other))",
                                                   "if len(self) != len(other):\n    return len(self) < len(other)\nreturn tuple(self) <= tuple(other)"), "silent", note="a correct case analysis is the same order on all abstract cases"),
        V("basis-ne-removed", remove_def("permuta/perm_sets/basis.py", "Basis.__ne__"), "fire", "C08-R8", note="the defect repaired by d901eef"),
        V("meshbasis-ne-other-spelling", replace_stmt("permuta/perm_sets/basis.py", "MeshBasis.__ne__", "return not self == other", "return not self.__eq__(other)"), "silent"),
        V("mesh-hash-starred-set", replace_expr(MP, "MeshPatt.__hash__", "hash((self.pattern, self.shading))", "hash((self.pattern, *self.shading))"), "fire", "C08-R2"),
        V("perm-le-tuple-dunder-wrong", replace_stmt(PE, "Perm.__le__", "return (len(self), tuple(self)) <= (len(other), tuple(other))", "return len(self) < len(other) or tuple.__le__(self, other)"), "fire", "C08-R6"),
        V("perm-le-tuple-dunder-right", replace_stmt(PE, "Perm.__le__", "return (len(self), tuple(self)) <= (len(other), tuple(other))", "return len(self) < len(other) or (len(self) == len(other) and tuple.__le__(self, other))"), "silent"),
        V("perm-le-cascaded-wrong", replace_stmt(PE, "Perm.__le__", "return (len(self), tuple(self)) <= (len(other), tuple(other))",
                                                 "if len(self) < len(other):\n    return True\nreturn tuple(self) <= tuple(other)"), "fire", "C08-R6"),
        V("mesh-lt-components-swapped", [replace_expr(MP, "MeshPatt.__lt__", "(self.pattern, sorted(self.shading)) < (other.pattern, sorted(other.shading))", "(sorted(self.shading), self.pattern) < (sorted(other.shading), other.pattern)")], "fire", "C08-R6", note="__lt__ and __le__ would then order by different keys"),
        V("mesh-eq-guard-meshpatt", replace_expr(MP, "MeshPatt.__eq__", "isinstance(other, self.__class__)", "isinstance(other, MeshPatt)"), "silent"),
    ]


# ------------------------------------------------------------------ R8: `!=` is the negation of `==`


BUILTIN_WITH_NE = {"tuple", "Tuple", "list", "List", "frozenset", "FrozenSet", "set", "Set", "dict", "Dict", "str", "int", "bytes", "float"}


def rule_r8(ctx: Ctx, classes: List[ClassInfo]) -> None:
    """Python derives `!=` from `__eq__` only when no class of the MRO other than `object` defines `__ne__`.  The builtin
    containers and numbers do define it: a subclass of tuple / frozenset / ... that overrides `__eq__` without `__ne__`
    keeps the builtin `!=`, so `a == b` and `a != b` can both be False (or both True)."""
    repo = ctx.repo
    n = 0
    for ci in classes:
        if "__eq__" not in ci.methods:
            continue
        n += 1
        mro = repo.mro(ci.name)
        has_ne = any("__ne__" in k.methods or "__ne__" in k.assigns for k in mro)
        builtin = sorted({b.split("[")[0] for k in mro for b in k.base_names} & BUILTIN_WITH_NE)
        if has_ne:
            ctx.ok("C08-R8", ci.where, "defines __ne__ together with __eq__", ci.methods["__eq__"].node, ci.methods["__eq__"])
        elif builtin:
            ctx.violation("C08-R8", ci.methods["__eq__"], ci.methods["__eq__"].node,
                          f"{ci.name} overrides __eq__ but inherits `!=` from {builtin[0]}: for an operand its __eq__ rejects (another kind of object with the same entries) both `==` and `!=` are False",
                          tag="ne-not-negation-of-eq", robust=True)
        else:
            ctx.ok("C08-R8", ci.where, "`!=` is derived from __eq__ (no base class defines __ne__)", ci.methods["__eq__"].node, ci.methods["__eq__"])
    if n == 0:
        raise AnalysisError("no class with __eq__ in scope")


_OLD_RUN_R8 = run


def run(ctx: Ctx) -> None:  # noqa: F811
    _OLD_RUN_R8(ctx)
    ctx.run(rule_r8, ctx, in_scope(ctx.repo))


FLOORS["C08-R8"] = 3


# ------------------------------------------------------------------ R9: what __hash__ / __eq__ read is stored as an immutable value

_MUTABLE_BUILTINS = {"set", "list", "dict", "bytearray", "deque", "defaultdict", "Counter", "OrderedDict"}


def rule_r9(ctx: Ctx, classes: List[ClassInfo]) -> None:
    """A field that hash and equality read must hold a hashable value that nobody else can change: the constructor stores it
    through an immutable constructor (frozenset(..), tuple(..), ...) or keeps the argument only when it already is one.
    Positive evidence of the contrary – the stored value is a set / list / dict display or constructor call, or the argument is
    kept as it is under an isinstance test that admits a mutable builtin type – is a violation: the object becomes unhashable
    (all_syms, sets of patterns, Av's instance map fail) and aliases the caller's container."""
    repo = ctx.repo
    for ci in classes:
        hf = effective(repo, ci.name, "__hash__")
        if hf is None or hf.cls is not ci:
            continue
        info = analyse_hash(repo, hf)
        fields = {f for f in info.fields if not f.startswith("<")}
        for ctor_name in ("__init__", "__new__"):
            ctor = ci.methods.get(ctor_name)
            if ctor is None:
                continue
            self_n = ctor.params[0]
            for st in walk_no_nested(ctor.node):
                if not (isinstance(st, (ast.Assign, ast.AnnAssign)) and st.value is not None):
                    continue
                tgts = st.targets if isinstance(st, ast.Assign) else [st.target]
                for t in tgts:
                    ch = attr_chain(t)
                    if not (ch and len(ch) == 2 and ch[0] == self_n and ch[1] in fields):
                        continue
                    bad = _mutable_evidence(st.value)
                    if bad:
                        ctx.violation("C08-R9", ctor, st, f"{ci.name}.{ch[1]} is read by __hash__ / __eq__ but {bad}: the object can be unhashable and shares a container the caller can still change", robust=True)
                    else:
                        ctx.ok("C08-R9", ctor.where, f"no mutable container is stored in hashed field {ch[1]} (`{unparse(st.value)[:60]}`)", st, ctor)


def _mutable_evidence(v: ast.AST) -> Optional[str]:
    if isinstance(v, (ast.Set, ast.List, ast.Dict, ast.SetComp, ast.ListComp, ast.DictComp)):
        return f"`{unparse(v)[:50]}` is a mutable display"
    if isinstance(v, ast.Call) and isinstance(v.func, ast.Name) and v.func.id in _MUTABLE_BUILTINS:
        return f"`{unparse(v)[:50]}` builds a mutable container"
    if isinstance(v, ast.IfExp):
        # X if isinstance(X, T) else frozenset(X): the kept branch must not admit a mutable builtin
        for kept, test, positive in ((v.body, v.test, True), (v.orelse, v.test, False)):
            if isinstance(kept, ast.Name) and isinstance(test, ast.Call) and isinstance(test.func, ast.Name) and test.func.id == "isinstance" and len(test.args) == 2 \
                    and isinstance(test.args[0], ast.Name) and test.args[0].id == kept.id and positive:
                types = test.args[1].elts if isinstance(test.args[1], ast.Tuple) else [test.args[1]]
                muts = [unparse(x) for x in types if isinstance(x, ast.Name) and x.id in _MUTABLE_BUILTINS]
                if muts:
                    return f"the argument is kept as it is when it is a {' / '.join(muts)} (`{unparse(test)}`)"
        return _mutable_evidence(v.body) or _mutable_evidence(v.orelse)
    return None


_OLD_RUN_R9 = run


def run(ctx: Ctx) -> None:  # noqa: F811
    _OLD_RUN_R9(ctx)
    ctx.run(rule_r9, ctx, in_scope(ctx.repo))


FLOORS["C08-R9"] = 1
