"""C19 – reported enumeration strategies follow their stated conditions and symmetries."""

from __future__ import annotations

import ast
from typing import Dict, List, Optional, Set, Tuple

from .. import oneshot
from ..core import deviates, AnalysisError, ClassInfo, FuncInfo, ModuleInfo, Repo, attr_chain, call_name, unparse, walk_no_nested
from ..report import Ctx
from ..skelrules import check_skeleton

PROP = "C19"
FLOORS = {"C19-S1": 9, "C19-S2": 1, "C19-S3": 12, "C19-S4": 2, "C19-I1": 2}

EXPLANATION = (
    "Decided: (a) core strategies are tried on every symmetry of the basis (S1: the wrapper is Exists over all_symmetry_sets(basis), no core strategy "
    "overrides it; the orbit itself is the whole of D4 by C04-A4); (b) each core strategy = required patterns excluded from the class And every other "
    "basis element passes that strategy's shape test (S2, skeleton); (c) the quick search returns the slow search's result minus the slow strategies "
    "(S3: registry – every concrete strategy in exactly one of fast/long, core list complete, all = fast + long, same per-strategy step); (d) unchanged "
    "by reordering/repeating/container form (frozenset normalisation + one-shot discipline I1); S4 the two non-core strategies reach their class tests "
    "with the stored basis. NOT decided: the shape helpers (fstrip, bstrip, last_sum_component, ...), that each patterns_needed set is the one of the "
    "cited corollary, symmetry invariance of the insertion-encoding and finitely-many-simples tests."
)

ABSTRACT_BASES = ("EnumerationStrategy",)


def run(ctx: Ctx) -> None:
    ctx.run(rule_s1, ctx)
    ctx.run(rule_s2, ctx)
    ctx.run(rule_s3, ctx)
    ctx.run(rule_s4, ctx)
    ctx.run(oneshot.report, ctx, "C19-I1", ["permuta.enumeration_strategies"], ["find_strategies", "EnumerationStrategy.__init__"])


def abstract_names(repo: Repo, ci: ClassInfo) -> Set[str]:
    """Names still abstract in class ci."""
    pending: Set[str] = set()
    for c in reversed(repo.mro(ci.name)):
        for name, m in c.methods.items():
            if any(d.split(".")[-1] == "abstractmethod" for d in m.decorators):
                pending.add(name)
            else:
                pending.discard(name)
        for name in c.assigns:
            pending.discard(name)
    return pending


def concrete_strategies(repo: Repo) -> List[ClassInfo]:
    return [c for c in repo.subclasses("EnumerationStrategy", strict=True) if not abstract_names(repo, c)]


def rule_s1(ctx: Ctx) -> None:
    repo = ctx.repo
    wrap = repo.need_method("EnumerationStrategyWithSymmetry", "applies")
    specs = [
        "syms = map(frozenset, all_symmetry_sets(self._basis))\nreturn next((True for b in syms if self._applies_to_symmetry(b)), False)",
        "return any(self._applies_to_symmetry(frozenset(b)) for b in all_symmetry_sets(self._basis))",
        "return any(self._applies_to_symmetry(b) for b in map(frozenset, all_symmetry_sets(self.basis)))",
    ]
    ctx.run(check_skeleton, ctx, "C19-S1", wrap, specs, "applies = Exists b in symmetries(basis): _applies_to_symmetry(b)", required_calls=["all_symmetry_sets", "_applies_to_symmetry"])
    r = repo.resolve_name(wrap.module, "all_symmetry_sets")
    if isinstance(r, FuncInfo) and r.where == "permuta.permutils.symmetry:all_symmetry_sets":
        ctx.ok("C19-S1", wrap.where, "all_symmetry_sets resolves to permutils.symmetry.all_symmetry_sets (orbit decided under C04-A4)")
    else:
        raise AnalysisError(f"{wrap.where}: all_symmetry_sets does not resolve to the orbit builder")
    init = repo.need_method("EnumerationStrategy", "__init__")
    stores = [st for st in init.body if isinstance(st, ast.Assign) and unparse(st.targets[0]) == "self._basis"]
    if len(stores) == 1 and unparse(stores[0].value) == f"frozenset({init.params[1]})":
        ctx.ok("C19-S1", init.where, "the basis is stored as a frozenset: order and repetition cannot matter", stores[0], init)
    elif len(stores) == 1:
        ctx.violation("C19-S1", init, stores[0], f"basis stored as `{unparse(stores[0].value)}`: the report may depend on order/repetition of basis elements", robust=True)
    else:
        raise AnalysisError(f"{init.where}: store of the basis not recognised")
    prop = repo.need_method("EnumerationStrategy", "basis")
    ctx.run(check_skeleton, ctx, "C19-S1", prop, ["return self._basis"], "basis property returns the stored frozenset")
    cores = [c for c in repo.subclasses("CoreStrategy", strict=True)]
    if not cores:
        raise AnalysisError("no CoreStrategy subclasses")
    for c in cores:
        if "applies" in c.methods or "_applies_to_symmetry" in c.methods:
            m = c.methods.get("applies") or c.methods.get("_applies_to_symmetry")
            ctx.violation("C19-S1", m, m.node, f"{c.name} overrides {m.name}: it bypasses the symmetry wrapper / the common core test", robust=True)
            continue
        missing = [n for n in ("patterns_needed", "is_valid_extension", "corr_number") if n not in c.methods and n not in c.assigns]
        if missing:
            ctx.violation("C19-S1", c.where, c.node, f"{c.name} does not define {missing}", file=c.module.relpath, robust=True)
        else:
            ctx.ok("C19-S1", c.where, "defines patterns_needed, is_valid_extension, corr_number; inherits applies and _applies_to_symmetry")


def rule_s2(ctx: Ctx) -> None:
    repo = ctx.repo
    f = repo.need_method("CoreStrategy", "_applies_to_symmetry")
    specs = []
    for guard in ("assert isinstance(a0, frozenset)\n", ""):
        specs.append(guard + "pc = Av.from_iterable(a0)\nreturn all(p not in pc for p in self.patterns_needed) and all(self.is_valid_extension(q) for q in a0.difference(self.patterns_needed))")
        specs.append(guard + "pc = Av(a0)\nreturn all(p not in pc for p in self.patterns_needed) and all(self.is_valid_extension(q) for q in a0.difference(self.patterns_needed))")
        specs.append(guard + "pc = Av.from_iterable(a0)\nreturn all(p not in pc for p in self.patterns_needed) and all(self.is_valid_extension(q) for q in a0 - self.patterns_needed)")
    ctx.run(check_skeleton, ctx, "C19-S2", f, specs, "core test = (Forall p in needed: p not in Av(b)) And (Forall q in b - needed: is_valid_extension(q))")


def eval_list(repo: Repo, mod: ModuleInfo, name: str, depth: int = 0) -> Optional[List[str]]:
    """Abstractly evaluate a module-level list of class names (literal, +, .extend)."""
    if depth > 5:
        return None
    if name in mod.imports and name not in mod.assigns:
        src, orig = mod.imports[name]
        target = repo.modules.get(src)
        if target is None or orig is None:
            return None
        return eval_list(repo, target, orig, depth + 1)
    val = mod.assigns.get(name)
    if val is None:
        return None
    out = eval_list_expr(repo, mod, val, depth)
    if out is None:
        return None
    # later ``name.extend(x)`` / ``name.append(x)`` / ``name += x`` statements at module level
    seen_def = False
    for st in mod.tree.body:
        if st is mod.assign_nodes.get(name):
            seen_def = True
            continue
        if not seen_def:
            continue
        if isinstance(st, ast.Expr) and isinstance(st.value, ast.Call):
            cn = call_name(st.value)
            if cn and cn[0] == name and cn[-1] == "extend" and len(st.value.args) == 1:
                ext = eval_list_expr(repo, mod, st.value.args[0], depth)
                if ext is None:
                    return None
                out = out + ext
            elif cn and cn[0] == name and cn[-1] == "append" and len(st.value.args) == 1 and isinstance(st.value.args[0], ast.Name):
                out = out + [st.value.args[0].id]
            elif cn and cn[0] == name:
                return None
        if isinstance(st, ast.AugAssign) and isinstance(st.target, ast.Name) and st.target.id == name:
            ext = eval_list_expr(repo, mod, st.value, depth)
            if ext is None or not isinstance(st.op, ast.Add):
                return None
            out = out + ext
    return out


def eval_list_expr(repo: Repo, mod: ModuleInfo, val: ast.AST, depth: int) -> Optional[List[str]]:
    if isinstance(val, (ast.List, ast.Tuple)):
        out: List[str] = []
        for e in val.elts:
            if isinstance(e, ast.Name):
                out.append(e.id)
            elif isinstance(e, ast.Starred) and isinstance(e.value, ast.Name):
                sub = eval_list(repo, mod, e.value.id, depth + 1)
                if sub is None:
                    return None
                out += sub
            else:
                return None
        return out
    if isinstance(val, ast.Name):
        return eval_list(repo, mod, val.id, depth + 1)
    if isinstance(val, ast.BinOp) and isinstance(val.op, ast.Add):
        a, b = eval_list_expr(repo, mod, val.left, depth), eval_list_expr(repo, mod, val.right, depth)
        if a is None or b is None:
            return None
        return a + b
    if isinstance(val, ast.Call) and call_name(val) == ("list",) and len(val.args) == 1:
        return eval_list_expr(repo, mod, val.args[0], depth)
    return None


def rule_s3(ctx: Ctx) -> None:
    repo = ctx.repo
    pkg = repo.module("permuta.enumeration_strategies")
    concrete = concrete_strategies(repo)
    names = {c.name for c in concrete}
    if len(names) < 3:
        raise AnalysisError("fewer than three concrete strategies found")
    fast = eval_list(repo, pkg, "fast_enumeration_strategies")
    long_ = eval_list(repo, pkg, "long_enumeration_strategies")
    all_ = eval_list(repo, pkg, "all_enumeration_strategies")
    core_mod = repo.module("permuta.enumeration_strategies.core_strategies")
    core = eval_list(repo, core_mod, "core_strategies")
    if None in (fast, long_, all_, core):
        raise AnalysisError("strategy lists are not evaluable (literal / + / extend)")
    for c in sorted(names):
        n_fast, n_long = fast.count(c), long_.count(c)
        where = repo.cls(c).where
        if n_fast + n_long == 1:
            ctx.ok("C19-S3", where, f"registered once ({'fast' if n_fast else 'long'})")
        elif n_fast + n_long == 0:
            ctx.violation("C19-S3", where, repo.cls(c).node, f"concrete strategy {c} is in neither fast_enumeration_strategies nor long_enumeration_strategies: it is never reported", file=repo.cls(c).module.relpath)
        else:
            ctx.violation("C19-S3", pkg.name + ":fast/long_enumeration_strategies", pkg.assign_nodes["fast_enumeration_strategies"], f"{c} is registered {n_fast + n_long} times", file=pkg.relpath)
    core_concrete = sorted(c.name for c in concrete if "CoreStrategy" in {k.name for k in repo.mro(c.name)})
    if sorted(core) == core_concrete:
        ctx.ok("C19-S3", core_mod.name + ":core_strategies", f"lists every concrete CoreStrategy once ({len(core)})")
    else:
        missing = sorted(set(core_concrete) - set(core))
        dup = sorted({c for c in core if core.count(c) > 1})
        extra = sorted(set(core) - set(core_concrete))
        ctx.violation("C19-S3", core_mod.name + ":core_strategies", core_mod.assign_nodes["core_strategies"], f"core_strategies is not exactly the concrete core strategies: missing {missing}, duplicated {dup}, foreign {extra}", file=core_mod.relpath)
    for lst_name, lst in (("fast", fast), ("long", long_)):
        foreign = [c for c in lst if c not in names]
        if foreign:
            ctx.violation("C19-S3", pkg.name + f":{lst_name}_enumeration_strategies", pkg.assign_nodes[f"{lst_name}_enumeration_strategies"], f"{foreign} are not concrete strategies", file=pkg.relpath)
    if all_ == fast + long_ or sorted(all_) == sorted(fast + long_):
        ctx.ok("C19-S3", pkg.name + ":all_enumeration_strategies", f"all = fast + long ({len(all_)} strategies)")
    else:
        ctx.violation("C19-S3", pkg.name + ":all_enumeration_strategies", pkg.assign_nodes["all_enumeration_strategies"], "all_enumeration_strategies is not fast + long: the quick search is not the slow search minus the slow strategies", file=pkg.relpath)
    # find_strategies
    fs = pkg.functions.get("find_strategies")
    if fs is None:
        raise AnalysisError("find_strategies vanished")
    flag = fs.params[1]
    sel_names = set()
    p = n = None
    s = None
    # written as a conditional expression (the canonical form) or as an if/else statement
    for st in fs.body:
        if isinstance(st, (ast.Assign, ast.AnnAssign)) and isinstance(st.value, ast.IfExp) and unparse(st.value.test) in (flag, f"not {flag}"):
            tgt = st.target if isinstance(st, ast.AnnAssign) else st.targets[0]
            sel_names.add(unparse(tgt))
            p, n = (unparse(st.value.body), unparse(st.value.orelse)) if unparse(st.value.test) == flag else (unparse(st.value.orelse), unparse(st.value.body))
            s = st
    if s is None:
        sel = [st for st in fs.body if isinstance(st, ast.If) and unparse(st.test) in (flag, f"not {flag}")]
        if len(sel) != 1:
            raise AnalysisError(f"{fs.where}: strategy-list selection not recognised")
        s = sel[0]
        pos_branch, neg_branch = (s.body, s.orelse) if unparse(s.test) == flag else (s.orelse, s.body)

        def chosen(branch) -> Optional[str]:
            if len(branch) == 1 and isinstance(branch[0], (ast.Assign, ast.AnnAssign)) and branch[0].value is not None:
                tgt = branch[0].target if isinstance(branch[0], ast.AnnAssign) else branch[0].targets[0]
                sel_names.add(unparse(tgt))
                return unparse(branch[0].value)
            return None

        p, n = chosen(pos_branch), chosen(neg_branch)
    registry = {"all_enumeration_strategies", "fast_enumeration_strategies", "long_enumeration_strategies", "core_strategies"}
    if p == "all_enumeration_strategies" and n == "fast_enumeration_strategies":
        ctx.ok("C19-S3", fs.where, f"{flag} -> all strategies; not {flag} -> fast strategies", s, fs)
    elif p in registry and n in registry:
        ctx.violation("C19-S3", fs, s, f"{flag} selects `{p}`, not {flag} selects `{n}`: expected all_enumeration_strategies / fast_enumeration_strategies", robust=True)
    else:
        raise AnalysisError(f"{fs.where}: selection branches not recognised")
    loops = [st for st in fs.body if isinstance(st, ast.For)]
    if len(loops) != 1:
        raise AnalysisError(f"{fs.where}: expected one loop over strategies")
    lp = loops[0]
    var = unparse(lp.target)
    obj = None
    ok = False
    for st in lp.body:
        if isinstance(st, ast.Assign) and isinstance(st.value, ast.Call) and unparse(st.value.func) == var and len(st.value.args) == 1:
            obj = unparse(st.targets[0])
        if isinstance(st, ast.If) and obj is not None and unparse(st.test) == f"{obj}.applies()" and len(st.body) == 1 and isinstance(st.body[0], ast.Expr) and isinstance(st.body[0].value, ast.Call) and call_name(st.body[0].value) and call_name(st.body[0].value)[-1] == "append" and [unparse(a) for a in st.body[0].value.args] == [obj] and not st.orelse:
            ok = True
    if ok and len(sel_names) == 1 and unparse(lp.iter) in sel_names:
        ctx.ok("C19-S3", fs.where, "same step for every selected strategy: construct on the basis, keep iff applies()", lp, fs)
    else:
        def flat(st) -> str:
            if isinstance(st, ast.If) and not st.orelse:
                return f"if {unparse(st.test)}: " + "; ".join(flat(x) for x in st.body)
            return unparse(st)
        acc0 = next((unparse(x.func.value) for x in ast.walk(lp) if isinstance(x, ast.Call) and isinstance(x.func, ast.Attribute) and x.func.attr == "append"), "working_strategies")
        o = obj or "strategy_object"
        deviates(ctx, "C19-S3", fs, lp, f"for {var} in {unparse(lp.iter)}: " + "; ".join(flat(x) for x in lp.body),
                 [f"for {var} in {nm}: {o} = {var}({fs.params[0]}); if {o}.applies(): {acc0}.append({o})" for nm in (sel_names or {"strategies"})],
                 "the per-strategy step is not `obj = strategy(basis); if obj.applies(): keep obj` over the selected list", k=3)
    accs = [unparse(n.func.value) for n in ast.walk(lp) if isinstance(n, ast.Call) and isinstance(n.func, ast.Attribute) and n.func.attr == "append"]
    last = fs.body[-1]
    if len(accs) == 1 and isinstance(last, ast.Return) and last.value is not None and unparse(last.value) in (accs[0], f"list({accs[0]})"):
        ctx.ok("C19-S3", fs.where, f"the strategies that apply (`{accs[0]}`) are what is returned, in registry order", last, fs)
    else:
        ctx.violation("C19-S3", fs, last, f"find_strategies does not end by returning the collected strategies")


def rule_s4(ctx: Ctx) -> None:
    repo = ctx.repo
    ie = repo.need_method("InsertionEncodingStrategy", "applies")
    ctx.run(check_skeleton, ctx, "C19-S4", ie, [
        "return InsertionEncodablePerms.is_insertion_encodable(self.basis) or InsertionEncodablePerms.is_insertion_encodable(rotate_90_clockwise_set(self.basis))",
        "return InsertionEncodablePerms.is_insertion_encodable(self.basis)",
        "return is_insertion_encodable(self.basis)",
    ], "insertion-encoding strategy applies iff the class test succeeds (for the basis or its quarter turn)", required_calls=["is_insertion_encodable"])
    fm = repo.need_method("FinitelyManySimplesStrategy", "applies")
    ctx.run(check_skeleton, ctx, "C19-S4", fm, ["return PinWords.has_finite_simples(self.basis)"], "finitely-many-simples strategy applies iff PinWords.has_finite_simples(basis)", required_calls=["has_finite_simples"])


GENERIC_FILES = ['permuta/enumeration_strategies/__init__.py', 'permuta/enumeration_strategies/abstract_strategy.py', 'permuta/enumeration_strategies/core_strategies.py', 'permuta/enumeration_strategies/insertion_encodable.py', 'permuta/enumeration_strategies/finitely_many_simples.py']


def variants():
    from ..selftest import generic_equiv, generic_silent

    return _variants() + generic_silent(GENERIC_FILES) + generic_equiv(GENERIC_FILES)


def _variants():
    from ..selftest import V, insert_stmt, reformat_only, rename_local, replace_expr, replace_stmt

    IN, AB, CO, IE, FM = ("permuta/enumeration_strategies/__init__.py", "permuta/enumeration_strategies/abstract_strategy.py", "permuta/enumeration_strategies/core_strategies.py",
                          "permuta/enumeration_strategies/insertion_encodable.py", "permuta/enumeration_strategies/finitely_many_simples.py")
    return [
        V("wrapper-only-identity", replace_expr(AB, "EnumerationStrategyWithSymmetry.applies", "map(frozenset, all_symmetry_sets(self._basis))", "map(frozenset, [self._basis])"), "fire", "C19-S1"),
        V("wrapper-all-symmetries", replace_stmt(AB, "EnumerationStrategyWithSymmetry.applies", "return next((True for b in syms if self._applies_to_symmetry(b)), False)", "return all((self._applies_to_symmetry(b) for b in syms))"), "fire", "C19-S1"),
        V("wrapper-negated", replace_stmt(AB, "EnumerationStrategyWithSymmetry.applies", "return next((True for b in syms if self._applies_to_symmetry(b)), False)", "return next((True for b in syms if not self._applies_to_symmetry(b)), False)"), "fire", "C19-S1"),
        V("basis-stored-as-tuple", replace_expr(AB, "EnumerationStrategy.__init__", "frozenset(basis)", "tuple(basis)"), "fire", "C19-S1"),
        V("core-overrides-applies", insert_stmt(CO, "RdCuCoreStrategy", "corr_number: ClassVar[str] = '8.3'", "def applies(self):\n    return self._applies_to_symmetry(self._basis)", "after"), "fire", "C19-S1"),
        V("core-needed-contained", replace_expr(CO, "CoreStrategy._applies_to_symmetry", "all((p not in perm_class for p in self.patterns_needed))", "all((p in perm_class for p in self.patterns_needed))"), "fire", "C19-S2"),
        V("core-any-extension", replace_expr(CO, "CoreStrategy._applies_to_symmetry", "all((self.is_valid_extension(patt) for patt in basis.difference(self.patterns_needed)))", "any((self.is_valid_extension(patt) for patt in basis.difference(self.patterns_needed)))"), "fire", "C19-S2"),
        V("core-or", replace_expr(CO, "CoreStrategy._applies_to_symmetry", "patterns_are_contained and extensions_are_valid", "patterns_are_contained or extensions_are_valid"), "fire", "C19-S2"),
        V("core-extensions-over-whole-basis", replace_expr(CO, "CoreStrategy._applies_to_symmetry", "basis.difference(self.patterns_needed)", "basis"), "fire", "C19-S2"),
        V("core-class-of-original-basis", replace_expr(CO, "CoreStrategy._applies_to_symmetry", "Av.from_iterable(basis)", "Av.from_iterable(self._basis)"), "fire-or-undecided", "C19-S2"),
        V("registry-core-dropped", replace_expr(CO, None, "[RuCuCoreStrategy, RdCdCoreStrategy, RuCuRdCdCoreStrategy, RuCuCdCoreStrategy, RdCdCuCoreStrategy, RdCuCoreStrategy, Rd2134CoreStrategy, Ru2143CoreStrategy]",
                                            "[RuCuCoreStrategy, RdCdCoreStrategy, RuCuRdCdCoreStrategy, RuCuCdCoreStrategy, RdCdCuCoreStrategy, RdCuCoreStrategy, Rd2134CoreStrategy]"), "fire", "C19-S3"),
        V("registry-core-duplicated", replace_expr(CO, None, "[RuCuCoreStrategy, RdCdCoreStrategy, RuCuRdCdCoreStrategy, RuCuCdCoreStrategy, RdCdCuCoreStrategy, RdCuCoreStrategy, Rd2134CoreStrategy, Ru2143CoreStrategy]",
                                                "[RuCuCoreStrategy, RdCdCoreStrategy, RuCuRdCdCoreStrategy, RuCuCdCoreStrategy, RdCdCuCoreStrategy, RdCuCoreStrategy, Rd2134CoreStrategy, Rd2134CoreStrategy]"), "fire", "C19-S3"),
        V("fast-without-insenc", replace_expr(IN, None, "[InsertionEncodingStrategy]", "[]"), "fire", "C19-S3"),
        V("quick-iterates-core", replace_stmt(IN, "find_strategies", "strategies = fast_enumeration_strategies", "strategies = core_strategies"), "fire", "C19-S3"),
        V("all-without-long", replace_expr(IN, None, "fast_enumeration_strategies + long_enumeration_strategies", "fast_enumeration_strategies + []"), "fire", "C19-S3"),
        V("find-strategies-result-dropped", replace_stmt(IN, "find_strategies", "return working_strategies", "return []"), "fire", "C19-S3"),
        V("flag-inverted", replace_expr(IN, "find_strategies", "long_runnning", "not long_runnning", which=1), "fire", "C19-S3"),
        V("keeps-non-applying", replace_expr(IN, "find_strategies", "strategy_object.applies()", "not strategy_object.applies()"), "fire", "C19-S3"),
        V("insenc-strategy-rightmost-only", replace_stmt(IE, "InsertionEncodingStrategy.applies", "return InsertionEncodablePerms.is_insertion_encodable(self.basis) or InsertionEncodablePerms.is_insertion_encodable(rotate_90_clockwise_set(self.basis))",
                                                         "return InsertionEncodablePerms.is_insertion_encodable_rightmost(self.basis)"), "fire", "C19-S4"),
        V("insenc-strategy-and", replace_stmt(IE, "InsertionEncodingStrategy.applies", "return InsertionEncodablePerms.is_insertion_encodable(self.basis) or InsertionEncodablePerms.is_insertion_encodable(rotate_90_clockwise_set(self.basis))",
                                              "return InsertionEncodablePerms.is_insertion_encodable(self.basis) and InsertionEncodablePerms.is_insertion_encodable(rotate_90_clockwise_set(self.basis))"), "fire", "C19-S4"),
        V("simples-strategy-negated", replace_expr(FM, "FinitelyManySimplesStrategy.applies", "PinWords.has_finite_simples(self.basis)", "not PinWords.has_finite_simples(self.basis)"), "fire", "C19-S4"),
        V("simples-strategy-special-only", replace_expr(FM, "FinitelyManySimplesStrategy.applies", "PinWords.has_finite_simples(self.basis)", "PinWords.has_finite_special_simples(self.basis)"), "fire", "C19-S4"),
        V("find-strategies-one-shot", replace_stmt(IN, "find_strategies", "basis = tuple(basis)", ""), "fire", "C19-I1", "the original defect"),
        V("rd2134-drops-first-entry-check", replace_expr(CO, "Rd2134CoreStrategy.is_valid_extension", "patt[0] == 0 and fstrip(patt).avoids(Rd2134CoreStrategy._M_PATT) and (last_comp not in Rd2134CoreStrategy._NON_INC or len(last_comp) == 1)",
                                                          "fstrip(patt).avoids(Rd2134CoreStrategy._M_PATT) and (last_comp not in Rd2134CoreStrategy._NON_INC or len(last_comp) == 1)"), "fire", "C19-V1"),
        V("ru2143-drops-first-entry-check", replace_stmt(CO, "Ru2143CoreStrategy.is_valid_extension", "if patt[0] != 0: ...", ""), "fire", "C19-V1", "the original defect"),
        V("skew-decomposable-misses-last-split", replace_expr("permuta/patterns/perm.py", "Perm.is_skew_decomposable", "range(1, n)", "range(1, n - 1)"), "fire", "C19-V1"),
        V("sum-decomposable-from-0", replace_expr("permuta/patterns/perm.py", "Perm.is_sum_decomposable", "range(1, len(self))", "range(0, len(self))"), "fire", "C19-V1"),
        V("zero-plus-perm-last", replace_expr(CO, "zero_plus_perm", "perm[0] == 0", "perm[-1] == 0"), "fire", "C19-V1"),
        V("rucu-extension-on-stripped", replace_expr(CO, "RuCuCoreStrategy.is_valid_extension", "zero_plus_skewind(patt)", "zero_plus_skewind(fstrip(patt))"), "fire", "C19-V1"),
        V("fstrip-strips-last", replace_expr(CO, "fstrip", "perm[0] == 0", "perm[-1] == 0"), "fire", "C19-V1"),
        V("bstrip-off-by-one", replace_expr(CO, "bstrip", "len(perm) - 1", "len(perm)"), "fire", "C19-V1"),
        V("skewind-uses-sum", replace_expr(CO, "zero_plus_skewind", "fstrip(perm).skew_decomposable()", "fstrip(perm).sum_decomposable()"), "fire-or-undecided", "C19-V1"),
        V("last-skew-target-top", replace_expr(CO, "last_skew_component", "set(range(i))", "set(range(n - i, n))"), "fire", "C19-V1"),
        V("last-sum-suffix-from-left", replace_expr(CO, "last_sum_component", "perm[n - i]", "perm[i - 1]"), "fire", "C19-V1"),
        V("rucu-extension-sumind", replace_expr(CO, "RuCuCoreStrategy.is_valid_extension", "zero_plus_skewind(patt)", "zero_plus_sumind(patt)"), "fire", "C19-V2"),
        V("rdcu-extension-drops-sumind", replace_expr(CO, "RdCuCoreStrategy.is_valid_extension", "len(patt) > 1 and zero_plus_skewind(patt) and zero_plus_sumind(bstrip(patt))", "len(patt) > 1 and zero_plus_skewind(patt)"), "fire", "C19-V2"),
        V("rdcdcu-length-guard-dropped", replace_expr(CO, "RdCdCuCoreStrategy.is_valid_extension", "len(patt) > 1 and zero_plus_sumind(bstrip(patt))", "zero_plus_sumind(bstrip(patt))"), "fire", "C19-E1", "the original defect"),
        V("rd2134-length-guard-dropped", replace_stmt(CO, "Rd2134CoreStrategy.is_valid_extension", "if len(patt) == 1: ...", ""), "fire", "C19-E1", "the original defect"),
        V("rdcdcu-length-guard-as-statement", replace_stmt(CO, "RdCdCuCoreStrategy.is_valid_extension", "return len(patt) > 1 and zero_plus_sumind(bstrip(patt))", "if len(patt) < 2:\n    return False\nreturn zero_plus_sumind(bstrip(patt))"), "nofire"),
        V("rdcdcu-extension-unstripped", replace_expr(CO, "RdCdCuCoreStrategy.is_valid_extension", "zero_plus_sumind(bstrip(patt))", "zero_plus_sumind(patt)"), "fire", "C19-V2"),
        V("ru2143-last-component-sum", replace_expr(CO, "Ru2143CoreStrategy.is_valid_extension", "last_skew_component(patt)", "last_sum_component(patt)"), "fire", "C19-V2"),
        V("rd2134-single-point-dropped", replace_expr(CO, "Rd2134CoreStrategy.is_valid_extension", "last_comp not in Rd2134CoreStrategy._NON_INC or len(last_comp) == 1", "last_comp not in Rd2134CoreStrategy._NON_INC"), "fire", "C19-V2"),
        V("ru2143-single-point-allowed", replace_expr(CO, "Ru2143CoreStrategy.is_valid_extension", "last_skew_component(patt) not in Ru2143CoreStrategy._NON_DEC", "(last_skew_component(patt) not in Ru2143CoreStrategy._NON_DEC or len(last_skew_component(patt)) == 1)"), "fire-or-undecided", "C19-V2"),
        V("rucucd-needed-wrong-column", replace_expr(CO, "RuCuCdCoreStrategy", "frozenset([R_U, C_U, C_D])", "frozenset([R_U, C_U, R_D])"), "fire", "C19-V2"),
        V("ru2143-needed-2134", replace_expr(CO, "Ru2143CoreStrategy", "Perm((1, 0, 3, 2))", "Perm((1, 0, 2, 3))"), "fire", "C19-V2"),
        V("core-pattern-cu-not-inverse", replace_expr(CO, None, "Perm((2, 0, 1, 3))", "Perm((2, 1, 0, 3))"), "fire", "C19-V2"),
        V("ru2143-mesh-cell-dropped", replace_expr(CO, "Ru2143CoreStrategy", "[(0, 1), (0, 2), (1, 0), (1, 1), (1, 2), (2, 1), (2, 2)]", "[(0, 1), (0, 2), (1, 0), (1, 1), (1, 2), (2, 1)]"), "fire", "C19-V2"),
        V("ru2143-non-dec-is-non-inc", replace_expr(CO, "Ru2143CoreStrategy", "Av.from_iterable([Perm((1, 0))])", "Av.from_iterable([Perm((0, 1))])"), "fire", "C19-V2"),
        # silent
        V("needed-as-set-display", replace_expr(CO, "RuCuCoreStrategy", "frozenset([R_U, C_U])", "frozenset({C_U, R_U})"), "silent"),
        V("non-inc-av-direct", replace_expr(CO, "Rd2134CoreStrategy", "Av.from_iterable([Perm((0, 1))])", "Av(Basis(Perm((0, 1))))"), "silent"),
        V("rd2134-early-return-form", replace_stmt(CO, "Rd2134CoreStrategy.is_valid_extension", "last_comp = last_sum_component(fstrip(patt))", "if patt[0] != 0:\n    return False\nlast_comp = last_sum_component(fstrip(patt))"), "silent"),
        V("reformat-init", reformat_only(IN), "silent"),
        V("reformat-core", reformat_only(CO), "silent"),
        V("wrapper-any-form", replace_stmt(AB, "EnumerationStrategyWithSymmetry.applies", "return next((True for b in syms if self._applies_to_symmetry(b)), False)", "return any((self._applies_to_symmetry(b) for b in syms))"), "silent"),
        V("core-minus-operator", replace_expr(CO, "CoreStrategy._applies_to_symmetry", "basis.difference(self.patterns_needed)", "basis - self.patterns_needed"), "silent"),
        V("fast-list-literal", [replace_expr(IN, None, "[InsertionEncodingStrategy]", "[InsertionEncodingStrategy, *core_strategies]"), replace_stmt(IN, None, "fast_enumeration_strategies.extend(core_strategies)", "")], "silent"),
        V("find-strategies-frozenset", replace_stmt(IN, "find_strategies", "basis = tuple(basis)", "basis = frozenset(basis)"), "silent"),
    ]


# ------------------------------------------------------------------ V1 / H1: extensions are '1 (+) something'; shape helpers


def conjuncts(t):
    if isinstance(t, tuple) and t and t[0] == "and":
        return list(t[1])
    return [t]


def requires_first_zero(term, helpers_ok: Set[str]) -> bool:
    """Does the (boolean) term imply a0[0] == 0 ?  True if some conjunct is `a0[0] == 0` or a call of a helper
    known to require it, applied to a0 (or to bstrip(a0), which keeps the first entry)."""
    for c in conjuncts(term):
        if c == ("cmp", "==", ("const", "0"), ("sub", ("name", "a0"), ("const", "0"))) or c == ("cmp", "==", ("sub", ("name", "a0"), ("const", "0")), ("const", "0")):
            return True
        if isinstance(c, tuple) and c and c[0] == "call" and c[1] is None and c[2] in helpers_ok and len(c[3]) == 1:
            arg = c[3][0]
            if arg == ("name", "a0") or (arg[0] == "call" and arg[2] == "bstrip" and arg[3] == (("name", "a0"),)):
                return True
    return False


_KNOWN_SHAPE_CALLS = {"fstrip", "bstrip", "last_sum_component", "last_skew_component", "avoids", "contains", "skew_decomposable", "sum_decomposable", "is_skew_decomposable",
                      "is_sum_decomposable", "len", "zero_plus_skewind", "zero_plus_sumind", "zero_plus_perm", "avoids_set", "is_increasing", "is_decreasing"}


def first_zero_verdict(term, helpers_ok: Set[str]) -> Optional[bool]:
    """Does the boolean skeleton imply a0[0] == 0 ?  True: in every valuation of its conditions in which the pattern does
    not start with 0 (and hence no zero_plus_* helper holds) it is False.  False: some such valuation makes it True and every
    condition is built from the shape vocabulary of the module (so the requirement is really absent).  None: not decided."""
    import itertools

    from ..skelrules import _atoms, _ev, canon_sym, strip_assuming
    from ..skeleton import vocabulary

    t = canon_sym(strip_assuming(term))
    atoms: list = []
    _atoms(t, atoms)
    if len(atoms) > 10:
        return None
    zero = ("cmp", "==", ("const", "0"), ("sub", ("name", "a0"), ("const", "0")))
    zero = canon_sym(zero)

    def is_helper(a) -> bool:
        if isinstance(a, tuple) and a and a[0] == "call" and a[1] is None and a[2] in helpers_ok and len(a[3]) == 1:
            arg = a[3][0]
            return arg == ("name", "a0") or (arg[0] == "call" and arg[2] == "bstrip" and arg[3] == (("name", "a0"),))
        return False

    forced_false = [a for a in atoms if a == zero or is_helper(a)]
    free = [a for a in atoms if a not in forced_false]
    can_be_true = False
    for bits in itertools.product((False, True), repeat=len(free)):
        val = dict(zip(free, bits))
        for a in forced_false:
            val[a] = False
        v = _ev(t, val)
        if v is True:
            can_be_true = True
            break
        if v is not False:
            return None  # opaque value: not a boolean function of recognised conditions
    if not can_be_true:
        return True
    known = all(v[5:] in _KNOWN_SHAPE_CALLS or v[5:] in helpers_ok for v in vocabulary(t) if v.startswith("call:")) and not any(v.startswith("py:") for v in vocabulary(t))
    # another way of saying "starts with its minimum" (a0.index(0) == 0, min(a0) == a0[0], ...) is not recognised: only decide
    # when no other condition reads the entries of a0 directly
    def reads_entries(x) -> bool:
        if isinstance(x, tuple):
            if x and x[0] == "sub" and x[1] == ("name", "a0") and x != ("sub", ("name", "a0"), ("const", "0")):
                return True
            return any(reads_entries(y) for y in x)
        return False
    if known and not reads_entries(t):
        return False
    return None


def rule_v1(ctx: Ctx) -> None:
    from ..skeleton import func_term, show

    repo = ctx.repo
    mod = repo.module("permuta.enumeration_strategies.core_strategies")
    # helpers that themselves require the first entry to be 0
    helpers_ok: Set[str] = set()
    for name in ("zero_plus_skewind", "zero_plus_sumind", "zero_plus_perm"):
        f = mod.functions.get(name)
        if f is None:
            continue
        t = func_term(f)
        if t[0] == "assuming":
            t = t[2]
        if requires_first_zero(t, set()):
            helpers_ok.add(name)
            ctx.ok("C19-V1", f.where, f"{name} requires perm[0] == 0: {show(t)[:100]}", f.node, f)
        else:
            ctx.violation("C19-V1", f, f.node, f"{name} does not require the pattern to start with its minimum (1 (+) p): it computes {show(t)[:120]}")
    for c in concrete_strategies(repo):
        if "CoreStrategy" not in {k.name for k in repo.mro(c.name)}:
            continue
        f = repo.method(c.name, "is_valid_extension")
        if f is None:
            raise AnalysisError(f"{c.name}.is_valid_extension not found")
        try:
            t = func_term(f)
        except AnalysisError as exc:
            ctx.undecided.append(str(exc))
            continue
        # early `if patt[0] != 0: return False` shows up as a conjunct of the returned term
        verdict = True if requires_first_zero(t, helpers_ok) else first_zero_verdict(t, helpers_ok)
        if verdict is True:
            ctx.ok("C19-V1", f.where, "an extra basis element is accepted only if it starts with its minimum (the '1 (+) p' form)", f.node, f)
        elif verdict is False:
            ctx.violation("C19-V1", f, f.node, f"{c.name}.is_valid_extension accepts patterns that are not of the form 1 (+) p (no requirement patt[0] == 0 on the unstripped pattern); it computes {show(t)[:160]}")
        else:
            raise AnalysisError(f"{f.where}: whether the accepted patterns must start with their minimum is not decided; it computes {show(t)[:160]}")
    # shape helpers
    for name, specs, what in (
        ("fstrip", ["assert len(a0) > 0\nif a0[0] == 0:\n    return Perm.one_based(a0[1:])\nreturn a0"], "fstrip removes a leading minimum (1 (+) p -> p), otherwise the identity"),
        ("bstrip", ["assert len(a0) > 0\nif a0[-1] == len(a0) - 1:\n    return Perm(a0[:-1])\nreturn a0"], "bstrip removes a trailing maximum (p (+) 1 -> p), otherwise the identity"),
        ("zero_plus_skewind", ["assert len(a0) > 0\nreturn a0[0] == 0 and not fstrip(a0).skew_decomposable()", "assert len(a0) > 0\nreturn a0[0] == 0 and not fstrip(a0).is_skew_decomposable()"], "1 (+) skew-indecomposable"),
        ("zero_plus_sumind", ["assert len(a0) > 0\nreturn a0[0] == 0 and not fstrip(a0).sum_decomposable()", "assert len(a0) > 0\nreturn a0[0] == 0 and not fstrip(a0).is_sum_decomposable()"], "1 (+) sum-indecomposable"),
        ("zero_plus_perm", ["assert len(a0) > 0\nreturn a0[0] == 0"], "1 (+) anything"),
    ):
        f = mod.functions.get(name)
        if f is not None:
            ctx.run(check_skeleton, ctx, "C19-V1", f, specs, what)
    # the decomposability tests the helpers rely on (Perm methods, reached through the class-level aliases)
    perm_cls = ctx.repo.cls("Perm")
    for alias, meth, specs, what in (
        ("skew_decomposable", "is_skew_decomposable", ["return any(set(range(len(self) - i, len(self))) == set(itertools.islice(self, i)) for i in range(1, len(self)))"],
         "skew decomposable = Exists 1 <= i < n: the first i entries are the i largest values"),
        ("sum_decomposable", "is_sum_decomposable", ["return any(set(range(i)) == set(itertools.islice(self, i)) for i in range(1, len(self)))"],
         "sum decomposable = Exists 1 <= i < n: the first i entries are the i smallest values"),
    ):
        bound = perm_cls.assigns.get(alias)
        if bound is None or unparse(bound) != meth:
            if ctx.repo.method("Perm", alias) is None:
                raise AnalysisError(f"Perm.{alias} is neither a method nor an alias of {meth}")
        f = ctx.repo.need_method("Perm", meth)
        ctx.run(check_skeleton, ctx, "C19-V1", f, specs, what)
    for name, target in (("last_sum_component", "set(range({n} - {i}, {n}))"), ("last_skew_component", "set(range({i}))")):
        f = mod.functions.get(name)
        if f is not None:
            ctx.run(check_last_component, ctx, f, target)


def check_last_component(ctx: Ctx, f: FuncInfo, target_tpl: str) -> None:
    """Shortest suffix whose value set is the target interval (top interval for a sum component, bottom
    interval for a skew component), standardised."""
    from ..core import flow_env

    p = f.params[0]
    loops = [st for st in f.body if isinstance(st, ast.While)]
    if len(loops) != 1:
        raise AnalysisError(f"{f.where}: suffix-growing loop not recognised")
    lp = loops[0]
    env = flow_env(f, lp)
    n = next((k for k, v in env.items() if unparse(v) == f"len({p})"), None)
    i = next((k for k, v in env.items() if unparse(v) == "1"), None)
    comp = next((k for k, v in env.items() if unparse(v) == f"{{{p}[-1]}}"), None)
    if None in (n, i, comp):
        raise AnalysisError(f"{f.where}: initialisation (n = len, i = 1, comp = {{last entry}}) not recognised")
    want_test = f"{comp} != {target_tpl.format(n=n, i=i)}"
    if unparse(lp.test) != want_test:
        ctx.violation("C19-V1", f, lp, f"{f.name} grows the suffix while `{unparse(lp.test)}`; the component is complete when its values are {target_tpl.format(n=n, i=i)} (expected `{want_test}`)")
        return
    body = [unparse(s) for s in lp.body]
    if body != [f"{i} += 1", f"{comp}.add({p}[{n} - {i}])"]:
        ctx.violation("C19-V1", f, lp, f"{f.name}: loop step `{'; '.join(body)}` does not extend the suffix by the next entry from the right")
        return
    rets = [st for st in f.body if isinstance(st, ast.Return)]
    # slices are read in their canonical spelling (sa/canon.py: x[a:len(x)] = x[a:])
    wants = [f"Perm.to_standard({p}[{n} - {i}:])", f"Perm.to_standard({p}[-{i}:])", f"Perm.to_standard({p}[len({p}) - {i}:])"]
    if len(rets) == 1 and unparse(rets[0].value) in wants:
        ctx.ok("C19-V1", f.where, f"{f.name}: shortest suffix with value set {target_tpl.format(n=n, i=i)}, standardised", lp, f)
    elif len(rets) == 1:
        deviates(ctx, "C19-V1", f, rets[0], unparse(rets[0].value), wants, f"{f.name} does not return the standardised suffix of length {i}")
    else:
        raise AnalysisError(f"{f.where}: several returns; what is returned after the loop is not recognised")


_OLD_RUN = run


def run(ctx: Ctx) -> None:  # noqa: F811
    _OLD_RUN(ctx)
    ctx.run(rule_v1, ctx)


FLOORS["C19-V1"] = 18
EXPLANATION = EXPLANATION.replace("NOT decided: the shape helpers (fstrip, bstrip, last_sum_component, ...), that each patterns_needed set",
                                  "(e) every core strategy accepts an extra basis element only in the '1 (+) p' form (V1: patt[0] == 0 required on the unstripped pattern, directly or through a zero_plus_* helper) "
                                  "and the shape helpers fstrip, bstrip, zero_plus_*, last_sum_component, last_skew_component state their definitions (V1). NOT decided: that each patterns_needed set")


# ------------------------------------------------------------------ V2: each core strategy's stated hypothesis (needed patterns named by the class, prescribed extension form)

# the four core patterns of the source (module constants R_U, C_U, R_D, C_D): a column pattern is the inverse of the row pattern
CORE_PATTS = {"Ru": (1, 2, 0, 3), "Cu": (2, 0, 1, 3), "Rd": (1, 3, 0, 2), "Cd": (2, 0, 3, 1)}

# prescribed extension form per strategy, as reviewed on the pinned tree (corollary numbers in corr_number); a0 = the extra basis element
EXTENSION_SPECS = {
    "RuCuCoreStrategy": ["return zero_plus_skewind(a0)"],
    "RdCdCoreStrategy": ["return zero_plus_sumind(a0)"],
    "RuCuRdCdCoreStrategy": ["return zero_plus_perm(a0)"],
    "RuCuCdCoreStrategy": ["return zero_plus_skewind(a0)"],
    # a pattern of length one is never of the prescribed form (fix dc4594f: the stripped pattern would be empty)
    "RdCdCuCoreStrategy": ["return len(a0) > 1 and zero_plus_sumind(bstrip(a0))"],
    "RdCuCoreStrategy": ["return len(a0) > 1 and zero_plus_skewind(a0) and zero_plus_sumind(bstrip(a0))"],
    # {M} / {C}: any spelling (class attribute or module constant) of the mesh pattern / monotone class given in CLASS_CONSTANTS
    "Rd2134CoreStrategy": ["return len(a0) != 1 and a0[0] == 0 and fstrip(a0).avoids({M}) and (last_sum_component(fstrip(a0)) not in {C} or len(last_sum_component(fstrip(a0))) == 1)"],
    "Ru2143CoreStrategy": ["return len(a0) != 1 and a0[0] == 0 and fstrip(a0).avoids({M}) and last_skew_component(fstrip(a0)) not in {C}"],
}
SPEC_SLOTS = {"Rd2134CoreStrategy": {"M": "_M_PATT", "C": "_NON_INC"}, "Ru2143CoreStrategy": {"M": "_M_PATT", "C": "_NON_DEC"}}
_M_SHADING = frozenset([(0, 1), (0, 2), (1, 0), (1, 1), (1, 2), (2, 1), (2, 2)])
CLASS_CONSTANTS = {
    ("Rd2134CoreStrategy", "_NON_INC"): ("Av", frozenset([(0, 1)])),
    ("Rd2134CoreStrategy", "_M_PATT"): ("MeshPatt", (1, 0), _M_SHADING),
    ("Ru2143CoreStrategy", "_NON_DEC"): ("Av", frozenset([(1, 0)])),
    ("Ru2143CoreStrategy", "_M_PATT"): ("MeshPatt", (0, 1), _M_SHADING),
}


def _eval_const(repo: Repo, mod: ModuleInfo, node: ast.AST, depth: int = 0):
    """Value of a constant expression built from Perm(...), MeshPatt(...), Av(...)/Av.from_iterable(...), frozenset/set/list/tuple
    displays and module-level names; AnalysisError for anything else."""
    if depth > 6:
        raise AnalysisError("constant expression too deep")
    if isinstance(node, ast.Constant) and isinstance(node.value, int):
        return node.value
    if isinstance(node, (ast.Tuple, ast.List)):
        return tuple(_eval_const(repo, mod, e, depth + 1) for e in node.elts)
    if isinstance(node, ast.Set):
        return frozenset(_eval_const(repo, mod, e, depth + 1) for e in node.elts)
    if isinstance(node, ast.Name):
        if node.id in mod.assigns:
            return _eval_const(repo, mod, mod.assigns[node.id], depth + 1)
        if node.id in mod.imports:
            src, orig = mod.imports[node.id]
            target = repo.modules.get(src)
            if target is not None and orig in target.assigns:
                return _eval_const(repo, target, target.assigns[orig], depth + 1)
        raise AnalysisError(f"name {node.id} is not a module-level constant")
    if isinstance(node, ast.Call) and not node.keywords:
        cn = call_name(node)
        args = [_eval_const(repo, mod, a, depth + 1) for a in node.args]
        if cn == ("Perm",) and len(args) == 1 and isinstance(args[0], tuple):
            return tuple(args[0])
        if cn in (("frozenset",), ("set",)) and len(args) == 1:
            return frozenset(args[0])
        if cn in (("list",), ("tuple",)) and len(args) == 1:
            return tuple(args[0])
        def perms(xs):
            xs = frozenset(xs)
            if not all(isinstance(x, tuple) and all(isinstance(v, int) for v in x) for x in xs):
                raise AnalysisError(f"`{unparse(node)[:60]}`: not a collection of permutations")
            return xs
        if cn == ("Basis",):
            return ("Av", perms(args))
        if cn in (("Av",), ("Av", "from_iterable")) and len(args) == 1:
            if isinstance(args[0], tuple) and len(args[0]) == 2 and args[0][0] == "Av":
                return args[0]
            return ("Av", perms(args[0]))
        if cn == ("MeshPatt",) and len(args) == 2:
            return ("MeshPatt", tuple(args[0]), frozenset(args[1]))
    raise AnalysisError(f"constant expression `{unparse(node)[:60]}` not evaluated")


def _name_tokens(cls_name: str):
    """RuCuCd -> {Ru, Cu, Cd};  Rd2134 -> {Rd, (1,0,2,3)} (one-based digits in the name)."""
    import re

    stem = cls_name[: -len("CoreStrategy")]
    toks = re.findall(r"Ru|Cu|Rd|Cd|\d+", stem)
    if "".join(toks) != stem:
        return None
    out = set()
    for t in toks:
        out.add(CORE_PATTS[t] if t in CORE_PATTS else tuple(int(ch) - 1 for ch in t))
    return frozenset(out)


def rule_v2(ctx: Ctx) -> None:
    repo = ctx.repo
    mod = repo.module("permuta.enumeration_strategies.core_strategies")
    for const, tok in (("R_U", "Ru"), ("C_U", "Cu"), ("R_D", "Rd"), ("C_D", "Cd")):
        node = mod.assigns.get(const)
        if node is None:
            continue  # the classes may spell their patterns out; checked below by value
        val = _eval_const(repo, mod, node)
        if val == CORE_PATTS[tok]:
            ctx.ok("C19-V2", f"{mod.name}:{const}", f"{const} = {''.join(str(v + 1) for v in val)}")
        else:
            ctx.violation("C19-V2", f"{mod.relpath}:{const}", mod.assign_nodes.get(const), f"{const} is {val}, the core pattern is {CORE_PATTS[tok]} (row patterns 2314 / 2413, column patterns their inverses)", file=mod.relpath, robust=True)
    for c in concrete_strategies(repo):
        if "CoreStrategy" not in {k.name for k in repo.mro(c.name)}:
            continue
        # (a) the needed patterns are the ones the class is named after
        want = _name_tokens(c.name) if c.name.endswith("CoreStrategy") else None
        node = c.assigns.get("patterns_needed")
        if node is None or want is None:
            raise AnalysisError(f"{c.name}: patterns_needed / naming scheme not recognised")
        got = _eval_const(repo, c.module, node)
        if not isinstance(got, frozenset):
            raise AnalysisError(f"{c.name}.patterns_needed is not a set of permutations")
        if got == want:
            ctx.ok("C19-V2", c.where, f"patterns_needed = {sorted(got)} as named by the class")
        else:
            ctx.violation("C19-V2", f"{c.where}", c.assign_nodes.get("patterns_needed") if hasattr(c, "assign_nodes") else c.node,
                          f"{c.name}.patterns_needed is {sorted(got)}; the strategy's stated hypothesis (its name) requires {sorted(want)}", file=c.module.relpath, robust=True)
        # (b) the prescribed form of the other basis elements
        specs = EXTENSION_SPECS.get(c.name)
        if specs is None:
            raise AnalysisError(f"{c.name}: no prescribed extension form on record (new core strategy?)")
        if c.name in SPEC_SLOTS:
            import itertools

            spell: Dict[str, List[str]] = {}
            for slot, attr in SPEC_SLOTS[c.name].items():
                want_v = CLASS_CONSTANTS[(c.name, attr)]
                names = []
                for a_name, a_node in c.assigns.items():
                    try:
                        if _eval_const(repo, c.module, a_node) == want_v:
                            names += [f"{c.name}.{a_name}", f"cls.{a_name}", f"self.{a_name}"]
                    except AnalysisError:
                        pass
                for m_name, m_node in c.module.assigns.items():
                    try:
                        if _eval_const(repo, c.module, m_node) == want_v:
                            names.append(m_name)
                    except AnalysisError:
                        pass
                if not names and attr in c.assigns:
                    names = [f"{c.name}.{attr}", f"cls.{attr}", f"self.{attr}"]  # its value is judged below (CLASS_CONSTANTS)
                if not names:
                    raise AnalysisError(f"{c.name}: no constant evaluating to the strategy's {attr} found")
                spell[slot] = names
            specs = [sp.format(**dict(zip(spell, combo))) for sp in specs for combo in itertools.product(*spell.values())]
        f = repo.method(c.name, "is_valid_extension")
        if f is None:
            raise AnalysisError(f"{c.name}.is_valid_extension not found")
        # the same conditions with the zero_plus_* helpers written out (their definitions are checked by V1; bstrip keeps the first entry)
        expanded = []
        for sp in specs:
            e = sp
            for dec in ("skew_decomposable", "is_skew_decomposable"):
                e1 = e.replace("zero_plus_skewind(a0)", f"(a0[0] == 0 and not fstrip(a0).{dec}())").replace("zero_plus_skewind(bstrip(a0))", f"(a0[0] == 0 and not fstrip(bstrip(a0)).{dec}())")
                for dec2 in ("sum_decomposable", "is_sum_decomposable"):
                    e2 = e1.replace("zero_plus_sumind(a0)", f"(a0[0] == 0 and not fstrip(a0).{dec2}())").replace("zero_plus_sumind(bstrip(a0))", f"(a0[0] == 0 and not fstrip(bstrip(a0)).{dec2}())")
                    e2 = e2.replace("zero_plus_perm(a0)", "a0[0] == 0")
                    if e2 != sp and e2 not in expanded:
                        expanded.append(e2)
        ctx.run(check_skeleton, ctx, "C19-V2", f, list(specs) + expanded, f"{c.name}: prescribed form of an extra basis element", ignore_asserts=True)
    for (cname, attr), want in CLASS_CONSTANTS.items():
        c = repo.cls(cname)
        node = c.assigns.get(attr) if c is not None else None
        if node is None:
            continue  # spelled differently: the extension spec above already required a constant of this value
        got = _eval_const(repo, c.module, node)
        if got == want:
            ctx.ok("C19-V2", f"{c.where}.{attr}", f"{attr} = {unparse(node)[:80]}")
        else:
            ctx.violation("C19-V2", f"{c.where}.{attr}", node, f"{cname}.{attr} evaluates to {got}; the strategy's condition uses {want}", file=c.module.relpath, robust=True)


_OLD_RUN_V2 = run


def run(ctx: Ctx) -> None:  # noqa: F811
    _OLD_RUN_V2(ctx)
    ctx.run(rule_v2, ctx)


FLOORS["C19-V2"] = 20
FLOORS["C19-E1"] = 4


# ------------------------------------------------------------------ E1: the shape helpers are total on what the strategies hand them
#
# find_strategies must *report* for every basis; an AssertionError out of a shape helper is not a report.  The helpers of
# core_strategies.py state their precondition as `assert len(perm) > 0`.  fstrip / bstrip drop one entry, so their result is
# empty for a pattern of length one (a basis may contain Perm((0,))).  Rule: a value that may be empty (the result of a
# stripping helper) does not reach a helper that asserts non-emptiness unless the call is guarded by a length test.


def _asserts_nonempty(fi: FuncInfo) -> bool:
    if not fi.params:
        return False
    p = fi.params[0]
    for st in fi.body[:2]:
        if isinstance(st, ast.Assert) and unparse(st.test) in (f"0 < len({p})", f"len({p}) != 0", f"1 <= len({p})", p, f"len({p})"):
            return True
    return False


def _may_return_empty(fi: FuncInfo) -> bool:
    """some return hands back the parameter with one entry sliced off"""
    if not fi.params:
        return False
    p = fi.params[0]
    for n in walk_no_nested(fi.node):
        if isinstance(n, ast.Return) and n.value is not None:
            for s in ast.walk(n.value):
                if isinstance(s, ast.Subscript) and isinstance(s.slice, ast.Slice) and unparse(s.value) == p and (s.slice.lower is not None or s.slice.upper is not None):
                    return True
    return False


def rule_e1(ctx: Ctx) -> None:
    mod = ctx.repo.module("permuta.enumeration_strategies.core_strategies")
    needs = {name for name, fi in mod.functions.items() if _asserts_nonempty(fi)}
    strips = {name for name, fi in mod.functions.items() if _may_return_empty(fi) and name in needs}
    if not needs or not strips:
        raise AnalysisError("C19-E1: no helper with a non-emptiness precondition / no stripping helper found in core_strategies.py")
    n = 0
    for fi in ctx.repo.all_funcs():
        if fi.module is not mod or fi.name != "is_valid_extension":
            continue
        patt = fi.params[0] if fi.params else None
        # names bound to the result of a stripping helper (also a rebound parameter)
        stripped_names = {}
        for st in walk_no_nested(fi.node):
            if isinstance(st, ast.Assign) and len(st.targets) == 1 and isinstance(st.targets[0], ast.Name) and isinstance(st.value, ast.Call) and call_name(st.value) and call_name(st.value)[-1] in strips:
                stripped_names[st.targets[0].id] = st
        parents = {c: p for p in ast.walk(fi.node) for c in ast.iter_child_nodes(p)}
        guard_texts = [unparse(t) for t in ast.walk(fi.node) if isinstance(t, ast.Compare) and f"len({patt})" in unparse(t)]
        long_enough = any(g in (f"1 < len({patt})", f"2 <= len({patt})", f"len({patt}) != 1", f"1 != len({patt})") for g in guard_texts) or \
            any(isinstance(s, ast.If) and s.body and isinstance(s.body[-1], ast.Return)
                and any(unparse(t) in (f"len({patt}) == 1", f"1 == len({patt})", f"len({patt}) < 2", f"len({patt}) <= 1")
                        for t in (s.test.values if isinstance(s.test, ast.BoolOp) and isinstance(s.test.op, ast.Or) else [s.test]))
                for s in fi.body)
        for call in [c for c in walk_no_nested(fi.node) if isinstance(c, ast.Call) and call_name(c) and call_name(c)[-1] in needs and c.args]:
            a = c_arg = call.args[0]
            maybe_empty = (isinstance(a, ast.Call) and call_name(a) and call_name(a)[-1] in strips) or (isinstance(a, ast.Name) and a.id in stripped_names and stripped_names[a.id].lineno < call.lineno)
            if not maybe_empty:
                continue
            n += 1
            if long_enough:
                ctx.ok("C19-E1", fi.where, f"`{unparse(call)[:50]}`: the stripped pattern is non-empty (length of `{patt}` tested first)", call, fi)
            elif guard_texts:
                raise AnalysisError(f"{fi.where}: `{unparse(call)[:50]}` follows a length test ({guard_texts[0]}) that is not recognised as excluding patterns of length one")
            else:
                ctx.violation("C19-E1", fi, call, f"`{unparse(call)[:60]}`: `{call_name(call)[-1]}` asserts a non-empty argument, but the stripped pattern is empty for a basis element of length one "
                              f"(Perm((0,))): find_strategies raises AssertionError instead of reporting", robust=True, tag=f"{call_name(call)[-1]}-of-stripped")
            _ = c_arg
    if n == 0:
        ctx.ok("C19-E1", mod.name, "no stripped pattern is handed to a helper with a non-emptiness precondition")


_RUN_BEFORE_E1 = run


def run(ctx: Ctx) -> None:  # noqa: F811
    _RUN_BEFORE_E1(ctx)
    ctx.run(rule_e1, ctx)

EXPLANATION = EXPLANATION + (" Added while building: (E1) find_strategies owes a report for every basis: a possibly empty value (the result of fstrip / bstrip, empty for the pattern of "
                             "length one) does not reach a shape helper that asserts a non-empty permutation unless the pattern's length is tested first (defect fixed in dc4594f).")
