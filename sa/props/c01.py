"""C01 – classical occurrences: history independence of the search table (M1–M3)
and agreement of the derived API with the occurrence listing (D1)."""

from __future__ import annotations

import ast
from typing import Dict, List, Optional, Set, Tuple

from ..core import deviates, near_text, AnalysisError, FuncInfo, Repo, attr_chain, call_name, is_const, unparse, walk_no_nested
from ..purity import Purity
from ..report import Ctx
from ..skelrules import check_skeleton

PROP = "C01"
FLOORS = {"C01-M1": 3, "C01-M2": 1, "C01-M3": 1, "C01-D1": 14}

EXPLANATION = (
    "Decided: (a) history independence of the per-pattern search table – the memo lives on the pattern object itself (M1), its value is a pure "
    "function of the pattern (M2, effect inference over the call graph) and no reader mutates or leaks it (M3), so every sequence of earlier searches "
    "leaves the same table; (b) contains / avoids / avoids_set / `in` / counts are fixed aggregates of occurrences_in (D1, skeleton comparison in "
    "negation normal form). NOT decided: that the pruned backtracking search lists exactly the order-isomorphic index tuples (bounds, deque rotation, "
    "colour matching are relations between runtime values) – a changed comparison inside Perm.occurrences_in or left_floor_and_ceiling is not detected."
)

# ---------------------------------------------------------------------------- D1 table

CONTAINS_GUARDED = """
if isinstance(a0, Patt):
    return any(True for _ in a0.occurrences_in(self))
raise TypeError("x")
"""
DUNDER_CONTAINS_GUARDED = """
if isinstance(a0, Patt):
    return self._contains(a0)
raise TypeError("x")
"""

D1 = [
    # (class, method, [accepted specifications], description)
    ("Perm", "_contains", [CONTAINS_GUARDED], "_contains(p) = NonEmpty(p.occurrences_in(self)), non-Patt rejected"),
    ("MeshPatt", "_contains", [CONTAINS_GUARDED], "_contains(p) = NonEmpty(p.occurrences_in(self)), non-Patt rejected"),
    ("Perm", "__contains__", [DUNDER_CONTAINS_GUARDED], "`p in self` = _contains(p), non-Patt rejected"),
    ("MeshPatt", "__contains__", [DUNDER_CONTAINS_GUARDED], "`p in self` = _contains(p), non-Patt rejected"),
    ("Patt", "__contains__", ["return self._contains(a0)", DUNDER_CONTAINS_GUARDED], "`p in self` = _contains(p)"),
    ("Perm", "contains", ["return all(self._contains(p) for p in va)"], "contains(*ps) = Forall p: _contains(p)"),
    ("MeshPatt", "contains", ["return all(self._contains(p) for p in va)"], "contains(*ps) = Forall p: _contains(p)"),
    ("Perm", "avoids", ["return all(not self._contains(p) for p in va)"], "avoids(*ps) = Forall p: Not _contains(p)"),
    ("MeshPatt", "avoids", ["return all(not self._contains(p) for p in va)"], "avoids(*ps) = Forall p: Not _contains(p)"),
    ("Perm", "avoids_set", ["return self.avoids(*tuple(a0))", "return self.avoids(*list(a0))", "return self.avoids(*a0)"], "avoids_set(ps) = avoids(*materialised(ps))"),
    ("Patt", "count_occurrences_in", ["return sum(1 for _ in self.occurrences_in(a0))"], "count_occurrences_in(t) = Count(self.occurrences_in(t))"),
    ("Perm", "count_occurrences_of", ["return a0.count_occurrences_in(self)"], "count_occurrences_of(p) = p.count_occurrences_in(self)"),
    ("Perm", "occurrences_of", ["return a0.occurrences_in(self)"], "occurrences_of(p) = p.occurrences_in(self)"),
    ("Patt", "avoided_by", ["return all(not p.contains(self) for p in va)"], "avoided_by(*qs) = Forall q: Not q.contains(self)"),
    ("Patt", "contained_in", ["return all(p.contains(self) for p in va)"], "contained_in(*qs) = Forall q: q.contains(self)"),
]

ALIASES = [("Patt", "contains", "_contains"), ("Perm", "occurrences", "count_occurrences_of")]


def rule_d1(ctx: Ctx) -> None:
    repo = ctx.repo
    for cname, mname, specs, what in D1:
        ci = repo.cls(cname)
        fi = ci.methods.get(mname)
        if fi is None:
            # the method may legitimately be inherited (e.g. a refactor hoisting it into Patt)
            inh = repo.method(cname, mname)
            if inh is None:
                raise AnalysisError(f"anchor vanished: {cname}.{mname}")
            ctx.ok("C01-D1", f"{ci.where}.{mname}", f"inherited from {inh.where} (checked there)")
            continue
        ctx.run(check_skeleton, ctx, "C01-D1", fi, specs, what, inline_cls=cname)
    for cname, alias, target in ALIASES:
        ci = repo.cls(cname)
        if alias in ci.methods:
            # became a real method: it must then be in the D1 table of a future revision
            raise AnalysisError(f"{cname}.{alias} is no longer an alias of {target}; its body is not covered by the C01-D1 table")
        if ci.aliases.get(alias) == target:
            ctx.ok("C01-D1", f"{ci.where}.{alias}", f"class-body alias of {target}")
        elif alias in ci.assigns:
            ctx.violation("C01-D1", ci.where, ci.assign_nodes[alias], f"{cname}.{alias} is bound to {unparse(ci.assigns[alias])}, not to {target}", file=ci.module.relpath, robust=True)
        else:
            ctx.note(f"{cname}.{alias} alias removed")
    # sibling agreement (Perm._contains / MeshPatt._contains extract to the same skeleton) is
    # implied by both matching the same specification above.


# ---------------------------------------------------------------------------- memo rules


def find_self_memo(fi: FuncInfo) -> Optional[Tuple[str, ast.AST, ast.If]]:
    """Recognise ``if <recv>.A is None: <recv>.A = <value>`` + ``return <recv>.A`` (any
    receiver: a non-self receiver is then reported by M1)."""
    for st in fi.body:
        if isinstance(st, ast.If) and isinstance(st.test, ast.Compare) and len(st.test.ops) == 1 and isinstance(st.test.ops[0], ast.Is) and is_const(st.test.comparators[0], None):
            ch = attr_chain(st.test.left)
            if ch and len(ch) == 2:
                for sub in st.body:
                    if isinstance(sub, (ast.Assign, ast.AnnAssign)):
                        tgt = sub.targets[0] if isinstance(sub, ast.Assign) else sub.target
                        if attr_chain(tgt) == ch and sub.value is not None:
                            return ch[1], sub.value, st
    # early return on a hit:  [c = recv.A]; if <recv.A | c> is not None: return <same>; ...; recv.A = v; return v | recv.A
    aliases = {}
    for st in fi.body:
        if isinstance(st, ast.Assign) and len(st.targets) == 1 and isinstance(st.targets[0], ast.Name):
            ch = attr_chain(st.value)
            if ch and len(ch) == 2:
                aliases[st.targets[0].id] = ch
        if isinstance(st, ast.If) and isinstance(st.test, ast.Compare) and len(st.test.ops) == 1 and isinstance(st.test.ops[0], ast.IsNot) and is_const(st.test.comparators[0], None) \
                and len(st.body) == 1 and isinstance(st.body[0], ast.Return) and not st.orelse:
            left = st.test.left
            ch = attr_chain(left)
            if isinstance(left, ast.Name) and left.id in aliases:
                ch = aliases[left.id]
            if ch and len(ch) == 2 and st.body[0].value is not None and unparse(st.body[0].value) == unparse(left):
                pos = fi.body.index(st)
                for later in fi.body[pos + 1:]:
                    if isinstance(later, (ast.Assign, ast.AnnAssign)):
                        tgt = later.targets[0] if isinstance(later, ast.Assign) else later.target
                        if attr_chain(tgt) == ch and later.value is not None:
                            st._hit_return = True  # type: ignore[attr-defined]
                            st._store = later  # type: ignore[attr-defined]
                            st._recv = ".".join(ch)  # type: ignore[attr-defined]
                            return ch[1], None, st
    return None


def rule_memo(ctx: Ctx) -> None:
    repo = ctx.repo
    perm = repo.cls("Perm")
    occ = repo.need_method("Perm", "occurrences_in")
    # the table used by the search: the call ``self.<m>()`` whose result is indexed in occurrences_in
    details = repo.method("Perm", "_pattern_details")
    if details is None:
        # no memoised table: nothing that could depend on history
        users = [n for n in ast.walk(occ.node) if isinstance(n, ast.Attribute) and n.attr.startswith("_cached")]
        ctx.require(not users, "Perm._pattern_details vanished but occurrences_in still reads a cached attribute")
        ctx.ok("C01-M1", occ.where, "no memoised search table (computed per call)")
        ctx.ok("C01-M1", occ.where, "no memo store")
        ctx.ok("C01-M2", occ.where, "n/a")
        ctx.ok("C01-M3", occ.where, "n/a")
        return
    memo = find_self_memo(details)
    if memo is None:
        deco = [d for d in details.decorators if "cache" in d]
        cls_cache = [n for n in walk_no_nested(details.node) if isinstance(n, ast.Attribute) and attr_chain(n) and attr_chain(n)[0] in ("Perm", "cls") and n.attr.isupper()]
        if deco:
            ctx.ok("C01-M1", details.where, f"memo by decorator {deco[0]} keyed on the pattern value", details.node, details)
            ctx.ok("C01-M1", details.where, "single decorator-managed store")
            value_fn = details
        elif cls_cache:
            # class-level dict: the key must be the pattern itself
            key_ok = False
            for n in walk_no_nested(details.node):
                if isinstance(n, ast.Subscript) and n in [x for x in walk_no_nested(details.node)] and attr_chain(n.value) == attr_chain(cls_cache[0]):
                    k = unparse(n.slice)
                    key_ok = k in (details.params[0], f"tuple({details.params[0]})")
                    if not key_ok:
                        ctx.violation("C01-M1", details, n, f"search table shared between pattern objects under key {k}: results depend on which other pattern was searched first")
            ctx.require(key_ok or bool(ctx.findings), f"{details.where}: class-level memo with unrecognised key")
            if key_ok:
                ctx.ok("C01-M1", details.where, "class-level memo keyed by the pattern itself")
                ctx.ok("C01-M1", details.where, "store keyed by the pattern")
            value_fn = details
        else:
            raise AnalysisError(f"{details.where}: memo shape not recognised")
        attr = None
        value = None
    else:
        attr, value, guard = memo
        # ---- M1: all stores to the attribute in the package
        stores: List[Tuple[FuncInfo, ast.AST, ast.AST]] = []
        for fi in repo.all_funcs():
            for node in walk_no_nested(fi.node):
                if isinstance(node, (ast.Assign, ast.AnnAssign, ast.AugAssign)):
                    tgts = node.targets if isinstance(node, ast.Assign) else [node.target]
                    for t in tgts:
                        if isinstance(t, ast.Attribute) and t.attr == attr:
                            stores.append((fi, node, t))
        for mod in repo.modules.values():
            for ci in mod.classes.values():
                if attr in ci.assigns:
                    ctx.violation("C01-M1", ci.where, ci.assign_nodes[attr], f"{attr} is bound at class level in {ci.name}: the search table would be shared between pattern objects", file=mod.relpath)
        ctx.require(len(stores) >= 1, f"no store to {attr} found")
        for fi, node, t in stores:
            recv = attr_chain(t.value)
            on_self = recv is not None and len(recv) == 1 and fi.params and recv[0] == fi.params[0] and fi.cls is not None and fi.cls.name in {c.name for c in repo.subclasses("Perm")} and not fi.is_classmethod and not fi.is_static
            val = node.value if isinstance(node, (ast.Assign, ast.AnnAssign)) else None
            if not on_self:
                ctx.violation("C01-M1", fi, node, f"search table attribute {attr} is stored on {unparse(t.value)} rather than on the pattern object itself: shared between patterns", robust=True)
            elif fi is details and (node in ast.walk(guard) or node is getattr(guard, "_store", None)):
                ctx.ok("C01-M1", fi.where, "compute-on-miss store on self, guarded by `is None`", node, fi)
            elif fi.name in ("__init__", "__new__") and val is not None and is_const(val, None):
                ctx.ok("C01-M1", fi.where, "initialised to None per object", node, fi)
            else:
                ctx.violation("C01-M1", fi, node, f"additional writer of the search table {attr}: the table no longer depends on the pattern alone")
        value_fn = details
        rets = [n for n in walk_no_nested(details.node) if isinstance(n, ast.Return)]
        if getattr(guard, "_hit_return", False):
            recv = guard._recv
            store = guard._store
            last = details.body[-1]
            stored_txt = unparse(store.value)
            if isinstance(last, ast.Return) and last.value is not None and unparse(last.value) in (recv, stored_txt) and details.body.index(store) < details.body.index(last) and len(rets) == 2:
                ctx.ok("C01-M1", details.where, f"returns the memoised table {recv} (hit: early return; miss: compute, store, return)", last, details)
            else:
                ctx.violation("C01-M1", details, last, f"the memo function does not end by returning the table it stores ({recv})")
        else:
            recv = unparse(guard.test.left)
            if len(rets) == 1 and rets[0].value is not None and unparse(rets[0].value) == recv and details.body[-1] is rets[0]:
                ctx.ok("C01-M1", details.where, f"returns the memoised table {recv}", rets[0], details)
            else:
                ctx.violation("C01-M1", details, rets[0] if rets else details.node, f"the memo function does not end by returning the table it guards ({recv})")
    # ---- M2: purity of the value
    pur = Purity(repo)
    if value is None and attr is not None:
        # the table is computed by statements: every name it uses is the pattern, a local or a pure builtin
        value = ast.Module(body=[st for st in details.body], type_ignores=[])
    if value is not None:
        free = {n.id for n in ast.walk(value) if isinstance(n, ast.Name)}
        bound = {n.id for n in ast.walk(value) if isinstance(n, ast.Name) and isinstance(n.ctx, ast.Store)}
        # what must not enter the table: any argument other than the pattern itself (colourings, targets, flags);
        # non-local mutable state is found by the purity analysis below
        a = details.node.args
        other_params = {x.arg for x in a.posonlyargs + a.args + a.kwonlyargs} - {details.params[0]}
        if a.vararg:
            other_params.add(a.vararg.arg)
        if a.kwarg:
            other_params.add(a.kwarg.arg)
        extra = (free - bound) & other_params
        if extra:
            ctx.violation("C01-M2", details, value, f"memoised table depends on {sorted(extra)}, not on the pattern alone", robust=True)
    eff = pur.effects(value_fn)
    reasons = [r for r in eff.reasons if not (r[0] is details and r[2].startswith("stores attribute") and attr is not None and attr in r[2])]
    if reasons:
        for f2, n2, why in reasons:
            ctx.violation("C01-M2", f2, n2, f"value of the memoised search table is not a pure function of the pattern: {why}", path=[details.where, f2.where], robust=True)
    else:
        ctx.ok("C01-M2", details.where, f"table value is a pure function of self (callees: {sorted(eff.callees)})", value if value is not None else details.node, details)
    for d in eff.dynamic:
        ctx.dynamic.append(d)
    # ---- M3: readers
    readers = 0
    for fi in repo.all_funcs():
        for node in walk_no_nested(fi.node):
            if isinstance(node, ast.Call):
                cn = call_name(node)
                if cn and cn[-1] == details.name and fi is not details:
                    readers += 1
                    check_reader(ctx, fi, node, details)
            if attr is not None and isinstance(node, ast.Attribute) and node.attr == attr and isinstance(node.ctx, ast.Load) and fi is not details:
                ctx.violation("C01-M3", fi, node, f"reads the memo attribute {attr} directly, bypassing the compute-on-miss guard")
    ctx.require(readers >= 1, "no reader of the search table found")


def check_reader(ctx: Ctx, fi: FuncInfo, call: ast.Call, details: FuncInfo) -> None:
    """The table value may only be indexed / unpacked."""
    # find the local it is bound to
    local: Optional[str] = None
    for node in walk_no_nested(fi.node):
        if isinstance(node, ast.Assign) and node.value is call and len(node.targets) == 1 and isinstance(node.targets[0], ast.Name):
            local = node.targets[0].id
    if local is None:
        # used inline: must be directly subscripted or iterated
        for node in ast.walk(fi.node):
            for child in ast.iter_child_nodes(node):
                if child is call:
                    if isinstance(node, ast.Subscript) and node.value is call and isinstance(node.ctx, ast.Load):
                        ctx.ok("C01-M3", fi.where, "table indexed inline", node, fi)
                    elif isinstance(node, ast.Return):
                        ctx.violation("C01-M3", fi, node, "the memoised search table is returned to callers (could be mutated, changing later searches)")
                    else:
                        ctx.violation("C01-M3", fi, node, "the memoised search table is passed on / used in an unrecognised way")
        return
    bad = False
    for scope in [fi.node]:
        for node in ast.walk(scope):
            if isinstance(node, ast.Name) and node.id == local and isinstance(node.ctx, ast.Load):
                parent = _parent(scope, node)
                if isinstance(parent, ast.Subscript) and parent.value is node and isinstance(parent.ctx, ast.Load):
                    continue
                if isinstance(parent, ast.Call) and call_name(parent) in (("len",),) :
                    continue
                if isinstance(parent, (ast.For, ast.comprehension)) and getattr(parent, "iter", None) is node:
                    continue
                bad = True
                ctx.violation("C01-M3", fi, parent if hasattr(parent, "lineno") else node, f"memoised search table `{local}` is used other than by indexing ({type(parent).__name__}): it may be mutated or leaked")
            if isinstance(node, ast.Name) and node.id == local and isinstance(node.ctx, (ast.Store, ast.Del)) and not (isinstance(_parent(scope, node), ast.Assign) and _parent(scope, node).value is call):
                bad = True
                ctx.violation("C01-M3", fi, node, f"`{local}` (the memoised table) is rebound or deleted")
    if not bad:
        ctx.ok("C01-M3", fi.where, f"table bound to `{local}` is only indexed", call, fi)


def _parent(root: ast.AST, target: ast.AST) -> Optional[ast.AST]:
    for node in ast.walk(root):
        for child in ast.iter_child_nodes(node):
            if child is target:
                return node
    return None


def run(ctx: Ctx) -> None:
    ctx.run(rule_memo, ctx)
    ctx.run(rule_d1, ctx)
    ctx.assume("Perm is an immutable tuple subclass: the memoised table depends on self's entries only")


# ---------------------------------------------------------------------------- thorough tier


GENERIC_FILES = ['permuta/patterns/perm.py', 'permuta/patterns/patt.py']


def variants():
    from ..selftest import generic_equiv, generic_silent

    return _variants() + generic_silent(GENERIC_FILES) + generic_equiv(GENERIC_FILES)


def _variants():
    from ..selftest import V, insert_stmt, reformat_only, rename_local, replace_expr, replace_stmt

    PE, MP, PA = "permuta/patterns/perm.py", "permuta/patterns/meshpatt.py", "permuta/patterns/patt.py"
    return [
        V("avoids-not-contains", replace_stmt(PE, "Perm.avoids", "return all((not self._contains(patt) for patt in patts))", "return not self.contains(*patts)"), "fire", "C01-D1"),
        V("contains-any", replace_expr(PE, "Perm.contains", "all((self._contains(patt) for patt in patts))", "any((self._contains(patt) for patt in patts))"), "fire", "C01-D1"),
        V("mesh-avoids-drops-not", replace_expr(MP, "MeshPatt.avoids", "all((not self._contains(patt) for patt in patts))", "all((self._contains(patt) for patt in patts))"), "fire", "C01-D1"),
        V("contains-swapped-roles", replace_expr(PE, "Perm._contains", "patt.occurrences_in(self)", "self.occurrences_in(patt)"), "fire", "C01-D1"),
        V("avoided-by-exists", replace_expr(PA, "Patt.avoided_by", "all((not patt.contains(self) for patt in patts))", "any((not patt.contains(self) for patt in patts))"), "fire", "C01-D1"),
        V("contained-in-negated", replace_expr(PA, "Patt.contained_in", "all((patt.contains(self) for patt in patts))", "all((not patt.contains(self) for patt in patts))"), "fire", "C01-D1"),
        V("count-of-swapped", replace_expr(PE, "Perm.count_occurrences_of", "patt.count_occurrences_in(self)", "self.count_occurrences_in(patt)"), "fire", "C01-D1"),
        V("alias-contains-rebound", replace_stmt(PA, "Patt", "contains = _contains", "contains = __contains__"), "fire", "C01-D1"),
        V("memo-on-class", [replace_expr(PE, "Perm._pattern_details", "self._cached_pattern_details", "Perm._cached_pattern_details", which=None)], "fire", "C01-M1"),
        V("memo-extra-writer", insert_stmt(PE, "Perm.occurrences_in", "pattern_details = self._pattern_details()", "patt._cached_pattern_details = None", "after"), "fire", "C01-M1"),
        V("memo-value-depends-on-global", [insert_stmt(PE, None, "class Perm(Tuple[int], Patt): ...", "_SEEN = []", "before"),
                                          replace_expr(PE, "Perm._pattern_details", "len(self) - val", "len(self) - val + len(_SEEN)")], "fire", "C01-M2"),
        V("memo-callee-impure", insert_stmt(PE, "Perm.left_floor_and_ceiling", "smallest, biggest = (-1, -1)", "random.random()", "after"), "fire", "C01-M2"),
        V("in-operator-strict-length-shortcut", replace_expr(PE, "Perm.__contains__", "self._contains(patt)", "len(patt) < len(self) and self._contains(patt)"), "fire", "C01-L1"),
        V("in-operator-length-shortcut", replace_expr(PE, "Perm.__contains__", "self._contains(patt)", "len(patt) <= len(self) and self._contains(patt)"), "nofire"),
        V("in-operator-early-no", insert_stmt(PE, "Perm.__contains__", "raise TypeError('patt must be a Patt')", "if isinstance(patt, Patt) and len(self) <= len(patt):\n    return False", "before"), "nofire"),
        V("memo-table-mutated", insert_stmt(PE, "Perm.occurrences_in", "occurrence_indices = [0] * n", "pattern_details.reverse()", "before"), "fire", "C01-M3"),
        V("memo-table-leaked", insert_stmt(PE, "Perm.get_perm", "return self", "return self._pattern_details()", "before"), "fire", "C01-M3"),
        V("new-object-state", insert_stmt(PE, "Perm.inverse", "result = [0] * len(self)", "self._inverse_calls = getattr(self, '_inverse_calls', 0) + 1", "before"), "undecided", note="unreviewed per-object state: neither accused nor passed"),
        V("scratch-buffer-on-object", [replace_stmt(PE, "Perm.occurrences_in", "occurrence_indices = [0] * n", "if getattr(self, '_scratch', None) is None:\n    self._scratch = [0] * n\noccurrence_indices = self._scratch")], "fire", "C01-M4"),
        V("colours-roles-swapped", replace_expr(PE, "Perm.occurrences_in", "patt_colours[i] == self_colours[k]", "patt_colours[k] == self_colours[i]"), "fire", "C01-O2"),
        V("colours-ignored-when-given", replace_expr(PE, "Perm.occurrences_in", "self_colours is None or patt_colours[i] == self_colours[k]", "self_colours is not None or patt_colours[i] == self_colours[k]"), "fire", "C01-O2"),
        V("colours-or-bounds", replace_expr(PE, "Perm.occurrences_in", "compare_colours and lower_bound <= element <= upper_bound", "compare_colours or lower_bound <= element <= upper_bound"), "fire", "C01-O2"),
        V("bounds-strict", replace_expr(PE, "Perm.occurrences_in", "lower_bound <= element <= upper_bound", "lower_bound < element <= upper_bound"), "fire", "C01-O2"),
        V("colours-args-swapped", replace_stmt(PE, "Perm.occurrences_in", "self_colours, patt_colours = (None, None) if len(args) < 2 else args", "patt_colours, self_colours = (None, None) if len(args) < 2 else args"), "fire-or-undecided", "C01-O2"),
        V("same-length-fast-path", replace_stmt(PE, "Perm.occurrences_in", "if n > len(pattern): ...", "if n >= len(pattern):\n    if self == pattern:\n        yield tuple(range(n))\n    return"), "fire-or-undecided", "C01-O1"),
        V("too-long-nonstrict", replace_expr(PE, "Perm.occurrences_in", "n > len(pattern)", "n >= len(pattern)"), "fire", "C01-O1"),
        V("search-nonstrict-recursion", replace_expr(PE, "Perm.occurrences_in", "occurrences(i + 1, k + 1)", "occurrences(i, k + 1)"), "fire", "C01-O1"),
        V("contains-truthiness-any", replace_expr(PE, "Perm._contains", "any((True for _ in patt.occurrences_in(self)))", "any(patt.occurrences_in(self))"), "fire", "C01-T1"),
        V("contains-truthiness-next", replace_expr(PE, "Perm._contains", "any((True for _ in patt.occurrences_in(self)))", "bool(next(patt.occurrences_in(self), None))"), "fire", "C01-T1"),
        V("contains-sentinel-next", replace_expr(PE, "Perm._contains", "any((True for _ in patt.occurrences_in(self)))", "next(patt.occurrences_in(self), None) is not None"), "nofire"),
        V("search-skips-position", replace_stmt(PE, "Perm.occurrences_in", "i, elements_remaining = (i + 1, elements_remaining - 1)", "i, elements_remaining = (i + 2, elements_remaining - 2)"), "fire", "C01-O1"),
        V("search-starts-at-1", replace_expr(PE, "Perm.occurrences_in", "occurrences(0, 0)", "occurrences(1, 0)"), "fire", "C01-O1"),
        V("empty-pattern-twice", insert_stmt(PE, "Perm.occurrences_in", "occurrence_indices = [0] * n", "if n == 0:\n    yield ()", "after"), "fire-or-undecided", "C01-O1"),
        V("empty-pattern-never", replace_stmt(PE, "Perm.occurrences_in", "if n == 0: ...", "if n == 0:\n    return"), "fire", "C01-O1"),
        V("report-one-early", replace_expr(PE, "Perm.occurrences_in", "elements_needed == 1", "elements_needed == 2"), "fire", "C01-O1"),
        V("report-before-record", [replace_stmt(PE, "Perm.occurrences_in", "occurrence_indices[k] = i", ""),
                                   insert_stmt(PE, "Perm.occurrences_in", "i, elements_remaining = (i + 1, elements_remaining - 1)", "occurrence_indices[k] = i", "before")], "fire", "C01-O1"),
        # silent
        V("search-augassign-step", replace_stmt(PE, "Perm.occurrences_in", "i, elements_remaining = (i + 1, elements_remaining - 1)", "elements_remaining -= 1\ni += 1"), "silent"),
        V("reformat-perm", reformat_only(PE), "silent"),
        V("contains-loop-form", replace_stmt(PE, "Perm.contains", "return all((self._contains(patt) for patt in patts))",
                                             "for patt in patts:\n    if not self._contains(patt):\n        return False\nreturn True"), "silent"),
        V("avoids-not-any", replace_expr(PE, "Perm.avoids", "all((not self._contains(patt) for patt in patts))", "not any((self._contains(patt) for patt in patts))"), "silent"),
        V("contains-any-1", replace_expr(PE, "Perm._contains", "any((True for _ in patt.occurrences_in(self)))", "next((True for _ in patt.occurrences_in(self)), False)"), "silent"),
        V("contains-or-false", replace_expr(MP, "MeshPatt._contains", "any((True for _ in patt.occurrences_in(self)))", "any((True for _ in patt.occurrences_in(self))) or False"), "silent"),
        V("rename-memo-local", rename_local(PE, "Perm.occurrences_in", "pattern_details", "table"), "silent"),
        V("count-len-list", replace_expr(PA, "Patt.count_occurrences_in", "sum((1 for _ in self.occurrences_in(patt)))", "len(list(self.occurrences_in(patt)))"), "silent"),
    ]


# ---------------------------------------------------------------------------- O1: shape of the enumeration


def rule_o1(ctx: Ctx) -> None:
    """Index tuples are strictly increasing, enumerated in lexicographic order and without repetition –
    by the *shape* of the backtracking (which elements are accepted is value-level and not decided):
    position k+1 is searched from i+1 on, i only ever advances by one, the index is recorded before the
    tuple is reported or extended, the search starts at (0, 0), the empty pattern is reported once."""
    occ = ctx.repo.need_method("Perm", "occurrences_in")
    inner = [f for f in occ.nested.values()]
    if len(inner) != 1:
        raise AnalysisError(f"{occ.where}: expected one nested search function")
    rec = inner[0]
    if len(rec.params) != 2:
        raise AnalysisError(f"{rec.where}: expected parameters (i, k)")
    i, k = rec.params
    from ..core import flow_env, inlined_text, subst_names

    # --- empty pattern / too long pattern prologue
    env = flow_env(occ)
    n_name = next((nm for nm, v in env.items() if unparse(v) == f"len({occ.params[0]})"), None)
    if n_name is None:
        raise AnalysisError(f"{occ.where}: length of the pattern is not bound to a local")
    empties = [st for st in occ.body if isinstance(st, ast.If) and unparse(st.test) in (f"{n_name} == 0", f"not {occ.params[0]}", f"len({occ.params[0]}) == 0")]
    if len(empties) == 1 and [unparse(s) for s in empties[0].body] == ["yield ()", "return"]:
        ctx.ok("C01-O1", occ.where, "the empty pattern occurs exactly once: `yield ()` then return", empties[0], occ)
    elif len(empties) > 1:
        raise AnalysisError(f"{occ.where}: several tests for the empty pattern")
    else:
        deviates(ctx, "C01-O1", occ, empties[0] if empties else occ.node, [unparse(s) for s in empties[0].body] if empties else None, [["yield ()", "return"]],
                 "the empty pattern is not reported exactly once (expected `if n == 0: yield (); return`)", k=4)
    # --- top-level start
    starts = [st for st in occ.body if isinstance(st, ast.Expr) and isinstance(st.value, ast.YieldFrom) and isinstance(st.value.value, ast.Call) and call_name(st.value.value) == (rec.name,)]
    if len(starts) == 1 and [unparse(a) for a in starts[0].value.value.args] == ["0", "0"]:
        ctx.ok("C01-O1", occ.where, f"search starts at {rec.name}(0, 0)", starts[0], occ)
    elif len(starts) != 1:
        raise AnalysisError(f"{occ.where}: how the search is started is not recognised ({len(starts)} `yield from {rec.name}(..)`)")
    else:
        deviates(ctx, "C01-O1", occ, starts[0], ", ".join(unparse(a) for a in starts[0].value.value.args), ["0, 0"],
                 f"the search does not start with the first pattern entry at the first position ({rec.name}(0, 0))", k=2)
    # --- the loop
    loops = [st for st in rec.body if isinstance(st, ast.While)]
    if len(loops) != 1 or not is_const(loops[0].test, True):
        raise AnalysisError(f"{rec.where}: search loop shape")
    lp = loops[0]
    # every store to i inside the function
    stores = []
    for node in walk_no_nested(rec.node):
        if isinstance(node, (ast.Assign, ast.AugAssign)):
            tgts = node.targets if isinstance(node, ast.Assign) else [node.target]
            for t in tgts:
                elts = t.elts if isinstance(t, ast.Tuple) else [t]
                vals = node.value.elts if isinstance(t, ast.Tuple) and isinstance(node.value, ast.Tuple) else [node.value]
                for e, v in zip(elts, vals):
                    if isinstance(e, ast.Name) and e.id == i:
                        stores.append((node, v, isinstance(node, ast.AugAssign)))
    good_step = len(stores) == 1 and ((not stores[0][2] and unparse(stores[0][1]) in (f"{i} + 1", f"1 + {i}")) or (stores[0][2] and isinstance(stores[0][0].op, ast.Add) and unparse(stores[0][1]) == "1"))
    if good_step and stores[0][0] is lp.body[-1]:
        ctx.ok("C01-O1", rec.where, f"the candidate position `{i}` advances by exactly one at the end of every round and is changed nowhere else", stores[0][0], rec)
    elif len(stores) == 1 and not good_step and near_text(unparse(stores[0][1]), ["1"] if stores[0][2] else [f"{i} + 1"], 2):
        ctx.violation("C01-O1", rec, stores[0][0], f"the candidate position `{i}` is not advanced by exactly +1 once per round (at the end of the loop body): positions could be skipped, repeated or revisited")
    elif not stores:
        ctx.violation("C01-O1", rec, lp, f"the candidate position `{i}` is never advanced in the search loop")
    else:
        raise AnalysisError(f"{rec.where}: how the candidate position `{i}` advances is not recognised")
    # recursion and report
    recs = [n for n in ast.walk(lp) if isinstance(n, ast.Call) and call_name(n) == (rec.name,)]
    if len(recs) == 1 and [unparse(a) for a in recs[0].args] == [f"{i} + 1", f"{k} + 1"]:
        ctx.ok("C01-O1", rec.where, f"the next pattern entry is searched from position {i} + 1 on: index tuples are strictly increasing and enumerated in lexicographic order", recs[0], rec)
    elif len(recs) > 1:
        raise AnalysisError(f"{rec.where}: several recursive calls")
    else:
        got = [unparse(a) for a in recs[0].args] if recs else None
        deviates(ctx, "C01-O1", rec, recs[0] if recs else lp, ", ".join(got) if got else None, [f"{i} + 1, {k} + 1"],
                 f"the recursive search continues with {got}; it must continue with ({i} + 1, {k} + 1) so that indices strictly increase and every pattern entry is matched once")
    # record-before-report
    idx_store = [st for st in ast.walk(lp) if isinstance(st, ast.Assign) and isinstance(st.targets[0], ast.Subscript) and unparse(st.targets[0].slice) == k and unparse(st.value) == i]
    reports = [n for n in ast.walk(lp) if isinstance(n, ast.Yield)]
    if len(idx_store) == 1 and len(reports) == 1 and isinstance(reports[0].value, ast.Call) and call_name(reports[0].value) == ("tuple",) and unparse(reports[0].value.args[0]) == unparse(idx_store[0].targets[0].value):
        arr = unparse(idx_store[0].targets[0].value)
        # the store precedes the yield / recursion in the same block
        blk = None
        for node in ast.walk(lp):
            body = getattr(node, "body", None)
            if isinstance(body, list) and idx_store[0] in body:
                blk = body
        after = blk[blk.index(idx_store[0]) + 1:] if blk else []
        if any(any(sub is reports[0] for sub in ast.walk(s)) for s in after) and any(any(sub is recs[0] for sub in ast.walk(s)) for s in after) if recs else False:
            ctx.ok("C01-O1", rec.where, f"`{arr}[{k}] = {i}` is recorded before the tuple is reported (a fresh tuple copy) or extended", idx_store[0], rec)
        elif blk is not None and recs and any(any(sub is reports[0] or sub is recs[0] for sub in ast.walk(s)) for s in blk[:blk.index(idx_store[0])]):
            ctx.violation("C01-O1", rec, idx_store[0], "the accepted index is recorded after the tuple is reported/extended")
        else:
            raise AnalysisError(f"{rec.where}: the order of recording the index and reporting / extending the tuple is not recognised")
        # report when exactly one entry was still needed
        guard = None
        for node in ast.walk(lp):
            if isinstance(node, ast.If) and any(sub is reports[0] for sub in ast.walk(ast.Module(body=node.body, type_ignores=[]))):
                guard = node
        if guard is not None:
            env_r = flow_env(rec)
            g = unparse(subst_names(guard.test, env_r))
            if g in (f"{n_name} - {k} == 1", f"{k} == {n_name} - 1", f"{k} + 1 == {n_name}"):
                ctx.ok("C01-O1", rec.where, f"a tuple is reported exactly when its last entry has just been placed ({g})", guard, rec)
            else:
                deviates(ctx, "C01-O1", rec, guard, g, [f"{n_name} - {k} == 1", f"{k} == {n_name} - 1", f"{k} + 1 == {n_name}"],
                         f"a tuple is reported when `{g}`; it must be reported exactly when the last of the {n_name} entries has been placed", k=2)
    elif not idx_store and len(reports) == 1:
        ctx.violation("C01-O1", rec, lp, "the accepted index is not recorded as indices[k] = i before the tuple is reported")
    else:
        raise AnalysisError(f"{rec.where}: how the accepted index is recorded and the tuple reported is not recognised")
    # no other reporting path: besides `yield ()` for the empty pattern and the search itself nothing is yielded,
    # and the only other early exit is "pattern longer than the target -> nothing"
    other_yields = [n for n in walk_no_nested(occ.node) if isinstance(n, (ast.Yield, ast.YieldFrom))
                    and not any(n is sub for e in empties for sub in ast.walk(e)) and not any(n is sub for s2 in starts for sub in ast.walk(s2))]
    if other_yields:
        raise AnalysisError(f"{occ.where}: an additional reporting path (`{unparse(other_yields[0])[:60]}`, line {other_yields[0].lineno}) bypasses the search; whether it lists exactly the (colour-matching) occurrences is not decided")
    target_len = None
    for st in occ.body:
        if isinstance(st, ast.If) and st not in empties and len(st.body) == 1 and isinstance(st.body[0], ast.Return) and st.body[0].value is None and not st.orelse:
            t = unparse(st.test)
            if t.startswith(f"{n_name} > len(") or t.endswith(f") < {n_name}"):
                ctx.ok("C01-O1", occ.where, "a pattern longer than the target has no occurrence (the only other early exit)", st, occ)
            else:
                deviates(ctx, "C01-O1", occ, st, t, [f"len({occ.params[1]}) < {n_name}", f"len(self) < {n_name}"],
                         f"the search is abandoned without reporting anything when `{t}`; only a pattern strictly longer than the target has no occurrence", k=2)


_OLD_RUN = run


def run(ctx: Ctx) -> None:  # noqa: F811
    _OLD_RUN(ctx)
    ctx.run(rule_o1, ctx)


FLOORS["C01-O1"] = 7


# ---------------------------------------------------------------------------- M4: scratch state is per search


def _fresh_value(v: ast.AST) -> bool:
    if isinstance(v, (ast.List, ast.Dict, ast.Set, ast.ListComp, ast.DictComp, ast.SetComp)):
        return True
    if isinstance(v, ast.BinOp) and isinstance(v.op, ast.Mult) and (isinstance(v.left, ast.List) or isinstance(v.right, ast.List)):
        return True
    if isinstance(v, ast.Call) and call_name(v) in (("list",), ("dict",), ("set",), ("bytearray",), ("collections", "deque"), ("deque",)):
        return True
    return False


def rule_m4(ctx: Ctx) -> None:
    """Everything a search mutates is created by that search: no scratch buffer lives on the pattern
    object (or anywhere else that outlives the call), so suspended/interleaved listings with the same
    pattern object cannot disturb each other."""
    occ = ctx.repo.need_method("Perm", "occurrences_in")
    funcs = [occ] + list(occ.nested.values())
    bindings: Dict[str, List[ast.AST]] = {}
    for f in funcs:
        for node in walk_no_nested(f.node):
            if isinstance(node, (ast.Assign, ast.AnnAssign)) and node.value is not None:
                tgts = node.targets if isinstance(node, ast.Assign) else [node.target]
                for t in tgts:
                    if isinstance(t, ast.Name):
                        bindings.setdefault(t.id, []).append(node.value)
                    elif isinstance(t, ast.Tuple) and isinstance(node.value, ast.Tuple) and len(t.elts) == len(node.value.elts):
                        for e, v in zip(t.elts, node.value.elts):
                            if isinstance(e, ast.Name):
                                bindings.setdefault(e.id, []).append(v)
    mutated: List[Tuple[FuncInfo, ast.AST, str]] = []
    for f in funcs:
        for node in walk_no_nested(f.node):
            if isinstance(node, (ast.Assign, ast.AugAssign, ast.AnnAssign, ast.Delete)):
                tgts = node.targets if isinstance(node, (ast.Assign, ast.Delete)) else [node.target]
                for t in tgts:
                    for leaf in (t.elts if isinstance(t, ast.Tuple) else [t]):
                        if isinstance(leaf, ast.Attribute):
                            ctx.violation("C01-M4", f, node, f"the search stores `{unparse(leaf)}`: state that outlives the call is shared by every (possibly still running) search with the same object", robust=True)
                        if isinstance(leaf, ast.Subscript):
                            base = leaf.value
                            while isinstance(base, ast.Subscript):
                                base = base.value
                            mutated.append((f, node, unparse(base)))
            if isinstance(node, ast.Call) and isinstance(node.func, ast.Attribute) and node.func.attr in ("append", "extend", "insert", "pop", "remove", "clear", "sort", "reverse", "update", "add", "discard", "setdefault", "popitem", "appendleft", "popleft", "rotate"):
                mutated.append((f, node, unparse(node.func.value)))
    seen = set()
    for f, node, base in mutated:
        if base in seen:
            continue
        seen.add(base)
        vals = bindings.get(base)
        if vals and all(_fresh_value(v) for v in vals):
            ctx.ok("C01-M4", f.where, f"`{base}` (mutated during the search) is created afresh by every call: {unparse(vals[0])[:40]}", node, f)
        else:
            origin = unparse(vals[0])[:60] if vals else "a parameter / outer object"
            ctx.violation("C01-M4", f, node, f"the search mutates `{base}`, which is not created by this call (it comes from `{origin}`): two live listings with the same pattern object overwrite each other's state", robust=True)
    if not mutated:
        ctx.ok("C01-M4", occ.where, "the search mutates nothing")


_OLD_RUN2 = run


def run(ctx: Ctx) -> None:  # noqa: F811
    _OLD_RUN2(ctx)
    ctx.run(rule_m4, ctx)


FLOORS["C01-M4"] = 1


# ---------------------------------------------------------------------------- M5: no unreviewed per-object state


def rule_m5(ctx: Ctx) -> None:
    """Pattern objects carry exactly the reviewed state: every attribute store on an instance of the
    Perm / MeshPatt family lies in a constructor or is the recognised compute-on-miss memo.  Any other
    per-object state would need its own history-independence argument: the check then refuses to decide."""
    repo = ctx.repo
    family = {c.name for c in repo.subclasses("Patt")}
    details = repo.method("Perm", "_pattern_details")
    memo_attr = None
    if details is not None:
        memo = find_self_memo(details)
        memo_attr = memo[0] if memo else None
    n = 0
    for fi in repo.all_funcs():
        top = fi
        while top.parent is not None:
            top = top.parent
        if top.cls is None or top.cls.name not in family:
            continue
        for node in walk_no_nested(fi.node):
            if isinstance(node, (ast.Assign, ast.AugAssign, ast.AnnAssign)):
                tgts = node.targets if isinstance(node, ast.Assign) else [node.target]
                for t in tgts:
                    for leaf in (t.elts if isinstance(t, ast.Tuple) else [t]):
                        if isinstance(leaf, ast.Attribute):
                            n += 1
                            if top.name in ("__init__", "__new__"):
                                continue
                            if leaf.attr == memo_attr:
                                continue  # judged by M1
                            raise AnalysisError(f"{fi.where}: stores `{unparse(leaf)}` outside a constructor – unreviewed per-object state; history independence of searches with this object is no longer decided by M1–M4")
            if isinstance(node, ast.Call) and call_name(node) in (("setattr",), ("object", "__setattr__")):
                raise AnalysisError(f"{fi.where}: uses setattr – unreviewed per-object state")
    ctx.ok("C01-M5", "permuta.patterns", f"{n} attribute stores in the pattern classes, all in constructors or the reviewed memo")


_OLD_RUN3 = run


def run(ctx: Ctx) -> None:  # noqa: F811
    _OLD_RUN3(ctx)
    ctx.run(rule_m5, ctx)


FLOORS["C01-M5"] = 1


# ---------------------------------------------------------------------------- O2: acceptance test shape (colours)


def rule_o2(ctx: Ctx) -> None:
    """The acceptance test of the search is `colours match AND lower <= entry <= upper` on the entry at the
    candidate position; colours are compared between the *target position i* and the *pattern position k*,
    and are ignored exactly when no colouring was supplied.  (What the bounds are is value-level: not decided.)"""
    from ..core import flow_env, subst_names
    from ..skeleton import Env, T, show

    occ = ctx.repo.need_method("Perm", "occurrences_in")
    rec = list(occ.nested.values())[0]
    i, k = rec.params
    # colour unpacking:  self_colours, patt_colours = (None, None) if len(args) < 2 else args
    va = occ.vararg
    unpack = [st for st in occ.body if isinstance(st, ast.Assign) and isinstance(st.targets[0], ast.Tuple) and isinstance(st.value, ast.IfExp)]
    if not unpack or va is None:
        raise AnalysisError(f"{occ.where}: colour arguments not recognised")
    sc, pc = [unparse(e) for e in unpack[0].targets[0].elts]
    v = unpack[0].value
    from ..skelrules import classify_term

    verdict, why = classify_term(ctx.repo, T(v, Env()), [T(ast.parse(src, mode="eval").body, Env()) for src in (f"(None, None) if len({va}) < 2 else {va}", f"(None, None) if len({va}) != 2 else {va}")])
    if verdict == "violation":
        ctx.violation("C01-O2", occ, unpack[0], f"colourings are taken as `{unparse(v)}`; expected (pattern colours, target colours) = args when both are supplied, otherwise none ({why[:160]})")
        return
    if verdict != "ok":
        raise AnalysisError(f"{occ.where}: how the colourings are taken from the arguments (`{unparse(v)[:80]}`) is not recognised")
    target = next((unparse(st.targets[0].elts[1]) for st in occ.body if isinstance(st, ast.Assign) and isinstance(st.targets[0], ast.Tuple) and isinstance(st.value, ast.Tuple)
                   and len(st.value.elts) == 2 and unparse(st.value.elts[1]) == f"{occ.params[1]}.get_perm()"), None)
    if target is None:
        target = next((st.targets[0].id for st in occ.body if isinstance(st, ast.Assign) and len(st.targets) == 1 and isinstance(st.targets[0], ast.Name)
                       and unparse(st.value) == f"{occ.params[1]}.get_perm()"), None)
    if target is None:
        raise AnalysisError(f"{occ.where}: target permutation local not found")
    loops = [st for st in rec.body if isinstance(st, ast.While)]
    lp = loops[0]
    accepts = [st for st in lp.body if isinstance(st, ast.If) and any(isinstance(n, (ast.Yield, ast.YieldFrom)) for n in ast.walk(st))]
    if len(accepts) != 1:
        raise AnalysisError(f"{rec.where}: acceptance branch not recognised")
    env = {}
    for st in lp.body:
        if isinstance(st, ast.Assign) and isinstance(st.targets[0], ast.Name):
            env[st.targets[0].id] = st.value
    test = subst_names(accepts[0].test, env)
    got = T(test, Env())
    # locate the two bounds: comparisons of the candidate entry target[i] with something else
    entry = f"{target}[{i}]"
    lows, highs = [], []
    for n in ast.walk(test):
        if isinstance(n, ast.Compare) and len(n.ops) == 1 and isinstance(n.ops[0], (ast.Lt, ast.LtE)):
            if unparse(n.comparators[0]) == entry:
                lows.append(unparse(n.left))
            elif unparse(n.left) == entry:
                highs.append(unparse(n.comparators[0]))
        elif isinstance(n, ast.Compare) and len(n.ops) == 2 and unparse(n.comparators[0]) == entry:
            lows.append(unparse(n.left))
            highs.append(unparse(n.comparators[1]))
    if len(lows) != 1 or len(highs) != 1:
        raise AnalysisError(f"{rec.where}: the two-sided bound test `lower <= {entry} <= upper` was not found in the acceptance test `{unparse(test)[:100]}`")
    lo, hi = lows[0], highs[0]
    want = T(ast.parse(f"({sc} is None or {pc}[{i}] == {sc}[{k}]) and {lo} <= {entry} and {entry} <= {hi}", mode="eval").body, Env())
    verdict, why = classify_term(ctx.repo, got, [want])
    if verdict == "ok":
        ctx.ok("C01-O2", rec.where, f"accept iff (no colouring or colour of target position {i} == colour of pattern position {k}) and {lo} <= {entry} <= {hi}", accepts[0], rec)
    elif verdict == "violation":
        ctx.violation("C01-O2", rec, accepts[0], f"acceptance test {why[:400]}")
    else:
        raise AnalysisError(f"{rec.where}: acceptance test  {show(got)[:200]}  is neither the expected  {show(want)[:200]}  nor a point change of it")


_OLD_RUN4 = run


def run(ctx: Ctx) -> None:  # noqa: F811
    _OLD_RUN4(ctx)
    ctx.run(rule_o2, ctx)


FLOORS["C01-O2"] = 1


# ---------------------------------------------------------------------------- T1: an occurrence exists  !=  an occurrence is truthy


def rule_t1(ctx: Ctx) -> None:
    """The one occurrence of the empty pattern is the empty tuple, which is falsy: containment / avoidance must ask whether the
    listing yields anything, never whether what it yields is truthy."""
    from ..core import truthiness_of_elements

    n = 0
    for mod_name in ("permuta.patterns.perm", "permuta.patterns.patt", "permuta.patterns.meshpatt", "permuta.patterns.bivincularpatt"):
        mod = ctx.repo.modules.get(mod_name)
        if mod is None:
            continue
        for fi in ctx.repo.all_funcs():
            if fi.module is not mod:
                continue
            hits = truthiness_of_elements(fi, {"occurrences_in", "occurrences_of", "_occurrences_in_perm", "_occurrences_in_mesh"})
            for node, what in hits:
                ctx.violation("C01-T1", fi, node, f"{what}: the occurrence of the empty pattern is the empty tuple (falsy), so an existing occurrence is taken for none", robust=True)
            n += 1
    ctx.ok("C01-T1", "permuta.patterns", f"no containment test in {n} functions uses the truth value of an occurrence for its existence")


_OLD_RUN_T1 = run


def run(ctx: Ctx) -> None:  # noqa: F811
    _OLD_RUN_T1(ctx)
    ctx.run(rule_t1, ctx)


FLOORS["C01-T1"] = 1


# ---------------------------------------------------------------------------- L1: a length shortcut in front of a containment test is non-strict
#
# A pattern as long as the permutation can occur in it (the permutation contains itself; the empty pattern occurs in the empty
# permutation).  A cheap length test put in front of the search is therefore `len(patt) <= len(self)` as a necessary condition
# and `len(self) < len(patt)` as a reason to answer "no" - never the other strictness.  (Canonical comparisons use < and <=.)

_CONTAINMENT_ENTRY = ("__contains__", "_contains", "contains", "avoids", "avoids_set", "contained_in", "avoided_by", "count_occurrences_of", "occurrences_of")


def rule_l1(ctx: Ctx) -> None:
    n = 0
    for name in _CONTAINMENT_ENTRY:
        fi = ctx.repo.method("Perm", name)
        if fi is None or not fi.params:
            continue
        me = fi.params[0]
        n += 1
        bad = None
        for cmp_ in [c for c in walk_no_nested(fi.node) if isinstance(c, ast.Compare) and len(c.ops) == 1 and isinstance(c.ops[0], (ast.Lt, ast.LtE))]:
            l, r = cmp_.left, cmp_.comparators[0]
            if not all(isinstance(x, ast.Call) and call_name(x) == ("len",) and len(x.args) == 1 and isinstance(x.args[0], ast.Name) for x in (l, r)):
                continue
            ln, rn = l.args[0].id, r.args[0].id
            if me not in (ln, rn) or ln == rn:
                continue
            strict = isinstance(cmp_.ops[0], ast.Lt)
            parent = next((p for p in ast.walk(fi.node) for c in ast.iter_child_nodes(p) if c is cmp_), None)
            calls_search = lambda e: any(isinstance(x, ast.Call) and call_name(x) and call_name(x)[-1] in ("_contains", "contains", "occurrences_in", "occurrences_of", "count_occurrences_in") for x in ast.walk(e))  # noqa: E731
            if isinstance(parent, ast.BoolOp) and isinstance(parent.op, ast.And) and any(calls_search(v) for v in parent.values if v is not cmp_):
                # necessary condition for containment: the other operand (the pattern) is at most as long as self
                if rn == me and strict:
                    bad = (cmp_, f"`{unparse(cmp_)}` is required before the search: a pattern exactly as long as the permutation (the permutation itself, the empty pattern in the empty permutation) is never reported as contained")
                elif ln == me:
                    raise AnalysisError(f"{fi.where}: length test `{unparse(cmp_)}` in front of the search is not of a recognised form")
            elif isinstance(parent, ast.If) and parent.test is cmp_ and parent.body and isinstance(parent.body[0], ast.Return) and isinstance(parent.body[0].value, ast.Constant) and parent.body[0].value.value is False:
                if ln == me and not strict:
                    bad = (cmp_, f"`if {unparse(cmp_)}: return False`: a pattern exactly as long as the permutation is answered 'not contained' without a search")
        if bad:
            ctx.violation("C01-L1", fi, bad[0], bad[1], robust=True)
        else:
            ctx.ok("C01-L1", fi.where, "no strict length shortcut in front of the containment search", fi.node, fi)
    if n == 0:
        raise AnalysisError("C01-L1: no containment entry point found on Perm")


_OLD_RUN_L1 = run


def run(ctx: Ctx) -> None:  # noqa: F811
    _OLD_RUN_L1(ctx)
    ctx.run(rule_l1, ctx)


FLOORS["C01-L1"] = 4

EXPLANATION = EXPLANATION + (" Added while building: (L1) a length shortcut in front of a containment search of Perm is non-strict (len(patt) <= len(self) as a necessary condition, "
                             "len(self) < len(patt) as a reason to answer no): a strict one never reports a pattern as long as the permutation.")
