"""C11 – statistics: count = size of listing, name -> function table, tool skeletons."""

from __future__ import annotations

import ast
from typing import Dict, List, Optional, Set, Tuple

from .. import oneshot
from ..core import ct, deviates, AnalysisError, ClassInfo, FuncInfo, Repo, attr_chain, call_name, unparse, walk_no_nested
from ..report import Ctx
from ..skeleton import TRUE, Env, T, func_term, show
from ..skelrules import check_skeleton, spec_from_src

PROP = "C11"
FLOORS = {"C11-RS": 7, "C11-PR": 6, "C11-Q2": 1, "C11-P1": 30, "C11-T1": 34, "C11-Q1": 7, "C11-I1": 3, "C11-D1": 20}

EXPLANATION = (
    "Decided: (a) each counting form equals the size of its listing form for the pairs that are derived by construction (P1: count_X = Count(self.L(args)) "
    "with L the listing of the same concept per a reviewed table; list/set wrappers = list(generator); aliases bind the same concept) – pairs with "
    "independent algorithms are listed as undecided in the evidence; (b) the preservation/transformation/equidistribution tools report a statistic iff "
    "the defining identity holds on the supplied data (Q1 skeletons; I1 one-shot discipline); (c) the name promises the definition as a necessary "
    "condition (T1: every row of the statistics table binds its label to the method of that concept per a reviewed reference table; renames and new "
    "rows are 'unreviewed', never alarms); (d) for statistics *defined by a one-line comprehension* the defining condition itself is compared with the "
    "mathematical definition (D1). NOT decided: statistics computed by loops/recursion (Fenwick inversion count, run scans, layer peeling, bounces, "
    "holeyness, cycle decomposition, order): a wrong comparison there changes listing and count consistently and is not detected."
)

# ------------------------------------------------------------------ reviewed tables

# count method -> listing method(s) of the same concept
PAIRS: Dict[str, Tuple[str, ...]] = {
    "count_fixed_points": ("fixed_points",),
    "count_descents": ("descents",),
    "count_ascents": ("ascents",),
    "count_peaks": ("peaks", "peak_list"),
    "count_valleys": ("valleys", "valley_list"),
    "count_ltrmin": ("ltrmin",),
    "count_ltrmax": ("ltrmax",),
    "count_rtlmin": ("rtlmin", "_rtlmin_reverse_list"),
    "count_rtlmax": ("rtlmax", "_rtlmax_reverse_list"),
    "count_cyclic_peaks": ("cyclic_peaks", "cyclic_peaks_list"),
    "count_cyclic_valleys": ("cyclic_valleys", "cyclic_valleys_list"),
    "count_double_excedance": ("double_excedance", "double_excedance_list"),
    "count_double_drops": ("double_drops", "double_drops_list"),
    "count_foremaxima": ("foremaxima",),
    "count_afterminima": ("afterminima",),
    "count_aftermaxima": ("aftermaxima",),
    "count_foreminima": ("foreminima",),
    "count_bonds": ("all_bonds",),
    "count_inc_bonds": ("inc_bonds",),
    "count_dec_bonds": ("dec_bonds",),
    "count_cycles": ("cycle_decomp",),
    "count_rtlmax_ltrmin_layers": ("rtlmax_ltrmin_decomposition",),
}
INDEPENDENT = {"count_inversions": "inversions", "count_non_inversions": "non_inversions"}
NO_LISTING = {"count_column_sum_primes", "count_bounces", "count_stack_sorts", "count_pop_stack_sorts", "count_occurrences_of"}

WRAPPERS: Dict[str, str] = {
    "peak_list": "peaks", "pinnacle_set": "pinnacles", "valley_list": "valleys", "bend_list": "bends", "descent_set": "descents", "ascent_set": "ascents",
    "cyclic_peaks_list": "cyclic_peaks", "cyclic_valleys_list": "cyclic_valleys", "double_excedance_list": "double_excedance", "double_drops_list": "double_drops",
}
# listings of concepts that have no counting form of their own (a count_X over one of these is wrong)
OTHER_LISTINGS = {"bends": "bends", "bend_list": "bends", "pinnacles": "pinnacles", "pinnacle_set": "pinnacles", "inversions": "inversions", "non_inversions": "non-inversions",
                  "strong_fixed_points": "strong fixed points", "descent_set": "descents", "ascent_set": "ascents"}
ALIAS_EXCEPTIONS = {"count_pinnacles": "count_peaks", "num_pinnacles": "count_peaks", "bonds": "count_bonds"}

# label -> methods the label may bind to (after resolving wrappers / aliases)
LABELS: Dict[str, Tuple[str, ...]] = {
    "Number of inversions": ("count_inversions",),
    "Number of non-inversions": ("count_non_inversions",),
    "Major index": ("major_index",),
    "Number of descents": ("count_descents",),
    "Number of ascents": ("count_ascents",),
    "Number of peaks": ("count_peaks",),
    "Number of valleys": ("count_valleys",),
    "Number of cycles": ("count_cycles",),
    "Number of left-to-right minimas": ("count_ltrmin",),
    "Number of left-to-right maximas": ("count_ltrmax",),
    "Number of right-to-left minimas": ("count_rtlmin",),
    "Number of right-to-left maximas": ("count_rtlmax",),
    "Number of fixed points": ("count_fixed_points",),
    "Order": ("order",),
    "Longest increasing subsequence": (),  # no method of Perm computes the LIS today
    "Longest decreasing subsequence": (),
    "Depth": ("depth",),
    "Number of bounces": ("count_bounces",),
    "Maximum drop size": ("max_drop_size",),
    "Number of primes in the column sums": ("count_column_sum_primes",),
    "Holeyness of a permutation": ("holeyness",),
    "Number of stack-sorts needed": ("count_stack_sorts",),
    "Number of pop-stack-sorts needed": ("count_pop_stack_sorts",),
    "Number of pinnacles": ("count_peaks",),  # pinnacles and peaks select the same positions (checked in P1)
    "Number of cyclic peaks": ("count_cyclic_peaks",),
    "Number of cyclic valleys": ("count_cyclic_valleys",),
    "Number of double excedance": ("count_double_excedance",),
    "Number of double drops": ("count_double_drops",),
    "Number of foremaxima": ("count_foremaxima",),
    "Number of afterminima": ("count_afterminima",),
    "Number of aftermaxima": ("count_aftermaxima",),
    "Number of foreminima": ("count_foreminima",),
}
# methods whose concept is known to the reference although no label above is theirs
OTHER_CONCEPTS = {
    "length_of_longestrun_ascending": "length of the longest ascending *run* (contiguous)",
    "length_of_longestrun_descending": "length of the longest descending *run* (contiguous)",
    "count_bonds": "number of bonds", "count_inc_bonds": "number of increasing bonds", "count_dec_bonds": "number of decreasing bonds",
    "count_rtlmax_ltrmin_layers": "number of rtlmax/ltrmin layers", "min_gapsize": "minimum gap size", "rank": "rank",
}


def run(ctx: Ctx) -> None:
    ctx.run(rule_p1, ctx)
    ctx.run(rule_t1, ctx)
    ctx.run(rule_q1, ctx)
    ctx.run(oneshot.report, ctx, "C11-I1", ["permuta.permutils.statistics"], ["PermutationStatistic.distribution_for_length"])
    ctx.run(rule_d1, ctx)
    ctx.run(rule_q2, ctx)
    ctx.run(rule_prime, ctx)
    ctx.run(rule_records, ctx)


# ------------------------------------------------------------------ P1


def count_form(term) -> Optional[Tuple[str, tuple, bool]]:
    """('count', ('iter', self.L(args)), cond) -> (L, args, has_filter)."""
    if isinstance(term, tuple) and term and term[0] == "count":
        dom = term[1]
        if dom[0] == "iter" and dom[1][0] == "call" and dom[1][1] == ("name", "self") and not dom[1][4]:
            return dom[1][2], dom[1][3], term[2] != TRUE
    return None


def rule_p1(ctx: Ctx) -> None:
    repo = ctx.repo
    perm = repo.cls("Perm")
    owner: Dict[str, str] = {}
    for c, ls in PAIRS.items():
        for l in ls:
            owner[l] = c
    for name, fi in sorted(perm.methods.items()):
        if not (name.startswith("count_") or name.startswith("num_")):
            continue
        if name in NO_LISTING:
            continue
        if name in INDEPENDENT:
            ctx.note(f"C11-P1 undecided pair: {name} / {INDEPENDENT[name]} are independent algorithms (value-level agreement not decided)")
            continue
        try:
            term = func_term(fi)
        except AnalysisError:
            term = None
        cf = count_form(term) if term is not None else None
        if name not in PAIRS:
            if cf is not None and cf[0] in owner:
                ctx.violation("C11-P1", fi, fi.node, f"{name} counts self.{cf[0]}(), the listing of {owner[cf[0]]}")
            else:
                ctx.note(f"C11-P1 unreviewed counting method {name}")
            continue
        if cf is None:
            # sum(<k> for _ in self.L(..)) with k != 1 is not a count
            if isinstance(term, tuple) and term and term[0] == "call" and term[1] is None and term[2] == "sum" and len(term[3]) == 1 and isinstance(term[3][0], tuple) and term[3][0][0] == "comp" \
                    and term[3][0][4][0] == "const" and term[3][0][4][1] not in ("1", "True"):
                ctx.violation("C11-P1", fi, fi.node, f"{name} adds {term[3][0][4][1]} for every element of its listing: it is not the size of the listing")
                continue
            ctx.note(f"C11-P1: {name} is no longer derived from its listing (independent algorithm now): undecided, not a violation")
            continue
        listing, args, filtered = cf
        params = tuple(("name", f"a{i}") for i in range(len(fi.params) - 1))
        if listing in PAIRS[name]:
            if filtered:
                ctx.violation("C11-P1", fi, fi.node, f"{name} counts only part of self.{listing}() (a filter is applied)")
            elif args != params:
                ctx.violation("C11-P1", fi, fi.node, f"{name} calls self.{listing}({', '.join(show(a) for a in args)}) instead of passing its own parameters through")
            elif repo.method("Perm", listing) is None:
                raise AnalysisError(f"listing Perm.{listing} vanished")
            else:
                ctx.ok("C11-P1", fi.where, f"{name} = Count(self.{listing}({', '.join(show(a) for a in args)}))", fi.node, fi)
        elif listing in owner:
            ctx.violation("C11-P1", fi, fi.node, f"{name} counts self.{listing}(), which is the listing of {owner[listing]}, not of {name[6:]}")
        elif listing in OTHER_LISTINGS:
            ctx.violation("C11-P1", fi, fi.node, f"{name} counts self.{listing}(), which lists the {OTHER_LISTINGS[listing]}, not the {name[6:]}")
        else:
            ctx.note(f"C11-P1 unreviewed: {name} counts self.{listing}() (unknown to the reference table)")
    # listing wrappers
    for wname, gen in WRAPPERS.items():
        fi = perm.methods.get(wname)
        if fi is None:
            ctx.note(f"C11-P1: wrapper {wname} not present")
            continue
        n_par = len(fi.params) - 1
        args = ", ".join(f"a{i}" for i in range(n_par))
        ctx.run(check_skeleton, ctx, "C11-P1", fi, [f"return list(self.{gen}({args}))", f"return sorted(self.{gen}({args}))"], f"{wname} = list(self.{gen}(..))")
    # aliases
    for alias, target in sorted(perm.aliases.items()):
        if not (alias.startswith("count_") or alias.startswith("num_") or alias in ALIAS_EXCEPTIONS):
            continue
        want = ALIAS_EXCEPTIONS.get(alias, "count_" + alias.split("_", 1)[1] if "_" in alias else alias)
        if target == want:
            ctx.ok("C11-P1", f"{perm.where}.{alias}", f"alias of {target}")
        elif target in PAIRS or target in INDEPENDENT or target in NO_LISTING:
            ctx.violation("C11-P1", perm.where, perm.assign_nodes[alias], f"{alias} is bound to {target}; its name promises {want}", file=perm.module.relpath)
        else:
            ctx.note(f"C11-P1 unreviewed alias {alias} = {target}")
    # pinnacles / peaks select the same positions
    pk, pn = perm.methods.get("peaks"), perm.methods.get("pinnacles")
    if pk is not None and pn is not None:
        conds = []
        for f in (pk, pn):
            gens = [n for n in ast.walk(f.node) if isinstance(n, ast.GeneratorExp)]
            if len(gens) != 1 or len(gens[0].generators) != 1 or len(gens[0].generators[0].ifs) != 1:
                raise AnalysisError(f"{f.where}: comprehension shape not recognised")
            g = gens[0].generators[0]
            names = [n.id for n in ast.walk(g.target) if isinstance(n, ast.Name)][-3:]
            env = Env({nm: ("bv", 0, i) for i, nm in enumerate(names)})
            conds.append(T(g.ifs[0], env))
        if conds[0] == conds[1]:
            ctx.ok("C11-P1", pn.where, "pinnacles and peaks apply the same selection, so count_pinnacles = count_peaks is sound", pn.node, pn)
        else:
            ctx.violation("C11-P1", pn, pn.node, f"pinnacles selects by {show(conds[1])} but peaks by {show(conds[0])}: count_pinnacles = count_peaks no longer counts the pinnacles")


# ------------------------------------------------------------------ T1


def resolve_stat_callable(repo: Repo, mod, node: ast.AST) -> Optional[str]:
    """Resolve the callable of a table row to a Perm method name."""
    ch = attr_chain(node)
    if ch and len(ch) == 2 and ch[0] == "Perm":
        m = repo.method("Perm", ch[1])
        return m.name if m is not None else None
    if isinstance(node, ast.Name):
        r = repo.resolve_name(mod, node.id)
        if isinstance(r, FuncInfo):
            # one-line wrapper  def _f(perm): return perm.m()
            body = r.body
            if len(body) == 1 and isinstance(body[0], ast.Return) and isinstance(body[0].value, ast.Call):
                cn = call_name(body[0].value)
                if cn and len(cn) == 2 and cn[0] == r.params[0] and not body[0].value.args:
                    m = repo.method("Perm", cn[1])
                    return m.name if m is not None else None
            return None
    if isinstance(node, ast.Lambda) and isinstance(node.body, ast.Call):
        cn = call_name(node.body)
        if cn and len(cn) == 2 and node.args.args and cn[0] == node.args.args[0].arg and not node.body.args:
            m = repo.method("Perm", cn[1])
            return m.name if m is not None else None
    return None


def rule_t1(ctx: Ctx) -> None:
    repo = ctx.repo
    ps = repo.cls("PermutationStatistic")
    table = ps.assigns.get("_STATISTICS")
    if not isinstance(table, (ast.Tuple, ast.List)):
        raise AnalysisError("PermutationStatistic._STATISTICS is not a literal table")
    known_methods: Dict[str, str] = {}
    for label, ms in LABELS.items():
        for m in ms:
            known_methods.setdefault(m, label)
    rows = []
    for row in table.elts:
        if not (isinstance(row, ast.Tuple) and len(row.elts) == 2 and isinstance(row.elts[0], ast.Constant) and isinstance(row.elts[0].value, str)):
            raise AnalysisError(f"unrecognised statistics row {unparse(row)[:60]}")
        rows.append((row.elts[0].value, row.elts[1], row))
    for fi in ps.methods.values():
        # shortcuts  cls("Label", Perm.m)
        if fi.is_classmethod and len(fi.body) == 1 and isinstance(fi.body[0], ast.Return) and isinstance(fi.body[0].value, ast.Call) and call_name(fi.body[0].value) == ("cls",):
            c = fi.body[0].value
            if len(c.args) == 2 and isinstance(c.args[0], ast.Constant) and isinstance(c.args[0].value, str):
                rows.append((c.args[0].value, c.args[1], fi.body[0]))
    labels_seen: Dict[str, int] = {}
    for label, fn, node in rows:
        labels_seen[label] = labels_seen.get(label, 0) + 1
        meth = resolve_stat_callable(repo, ps.module, fn)
        where = f"{ps.where}._STATISTICS"
        if label not in LABELS:
            ctx.note(f"C11-T1 unreviewed label {label!r} -> {unparse(fn)}")
            ctx.ok("C11-T1", where, f"{label!r}: label unknown to the reference table (unreviewed)")
            continue
        if meth is None:
            ctx.note(f"C11-T1 unreviewed callable for {label!r}: {unparse(fn)[:60]}")
            ctx.ok("C11-T1", where, f"{label!r}: callable not resolvable to a Perm method (unreviewed)")
            continue
        if meth in LABELS[label]:
            ctx.ok("C11-T1", where, f"{label!r} -> Perm.{meth}")
        elif meth in known_methods:
            ctx.violation("C11-T1", where, node, f"label {label!r} is bound to Perm.{meth}, which the reference table knows as {known_methods[meth]!r}", file=ps.module.relpath, robust=True)
        elif meth in OTHER_CONCEPTS:
            ctx.violation("C11-T1", where, node, f"label {label!r} is bound to Perm.{meth}, which computes the {OTHER_CONCEPTS[meth]}", file=ps.module.relpath, robust=True)
        else:
            ctx.note(f"C11-T1 unreviewed: {label!r} -> Perm.{meth} (method unknown to the reference: renamed?)")
            ctx.ok("C11-T1", where, f"{label!r} -> Perm.{meth} (unreviewed method name)")
    # table plumbing
    ga = ps.methods.get("_get_all")
    if ga is not None:
        ctx.run(check_skeleton, ctx, "C11-T1", ga, ["yield from (cls(name, func) for name, func in PermutationStatistic._STATISTICS)",
                                                     "return (cls(name, func) for name, func in PermutationStatistic._STATISTICS)",
                                                     "yield from (cls(*row) for row in PermutationStatistic._STATISTICS)"], "_get_all = one PermutationStatistic per table row")
    gi = ps.methods.get("get_by_index")
    if gi is not None:
        ctx.run(check_skeleton, ctx, "C11-T1", gi, ["return cls(*PermutationStatistic._STATISTICS[a0])", "return cls(*cls._STATISTICS[a0])"], "get_by_index(i) = row i")


# ------------------------------------------------------------------ Q1


def rule_q1(ctx: Ctx) -> None:
    repo = ctx.repo
    ps = repo.cls("PermutationStatistic")

    def m(name: str) -> FuncInfo:
        f = ps.methods.get(name)
        if f is None:
            raise AnalysisError(f"anchor vanished: PermutationStatistic.{name}")
        return f

    ctx.run(check_skeleton, ctx, "C11-Q1", m("preserved_in"), ["return all(self.func(k) == self.func(v) for k, v in a0.items())"], "preserved_in(b) = Forall (k,v) in b: func(k) == func(v)")
    ctx.run(check_skeleton, ctx, "C11-Q1", m("check_all_preservations"), ["return (s.name for s in cls._get_all() if s.preserved_in(a0))", "return [s.name for s in cls._get_all() if s.preserved_in(a0)]"],
            "check_all_preservations = names of the statistics with preserved_in")
    ctx.run(check_skeleton, ctx, "C11-Q1", m("equally_distributed"), [
        "return (s.name for s in cls._get_all() if all(s.distribution_for_length(i, a0) == s.distribution_for_length(i, a1) for i in range(a2 + 1)))"],
        "equally_distributed = statistics whose distributions agree for every length 0..n")
    ctx.run(check_skeleton, ctx, "C11-Q1", m("distribution_up_to"), ["return [self.distribution_for_length(i, a1) for i in range(a0 + 1)]"], "distribution_up_to(n) = rows 0..n")
    ctx.run(check_transformed, ctx, m("check_all_transformed"))
    ctx.run(check_distribution, ctx, m("distribution_for_length"))
    ctx.run(check_init, ctx, m("__init__"))


def check_init(ctx: Ctx, fi: FuncInfo) -> None:
    stores = {unparse(st.target if isinstance(st, ast.AnnAssign) else st.targets[0]): unparse(st.value) for st in fi.body if isinstance(st, (ast.Assign, ast.AnnAssign)) and st.value is not None}
    if stores.get("self.name") == fi.params[1] and stores.get("self.func") == fi.params[2]:
        ctx.ok("C11-Q1", fi.where, "name/func stored as given", fi.node, fi)
    else:
        ctx.violation("C11-Q1", fi, fi.node, f"constructor stores {stores}: name and func are not kept as given")


def check_transformed(ctx: Ctx, fi: FuncInfo) -> None:
    bij = fi.params[1]
    loops = [st for st in fi.body if isinstance(st, ast.For)]
    if len(loops) != 1:
        raise AnalysisError(f"{fi.where}: loop not recognised")
    lp = loops[0]
    if isinstance(lp.iter, ast.Call) and call_name(lp.iter) and call_name(lp.iter)[-1] in ("combinations", "combinations_with_replacement", "permutations") and len(lp.iter.args) == 2 \
            and unparse(lp.iter.args[1]) == "2" and isinstance(lp.target, ast.Tuple) and len(lp.target.elts) == 2:
        # the identity stat1(k) == stat2(v) is direction sensitive: each ordered pair has to be evaluated on its own
        kind = call_name(lp.iter)[-1]
        s1, s2 = unparse(lp.target.elts[0]), unparse(lp.target.elts[1])
        evals = [n for n in ast.walk(lp) if isinstance(n, ast.Call) and isinstance(n.func, ast.Name) and n.func.id in ("all", "any")]
        if len(evals) == 1:
            missing = {"combinations": "an earlier statistic paired with itself or a later one with an earlier one", "combinations_with_replacement": "a later statistic paired with an earlier one",
                       "permutations": "a statistic paired with itself"}[kind]
            ctx.violation("C11-Q1", fi, lp, f"pairs come from `{unparse(lp.iter)}` and the identity {s1}(k) == {s2}(v) is evaluated once per pair: the ordered pair ({missing}) is never evaluated, "
                          "although the identity is not symmetric in the two statistics", robust=True)
            return
        raise AnalysisError(f"{fi.where}: pairs formed with {kind}; how both directions are evaluated is not recognised")
    if not (isinstance(lp.iter, ast.Call) and call_name(lp.iter) and call_name(lp.iter)[-1] == "product" and len(lp.iter.args) == 2 and isinstance(lp.target, ast.Tuple) and len(lp.target.elts) == 2):
        raise AnalysisError(f"{fi.where}: pairs are not formed with product(all, all)")
    a, b = unparse(lp.iter.args[0]), unparse(lp.iter.args[1])
    srcs = {}
    for st in fi.body:
        if isinstance(st, ast.Assign) and isinstance(st.targets[0], ast.Name):
            srcs[st.targets[0].id] = unparse(st.value)
    for side in (a, b):
        v = srcs.get(side, side)
        if "_get_all()" not in v:
            ctx.violation("C11-Q1", fi, lp, f"pairs are formed over `{v}`, not over every statistic")
            return
    s1, s2 = unparse(lp.target.elts[0]), unparse(lp.target.elts[1])
    if not (len(lp.body) == 1 and isinstance(lp.body[0], ast.If) and not lp.body[0].orelse):
        raise AnalysisError(f"{fi.where}: loop body not recognised")
    test = lp.body[0].test
    want = spec_from_src(f"return all({s1}.func(k) == {s2}.func(v) for k, v in {bij}.items())")
    env = Env()
    got = T(test, env)
    if got != want:
        from ..skelrules import classify_term

        verdict, why = classify_term(ctx.repo, got, [want])
        if verdict == "violation":
            ctx.violation("C11-Q1", fi, lp.body[0], f"a pair is reported when `{unparse(test)[:90]}`; the defining identity is stat1(k) == stat2(v) for every (k, v) of the bijection ({why[:200]})")
            return
        if verdict != "ok":
            raise AnalysisError(f"{fi.where}: the condition `{unparse(test)[:80]}` under which a pair is reported is not recognised")
    act = unparse(lp.body[0].body[0]) if len(lp.body[0].body) == 1 else ""
    if f"[{s1}.name].append({s2}.name)" not in act and f".setdefault({s1}.name, []).append({s2}.name)" not in act:
        if f"[{s2}.name].append({s1}.name)" in act or f"[{s1}.name].append({s1}.name)" in act or f"[{s2}.name].append({s2}.name)" in act:
            ctx.violation("C11-Q1", fi, lp.body[0], f"a transforming pair is recorded as `{act[:70]}`, not as stat1.name -> stat2.name")
            return
        raise AnalysisError(f"{fi.where}: how a transforming pair is recorded (`{act[:70]}`) is not recognised")
    ctx.ok("C11-Q1", fi.where, "check_all_transformed pairs every statistic with every statistic under stat1(k) == stat2(v)", lp, fi)
    # the table that is filled is the one that is returned
    import re as _re

    mt = _re.match(r"(\w+)[\[.]", act)
    tbl = mt.group(1) if mt else None
    last = fi.body[-1]
    inits = [st for st in fi.body if isinstance(st, (ast.Assign, ast.AnnAssign)) and st.value is not None and unparse(st.targets[0] if isinstance(st, ast.Assign) else st.target) == tbl]
    if tbl is None or not inits or fi.body.index(inits[0]) > fi.body.index(lp):
        ctx.violation("C11-Q1", fi, lp, f"the table `{tbl}` the pairs are recorded in is not created before the loop")
    elif isinstance(last, ast.Return) and last.value is not None and unparse(last.value) in (tbl, f"dict({tbl})"):
        ctx.ok("C11-Q1", fi.where, f"the recorded table `{tbl}` is returned", last, fi)
    else:
        ctx.violation("C11-Q1", fi, last, f"check_all_transformed does not end by returning the recorded table `{tbl}`")


def check_distribution(ctx: Ctx, fi: FuncInfo) -> None:
    n, pc = fi.params[1], fi.params[2]
    src = None
    counter = None
    for st in fi.body:
        if isinstance(st, ast.Assign) and isinstance(st.targets[0], ast.Name):
            v = st.value
            if isinstance(v, ast.IfExp):
                src = (st.targets[0].id, unparse(v))
            if isinstance(v, ast.Call) and call_name(v) == ("Counter",) and v.args and isinstance(v.args[0], ast.GeneratorExp):
                counter = (st.targets[0].id, v.args[0], st)
    if src is None or counter is None:
        raise AnalysisError(f"{fi.where}: shape not recognised")
    if src[1] != f"{pc}.of_length({n}) if {pc} else Perm.of_length({n})":
        ctx.violation("C11-Q1", fi, fi.node, f"the permutations counted are `{src[1]}`; expected the class's level {n} (or all permutations of length {n})")
        return
    g = counter[1]
    if g.generators[0].ifs or len(g.generators) != 1 or unparse(g.generators[0].iter) != src[0] or unparse(g.elt) != f"self.func({unparse(g.generators[0].target)})":
        ctx.violation("C11-Q1", fi, counter[2], "the distribution does not count self.func(p) for every permutation p of the level (filter or different source)")
        return
    loops = [st for st in fi.body if isinstance(st, ast.For)]
    ok = len(loops) == 1 and unparse(loops[0].iter) == f"{counter[0]}.items()" and len(loops[0].body) == 1
    if ok:
        k, v = [unparse(e) for e in loops[0].target.elts]
        ok = isinstance(loops[0].body[0], ast.Assign) and unparse(loops[0].body[0]).replace(" ", "").endswith(f"[{k}]={v}")
    if not ok:
        ctx.violation("C11-Q1", fi, loops[0] if loops else fi.node, "the result list is not filled with every (value, multiplicity) of the counter: the distribution would not sum to the size of the class")
        return
    ctx.ok("C11-Q1", fi.where, "distribution = multiplicity of func(p) over every p of the level: sums to the size of the class", counter[2], fi)


# ------------------------------------------------------------------ D1: comprehension-defined statistics

PAIR = "enumerate(zip(self, itertools.islice(self, 1, None)))"
TRIPLE = "enumerate(zip(itertools.islice(self, 0, None), itertools.islice(self, 1, None), itertools.islice(self, 2, None)))"
DEFS: List[Tuple[str, List[str], str]] = [
    ("fixed_points", ["return (i for i, v in enumerate(self) if i == v)"], "fixed points: positions i with self[i] == i"),
    ("peaks", [f"return (i + 1 for i, (p, c, n) in {TRIPLE} if p < c > n)"], "peaks: interior positions larger than both neighbours"),
    ("valleys", [f"return (i + 1 for i, (p, c, n) in {TRIPLE} if p > c < n)"], "valleys: interior positions smaller than both neighbours"),
    ("bends", [f"return (i + 1 for i, (p, c, n) in {TRIPLE} if p < c > n or p > c < n)"], "bends: peaks or valleys"),
    ("pinnacles", ["return (c for p, c, n in zip(itertools.islice(self, 0, None), itertools.islice(self, 1, None), itertools.islice(self, 2, None)) if p < c > n)"], "pinnacles: values at peaks"),
    ("all_bonds", [f"return (i for i, (p, c) in {PAIR} if c == p + 1 or p == c + 1)"], "bonds: adjacent entries differing by one"),
    ("inc_bonds", [f"return (i for i, (p, c) in {PAIR} if c == p + 1)"], "increasing bonds"),
    ("dec_bonds", [f"return (i for i, (p, c) in {PAIR} if p == c + 1)"], "decreasing bonds"),
    ("cyclic_peaks", ["for i, v in enumerate(self):\n    if i < v > self[v]:\n        yield i"], "cyclic peaks: i < self[i] > self[self[i]]"),
    ("cyclic_valleys", ["for i, v in enumerate(self):\n    if i > v < self[v]:\n        yield i"], "cyclic valleys"),
    ("double_excedance", ["for i, v in enumerate(self):\n    if i < v < self[v]:\n        yield i"], "double excedances: i < self[i] < self[self[i]]"),
    ("double_drops", ["for i, v in enumerate(self):\n    if i > v > self[v]:\n        yield i"], "double drops"),
    ("depth", ["return sum(v - i for i, v in enumerate(self) if v > i)"], "depth: total displacement of the excedances"),
    ("max_drop_size", ["return max((v - i for i, v in enumerate(self)), default=0)"], "maximum drop size"),
    ("major_index", ["return sum(1 + d for d in self.descents())"], "major index: sum of the 1-based descent positions"),
    ("is_increasing", ["return all(i == v for i, v in enumerate(self))"], "identity test"),
    ("is_decreasing", ["n = len(self)\nreturn all(v == n - i - 1 for i, v in enumerate(self))"], "reverse identity test"),
    ("count_column_sum_primes", ["return sum(1 for i, v in enumerate(self) if is_prime(v + i + 2))"], "primes among the 1-based column sums i + self[i]"),
    ("count_non_inversions", ["n = len(self)\nreturn n * (n - 1) // 2 - self.count_inversions()"], "non-inversions = C(n,2) - inversions"),
    ("length_of_longestrun_descending", ["return self.complement().length_of_longestrun_ascending()"], "longest descending run = longest ascending run of the complement"),
    ("length_of_longestrun_ascending", ["return self.longestruns_ascending()[0]"], "length component of longestruns_ascending"),
    ("strong_fixed_points", ["return (i for i in self.ltrmax() if i == self[i])"], "strong fixed points: fixed points that are left-to-right maxima"),
]


def rule_q2(ctx: Ctx) -> None:
    """A PermutationStatistic carries its name and function, nothing else: results of the distribution and
    comparison tools cannot depend on which queries the same object answered before.  Unreviewed state
    (a memo) is neither accused nor passed: it needs its own argument."""
    repo = ctx.repo
    ps = repo.cls("PermutationStatistic")
    stores = 0
    for fi in repo.all_funcs():
        top = fi
        while top.parent is not None:
            top = top.parent
        if top.cls is not ps:
            continue
        for node in walk_no_nested(fi.node):
            if isinstance(node, (ast.Assign, ast.AugAssign, ast.AnnAssign)):
                for t in (node.targets if isinstance(node, ast.Assign) else [node.target]):
                    for leaf in (t.elts if isinstance(t, ast.Tuple) else [t]):
                        base = leaf
                        while isinstance(base, ast.Subscript):
                            base = base.value
                        if isinstance(base, ast.Attribute) and isinstance(base.value, ast.Name) and base.value.id in ("self", "cls", ps.name):
                            stores += 1
                            if top.name != "__init__":
                                raise AnalysisError(f"{fi.where}: stores `{unparse(leaf)[:50]}` – state on a statistic object/class outside its constructor; the tools' results may depend on earlier queries (not decided)")
    mutable_cls = [k for k, v in ps.assigns.items() if isinstance(v, (ast.Dict, ast.List, ast.Set)) or (isinstance(v, ast.Call) and call_name(v) and call_name(v)[-1] in ("dict", "list", "set", "defaultdict"))]
    if mutable_cls:
        raise AnalysisError(f"{ps.where}: class-level mutable state {mutable_cls} (not decided)")
    ctx.ok("C11-Q2", ps.where, f"statistic objects are stateless beyond (name, func): {stores} attribute stores, all in the constructor; no class-level mutable container")


def rule_prime(ctx: Ctx) -> None:
    """The primality helper is the 6k+-1 trial division: small cases, multiples of 2 and 3 excluded, then every
    candidate divisor d = 5, 7, 11, 13, ... (i and i + 2, step 6) with d*d <= n.  Each piece is necessary:
    a strict bound misses squares of primes, another start/step/offset skips candidates."""
    from ..affine import NotAffine, Poly, poly_of
    from ..core import inlined_text

    mod = ctx.repo.module("permuta.misc.math")
    f = mod.functions.get("is_prime")
    if f is None:
        raise AnalysisError("permuta.misc.math.is_prime vanished")
    n = f.params[0]
    body = f.body
    loops = [st for st in body if isinstance(st, ast.While)]
    for_loops = [st for st in body if isinstance(st, ast.For)]
    if not loops and len(for_loops) == 1:
        return _prime_range_form(ctx, f, for_loops[0])
    if len(loops) != 1:
        raise AnalysisError(f"{f.where}: not a single trial-division loop")
    lp = loops[0]
    pre = body[: body.index(lp)]
    post = body[body.index(lp) + 1:]
    ok = True
    # small cases and the 2/3 filter
    small = [st for st in pre if isinstance(st, ast.If)]
    txt = [(unparse(st.test), unparse(st.body[0]) if len(st.body) == 1 else "") for st in small]
    if any((ct(a), ct(b)) in txt for a in (f"{n} <= 3", f"{n} < 4") for b in (f"return {n} > 1", f"return {n} >= 2")):
        ctx.ok("C11-PR", f.where, "n <= 3: prime iff n > 1", small[0], f)
    else:
        raise AnalysisError(f"{f.where}: small-case branch not recognised")
    filt = [t for t in txt if t[1] == "return False"]
    # every condition under which False is returned before the loop, however the tests are grouped (one `or`, two ifs, ...)
    rejected = {part for t in filt for part in t[0].split(" or ")}
    extra = rejected - {f"{n} % 2 == 0", f"{n} % 3 == 0"}
    if {f"{n} % 2 == 0", f"{n} % 3 == 0"} <= rejected and not extra:
        ctx.ok("C11-PR", f.where, "multiples of 2 and 3 are rejected before the loop", small[-1], f)
    elif extra:
        raise AnalysisError(f"{f.where}: numbers are rejected before the loop under {sorted(extra)}; not recognised")
    else:
        ctx.violation("C11-PR", f, small[-1] if small else f.node, "multiples of 2 and of 3 are not both rejected before the 6k+-1 loop (the loop never tries 2 or 3)", robust=True)
        ok = False
    # start value
    starts = [st for st in pre if isinstance(st, ast.Assign) and isinstance(st.targets[0], ast.Name)]
    if len(starts) != 1:
        raise AnalysisError(f"{f.where}: loop variable initialisation not recognised")
    i = starts[0].targets[0].id
    if unparse(starts[0].value) != "5":
        deviates(ctx, "C11-PR", f, starts[0], unparse(starts[0].value), ["5"], f"trial division starts at {unparse(starts[0].value)}; the 6k+-1 candidates start at 5", k=1)
        ok = False
    # bound: i*i <= n
    t = lp.test
    bound_ok = None
    if isinstance(t, ast.Compare) and len(t.ops) == 1:
        l, r, op = t.left, t.comparators[0], t.ops[0]
        try:
            pl, pr = poly_of(_pow_to_mul(l), {i: Poly.sym("i"), n: Poly.sym("N")}), poly_of(_pow_to_mul(r), {i: Poly.sym("i"), n: Poly.sym("N")})
            sq, nn = Poly.sym("i") * Poly.sym("i"), Poly.sym("N")
            if (pl, pr) == (sq, nn):
                bound_ok = isinstance(op, ast.LtE)
                strict = isinstance(op, ast.Lt)
            elif (pl, pr) == (nn, sq):
                bound_ok = isinstance(op, ast.GtE)
                strict = isinstance(op, ast.Gt)
            else:
                strict = False
            if bound_ok is False and strict:
                ctx.violation("C11-PR", f, lp, f"trial division runs while `{unparse(t)}`: a divisor d with d*d == n is never tried, so squares of primes (25, 49, 121, ...) are reported prime")
                ok = False
            elif bound_ok is None:
                raise AnalysisError(f"{f.where}: loop bound `{unparse(t)}` not recognised")
            elif bound_ok is False:
                raise AnalysisError(f"{f.where}: loop bound `{unparse(t)}` not recognised")
        except NotAffine:
            raise AnalysisError(f"{f.where}: loop bound `{unparse(t)}` not recognised")
    else:
        raise AnalysisError(f"{f.where}: loop bound `{unparse(t)}` not recognised")
    if bound_ok:
        ctx.ok("C11-PR", f.where, "every candidate d with d*d <= n is tried", lp, f)
    # body: n % i == 0 or n % (i + 2) == 0 -> False ; i += 6
    tests = [st for st in lp.body if isinstance(st, ast.If)]
    steps = [st for st in lp.body if isinstance(st, ast.AugAssign)]
    if len(tests) == 1 and len(steps) == 1:
        from ..core import subst_names as _subst

        # named candidates (low = i; high = i + 2 at the top of the round) are read through
        body_env = {}
        for st in lp.body:
            if st is tests[0]:
                break
            if isinstance(st, ast.Assign) and len(st.targets) == 1 and isinstance(st.targets[0], ast.Name) and st.targets[0].id != i:
                body_env[st.targets[0].id] = _subst(st.value, body_env)
        test_txt = unparse(_subst(tests[0].test, body_env))
        parts = set(test_txt.split(" or "))
        want_parts = {f"{n} % {i} == 0", f"{n} % ({i} + 2) == 0"}
        if parts == want_parts and unparse(tests[0].body[0]) == "return False":
            ctx.ok("C11-PR", f.where, "each round tries i and i + 2", tests[0], f)
        else:
            deviates(ctx, "C11-PR", f, tests[0], " or ".join(sorted(parts)), [" or ".join(sorted(want_parts))],
                     f"a round tests `{unparse(tests[0].test)}`; the candidates of a round are i and i + 2 (6k-1 and 6k+1)", k=4)
            ok = False
        if isinstance(steps[0].op, ast.Add) and unparse(steps[0].value) == "6" and unparse(steps[0].target) == i:
            ctx.ok("C11-PR", f.where, "step 6", steps[0], f)
        else:
            deviates(ctx, "C11-PR", f, steps[0], unparse(steps[0]), [f"{i} += 6"], f"candidates advance by `{unparse(steps[0])}`; the 6k+-1 wheel advances by 6", k=2)
            ok = False
    else:
        raise AnalysisError(f"{f.where}: loop body not recognised")
    if not (len(post) == 1 and unparse(post[0]) == "return True"):
        ctx.violation("C11-PR", f, post[0] if post else lp, "a number without a divisor found is not reported prime")
    _ = ok


def _prime_range_form(ctx: Ctx, f: FuncInfo, lp: ast.For) -> None:
    """`for i in range(5, STOP, 6): if n % i == 0 or n % (i + 2) == 0: return False` – the same wheel written with range;
    range stops BEFORE its bound, so the bound must be floor(sqrt(n)) + 1."""
    n = f.params[0]
    body = f.body
    pre, post = body[: body.index(lp)], body[body.index(lp) + 1:]
    small = [st for st in pre if isinstance(st, ast.If)]
    txt = [(unparse(st.test), unparse(st.body[0]) if len(st.body) == 1 else "") for st in small]
    if not any((ct(a), ct(b)) in txt for a in (f"{n} <= 3", f"{n} < 4") for b in (f"return {n} > 1", f"return {n} >= 2")):
        raise AnalysisError(f"{f.where}: small-case branch not recognised")
    ctx.ok("C11-PR", f.where, "n <= 3: prime iff n > 1", small[0], f)
    filt = [t for t in txt if t[1] == "return False"]
    # every condition under which False is returned before the loop, however the tests are grouped (one `or`, two ifs, ...)
    rejected = {part for t in filt for part in t[0].split(" or ")}
    extra = rejected - {f"{n} % 2 == 0", f"{n} % 3 == 0"}
    if {f"{n} % 2 == 0", f"{n} % 3 == 0"} <= rejected and not extra:
        ctx.ok("C11-PR", f.where, "multiples of 2 and 3 are rejected before the loop", small[-1], f)
    elif extra:
        raise AnalysisError(f"{f.where}: numbers are rejected before the loop under {sorted(extra)}; not recognised")
    else:
        ctx.violation("C11-PR", f, small[-1] if small else f.node, "multiples of 2 and of 3 are not both rejected before the 6k+-1 loop (the loop never tries 2 or 3)", robust=True)
    it = lp.iter
    if not (isinstance(it, ast.Call) and isinstance(it.func, ast.Name) and it.func.id == "range" and len(it.args) == 3 and not it.keywords and isinstance(lp.target, ast.Name)) or lp.orelse:
        raise AnalysisError(f"{f.where}: candidate range `{unparse(it)}` not recognised")
    i = lp.target.id
    start, stop, step = (unparse(a) for a in it.args)
    if start != "5":
        ctx.violation("C11-PR", f, lp, f"trial division starts at {start}; the 6k+-1 candidates start at 5")
    if step != "6":
        ctx.violation("C11-PR", f, lp, f"candidates advance by {step}; the 6k+-1 wheel advances by 6")
    else:
        ctx.ok("C11-PR", f.where, "step 6", lp, f)
    roots = [f"isqrt({n})", f"math.isqrt({n})", f"int({n} ** 0.5)", f"int(math.sqrt({n}))", f"int(sqrt({n}))"]
    if stop in [f"{r} + 1" for r in roots] + [f"1 + {r}" for r in roots]:
        ctx.ok("C11-PR", f.where, "every candidate d with d*d <= n is tried (range bound is the integer square root plus one)", lp, f)
    elif stop in roots:
        ctx.violation("C11-PR", f, lp, f"candidates come from `{unparse(it)}`, which stops before {stop}: a divisor d with d*d == n is never tried, so squares of primes (25, 49, 121, ...) are reported prime", robust=True)
    else:
        raise AnalysisError(f"{f.where}: range bound `{stop}` not recognised")
    if len(lp.body) == 1 and isinstance(lp.body[0], ast.If) and not lp.body[0].orelse:
        t = lp.body[0]
        parts = set(unparse(t.test).split(" or "))
        if parts == {f"{n} % {i} == 0", f"{n} % ({i} + 2) == 0"} and len(t.body) == 1 and unparse(t.body[0]) == "return False":
            ctx.ok("C11-PR", f.where, "each round tries i and i + 2", t, f)
        elif parts < {f"{n} % {i} == 0", f"{n} % ({i} + 2) == 0"} and len(t.body) == 1 and unparse(t.body[0]) == "return False":
            ctx.violation("C11-PR", f, t, f"a round tests `{unparse(t.test)}`; the candidates of a round are i and i + 2 (6k-1 and 6k+1)")
        else:
            raise AnalysisError(f"{f.where}: loop body not recognised")
    else:
        raise AnalysisError(f"{f.where}: loop body not recognised")
    if not (len(post) == 1 and unparse(post[0]) == "return True"):
        ctx.violation("C11-PR", f, post[0] if post else lp, "a number without a divisor found is not reported prime")


RECORDS = {"ltrmin": ("min", "ltr"), "ltrmax": ("max", "ltr"), "_rtlmin_reverse_list": ("min", "rtl"), "_rtlmax_reverse_list": ("max", "rtl")}


def rule_records(ctx: Ctx) -> None:
    """Left-to-right / right-to-left minima and maxima are one running-extreme scan with three slots:
    scan direction, comparison direction (with a sentinel beyond every entry) and the reported position."""
    from ..affine import I, N, NM1, NotAffine, Poly, poly_of
    from ..core import flow_env, subst_names

    repo = ctx.repo
    for name, (kind, direction) in RECORDS.items():
        f = repo.method("Perm", name)
        if f is None:
            ctx.note(f"C11-RS: Perm.{name} not present")
            continue
        ctx.run(check_record, ctx, f, kind, direction)
    for name, inner in (("rtlmin", "_rtlmin_reverse_list"), ("rtlmax", "_rtlmax_reverse_list")):
        f = repo.method("Perm", name)
        if f is not None and repo.method("Perm", inner) is not None:
            ctx.run(check_skeleton, ctx, "C11-RS", f, [f"yield from reversed(self.{inner}())", f"return reversed(self.{inner}())", f"return iter(reversed(self.{inner}()))"],
                    f"{name} = the reverse-scan records in increasing position order", required_calls=[inner])
    od = repo.method("Perm", "order")
    if od is not None:
        ctx.run(check_order, ctx, od)


def check_record(ctx: Ctx, f: FuncInfo, kind: str, direction: str) -> None:
    from ..affine import I, N, NM1, NotAffine, Poly, poly_of
    from ..core import flow_env, subst_names

    self_n = f.params[0]
    loops = [st for st in f.body if isinstance(st, ast.For)]
    if len(loops) != 1:
        raise AnalysisError(f"{f.where}: scan loop not recognised")
    lp = loops[0]
    env = flow_env(f, lp)
    it = unparse(lp.iter)
    want_it = f"enumerate({self_n})" if direction == "ltr" else f"enumerate(reversed({self_n}))"
    # recognised scan sources: (scan direction, value of the first loop variable at scan step I)
    n_names = [k for k, v in env.items() if unparse(v) == f"len({self_n})"] + [f"len({self_n})"]
    sources = {f"enumerate({self_n})": ("ltr", I), f"enumerate(reversed({self_n}))": ("rtl", I)}
    for nn in n_names:
        sources[f"zip(range({nn}), {self_n})"] = ("ltr", I)
        sources[f"zip(range({nn} - 1, -1, -1), reversed({self_n}))"] = ("rtl", NM1 - I)
    if it not in sources or not (isinstance(lp.target, ast.Tuple) and len(lp.target.elts) == 2):
        raise AnalysisError(f"{f.where}: scan source `{it}` not recognised")
    got_dir, first_var_poly = sources[it]
    if got_dir != direction:
        ctx.violation("C11-RS", f, lp, f"{f.name} scans `{it}`; {'left-to-right' if direction == 'ltr' else 'right-to-left'} records need `{want_it}`")
        return
    idx, val = [unparse(e) for e in lp.target.elts]
    if len(lp.body) != 1 or not isinstance(lp.body[0], ast.If) or lp.body[0].orelse:
        raise AnalysisError(f"{f.where}: loop body not recognised")
    iff = lp.body[0]
    t = iff.test
    if not (isinstance(t, ast.Compare) and len(t.ops) == 1):
        raise AnalysisError(f"{f.where}: record test not recognised")
    l, r, op = unparse(t.left), unparse(t.comparators[0]), type(t.ops[0])
    acc = r if l == val else l if r == val else None
    if acc is None:
        raise AnalysisError(f"{f.where}: record test `{unparse(t)}` does not compare the entry with the running extreme")
    less = op in (ast.Lt, ast.LtE) if l == val else op in (ast.Gt, ast.GtE)
    if (kind == "min") != less:
        ctx.violation("C11-RS", f, iff, f"{f.name} records an entry when `{unparse(t)}`; a running {'minimum' if kind == 'min' else 'maximum'} is updated by entries that are {'smaller' if kind == 'min' else 'larger'}")
        return
    # sentinel
    init = env.get(acc)
    if init is None:
        raise AnalysisError(f"{f.where}: initial value of `{acc}` not found")
    itxt = unparse(init)
    good_init = itxt in (f"len({self_n})", f"len({self_n}) + 1") if kind == "min" else itxt in ("-1",)
    if not good_init:
        ctx.violation("C11-RS", f, lp, f"the running {'minimum' if kind == 'min' else 'maximum'} starts at `{itxt}`; it must start beyond every entry ({'len(self)' if kind == 'min' else '-1'}) so that the first entry is always a record")
        return
    upd = [st for st in iff.body if isinstance(st, ast.Assign) and unparse(st.targets[0]) == acc]
    if len(upd) != 1 or unparse(upd[0].value) != val:
        ctx.violation("C11-RS", f, iff, f"the running extreme `{acc}` is not updated to the record entry")
        return
    rep = [n for st in iff.body for n in ast.walk(st) if isinstance(n, ast.Yield) or (isinstance(n, ast.Call) and isinstance(n.func, ast.Attribute) and n.func.attr == "append")]
    if len(rep) != 1:
        raise AnalysisError(f"{f.where}: reported position not recognised")
    pos = rep[0].value if isinstance(rep[0], ast.Yield) else rep[0].args[0]
    penv = {idx: first_var_poly}
    for k, v in env.items():
        if unparse(v) == f"len({self_n})":
            penv[k] = N
    try:
        p = poly_of(pos, penv, (self_n,))
    except NotAffine as exc:
        raise AnalysisError(f"{f.where}: reported position `{unparse(pos)}` not affine ({exc})")
    want = I if direction == "ltr" else NM1 - I
    if p == want:
        ctx.ok("C11-RS", f.where, f"{f.name}: running {kind} over {want_it}, sentinel {itxt}, reports position {p!r}", lp, f)
    else:
        ctx.violation("C11-RS", f, rep[0] if hasattr(rep[0], 'lineno') else iff, f"{f.name} reports position {p!r} for the entry met at scan index I; the position in the permutation is {want!r}")


def check_order(ctx: Ctx, f: FuncInfo) -> None:
    body = f.body
    loops = [st for st in body if isinstance(st, ast.For)]
    rets = [st for st in body if isinstance(st, ast.Return)]
    inits = [st for st in body if isinstance(st, ast.Assign)]
    if len(loops) != 1 or len(rets) != 1 or len(inits) != 1:
        raise AnalysisError(f"{f.where}: lcm fold not recognised")
    acc = unparse(inits[0].targets[0])
    lp = loops[0]
    c = unparse(lp.target)
    if unparse(inits[0].value) != "1":
        ctx.violation("C11-RS", f, inits[0], "the order (lcm of the cycle lengths) must start from 1")
        return
    if unparse(lp.iter) not in (f"map(len, {f.params[0]}.cycle_decomp())", f"(len(x) for x in {f.params[0]}.cycle_decomp())"):
        raise AnalysisError(f"{f.where}: fold source `{unparse(lp.iter)}` not recognised")
    if len(lp.body) != 1 or not isinstance(lp.body[0], ast.Assign) or unparse(lp.body[0].targets[0]) != acc:
        raise AnalysisError(f"{f.where}: fold step not recognised")
    step = unparse(lp.body[0].value).replace(" ", "")
    good = {f"{acc}*{c}//math.gcd({acc},{c})", f"{c}*{acc}//math.gcd({acc},{c})", f"{acc}*{c}//math.gcd({c},{acc})", f"{acc}*{c}//gcd({acc},{c})", f"math.lcm({acc},{c})", f"{acc}//math.gcd({acc},{c})*{c}"}
    if step in good and unparse(rets[0].value) == acc:
        ctx.ok("C11-RS", f.where, "order = lcm of the cycle lengths (fold acc*c // gcd(acc, c) from 1)", lp, f)
    else:
        ctx.violation("C11-RS", f, lp.body[0], f"order folds the cycle lengths with `{unparse(lp.body[0].value)}`; the order of a permutation is the least common multiple of its cycle lengths")


def _pow_to_mul(node: ast.AST) -> ast.AST:
    if isinstance(node, ast.BinOp) and isinstance(node.op, ast.Pow) and isinstance(node.right, ast.Constant) and node.right.value == 2:
        return ast.BinOp(left=node.left, op=ast.Mult(), right=node.left)
    return node


def rule_d1(ctx: Ctx) -> None:
    repo = ctx.repo
    for name, specs, what in DEFS:
        fi = repo.method("Perm", name)
        if fi is None:
            ctx.note(f"C11-D1: Perm.{name} not present")
            continue
        specs = list(specs) + [s.replace("itertools.islice", "islice") for s in specs if "itertools.islice" in s]
        ctx.run(generator_or_skeleton, ctx, fi, specs, what)
    # descents / ascents: two branches (all steps / steps of a given size)
    for name, op in (("descents", ">"), ("ascents", "<")):
        fi = repo.method("Perm", name)
        if fi is None:
            continue
        ctx.run(check_steps, ctx, fi, op)


def generator_or_skeleton(ctx: Ctx, fi: FuncInfo, specs: List[str], what: str, rule: str = "C11-D1") -> None:
    """Generator functions of the shape ``for t in D: if C: yield E`` are compared as the
    equivalent generator expression."""
    body = fi.body
    if len(body) == 1 and isinstance(body[0], ast.For) and len(body[0].body) == 1 and isinstance(body[0].body[0], ast.If) and not body[0].body[0].orelse \
            and len(body[0].body[0].body) == 1 and isinstance(body[0].body[0].body[0], ast.Expr) and isinstance(body[0].body[0].body[0].value, ast.Yield):
        lp, iff = body[0], body[0].body[0]
        ge = ast.GeneratorExp(elt=iff.body[0].value.value, generators=[ast.comprehension(target=lp.target, iter=lp.iter, ifs=[iff.test], is_async=0)])
        from ..skeleton import placeholder_env

        impl = T(ge, placeholder_env(fi.node))
        spec_terms = []
        for s in specs:
            s = s.strip()
            if s.startswith("for "):
                node = ast.parse(s).body[0]
                ge2 = ast.GeneratorExp(elt=node.body[0].body[0].value.value, generators=[ast.comprehension(target=node.target, iter=node.iter, ifs=[node.body[0].test], is_async=0)])
                spec_terms.append(T(ge2, Env()))
            else:
                spec_terms.append(spec_from_src(s))
        from ..skelrules import logic_vocab
        from ..skeleton import has_unrecognised

        if impl in spec_terms:
            ctx.ok(rule, fi.where, f"{what}: {show(impl)[:160]}", fi.node, fi)
            return
        from ..skelrules import edit_distance, prop_equivalent, same_atoms

        for s in spec_terms:
            if prop_equivalent(impl, s, ctx.repo) is True:
                ctx.ok(rule, fi.where, f"{what}: {show(impl)[:160]}", fi.node, fi)
                return
        for s in spec_terms:
            if has_unrecognised(impl):
                continue
            if edit_distance(impl, s, 1) == 1 or (same_atoms(impl, s) and prop_equivalent(impl, s, ctx.repo) is False):
                ctx.violation(rule, fi, fi.node, f"{what}: implementation selects  {show(impl)[:200]}  but the definition is  {show(s)[:200]}", robust=True)
                return
        raise AnalysisError(f"{fi.where}: cannot compare with the definition ({what})")
    specs2 = [s for s in specs if not s.strip().startswith("for ")]
    if not specs2:
        # specification is given in loop form but the implementation is an expression: rewrite the spec
        specs2 = []
        for s in specs:
            node = ast.parse(s.strip()).body[0]
            ge2 = ast.GeneratorExp(elt=node.body[0].body[0].value.value, generators=[ast.comprehension(target=node.target, iter=node.iter, ifs=[node.body[0].test], is_async=0)])
            specs2.append("return " + ast.unparse(ge2))
    check_skeleton(ctx, rule, fi, specs2, what)


def check_steps(ctx: Ctx, fi: FuncInfo, op: str) -> None:
    """descents/ascents: `prev OP curr` for all steps; with a step size, additionally |prev - curr| == step."""
    gens = [n for n in ast.walk(fi.node) if isinstance(n, ast.GeneratorExp)]
    if len(gens) != 2:
        raise AnalysisError(f"{fi.where}: expected two generator expressions (all steps / given step size)")
    from ..skeleton import placeholder_env

    env = placeholder_env(fi.node)
    want_all = spec_from_src(f"return (i for i, (p, c) in {PAIR} if p {op} c)")
    want_all2 = spec_from_src(f"return (i for i, (p, c) in {PAIR.replace('itertools.', '')} if p {op} c)")
    diff = "p - c" if op == ">" else "c - p"
    want_step = [spec_from_src(f"return (i for i, (p, c) in {pair} if p {op} c and {cond})") for pair in (PAIR, PAIR.replace("itertools.", ""))
                 for cond in (f"{diff} == a0", f"a0 == {diff}")]
    want_step += [spec_from_src(f"return (i for i, (p, c) in {pair} if {diff} == a0)") for pair in (PAIR, PAIR.replace("itertools.", ""))]
    want_step += [spec_from_src(f"return (i for i, (p, c) in {pair} if {c2})") for pair in (PAIR, PAIR.replace("itertools.", "")) for c2 in (f"p == c + a0" if op == ">" else "c == p + a0", f"p - a0 == c" if op == ">" else "c - a0 == p")]
    terms = [T(g, env) for g in gens]
    hits_all = [t for t in terms if t in (want_all, want_all2)]
    hits_step = [t for t in terms if t in want_step]
    if len(hits_all) == 1 and len(hits_step) == 1:
        ctx.ok("C11-D1", fi.where, f"{fi.name}: positions i with self[i] {op} self[i+1]; with a step size, exactly that difference", fi.node, fi)
        return
    from ..skelrules import edit_distance

    for t in terms:
        if t not in (want_all, want_all2) and t not in want_step:
            for w in [want_all, want_all2] + want_step:
                if edit_distance(t, w, 1) == 1:
                    ctx.violation("C11-D1", fi, fi.node, f"{fi.name}: selects  {show(t)[:200]}  but the definition is  {show(w)[:200]}")
                    return
    raise AnalysisError(f"{fi.where}: step comprehension not comparable with the definition")


# ------------------------------------------------------------------ thorough tier


def _append_row(tree: ast.Module) -> None:
    for node in ast.walk(tree):
        if isinstance(node, ast.Assign) and isinstance(node.targets[0], ast.Name) and node.targets[0].id == "_STATISTICS" and isinstance(node.value, ast.Tuple):
            node.value.elts.append(ast.parse("('Number of bonds', Perm.count_bonds)", mode="eval").body)
            return
    from ..selftest import Skip

    raise Skip("_STATISTICS")


GENERIC_FILES = ['permuta/patterns/perm.py', 'permuta/permutils/statistics.py', 'permuta/misc/math.py']


def variants():
    from ..selftest import generic_equiv, generic_silent

    return _variants() + generic_silent(GENERIC_FILES) + generic_equiv(GENERIC_FILES)


def _variants():
    from ..selftest import V, custom, insert_stmt, reformat_only, rename_local, replace_expr, replace_stmt

    PE, ST = "permuta/patterns/perm.py", "permuta/permutils/statistics.py"
    return [
        V("count-cyclic-peaks-valleys", replace_expr(PE, "Perm.count_cyclic_peaks", "self.cyclic_peaks()", "self.cyclic_valleys()"), "fire", "C11-P1"),
        V("count-peaks-bends", replace_expr(PE, "Perm.count_peaks", "self.peaks()", "self.bends()"), "fire", "C11-P1"),
        V("count-descents-drops-arg", replace_expr(PE, "Perm.count_descents", "self.descents(step_size)", "self.descents()"), "fire", "C11-P1"),
        V("count-ltrmin-filtered", replace_expr(PE, "Perm.count_ltrmin", "sum((1 for _ in self.ltrmin()))", "sum((1 for x in self.ltrmin() if x))"), "fire", "C11-P1"),
        V("count-rtlmax-min", replace_expr(PE, "Perm.count_rtlmax", "self._rtlmax_reverse_list()", "self._rtlmin_reverse_list()"), "fire", "C11-P1"),
        V("alias-num-peaks-valleys", replace_stmt(PE, "Perm", "num_peaks = count_peaks", "num_peaks = count_valleys"), "fire", "C11-P1"),
        V("peak-list-of-valleys", replace_expr(PE, "Perm.peak_list", "self.peaks()", "self.valleys()"), "fire-or-undecided", "C11-P1"),
        V("pinnacles-diverge", replace_expr(PE, "Perm.pinnacles", "prev < curr > nxt", "prev <= curr > nxt"), "fire", "C11"),
        V("table-valleys-peaks", replace_expr(ST, "PermutationStatistic", "Perm.count_valleys", "Perm.count_peaks"), "fire", "C11-T1"),
        V("table-ltrmin-rtlmin", replace_expr(ST, "PermutationStatistic", "Perm.count_ltrmin", "Perm.count_rtlmin"), "fire", "C11-T1"),
        V("table-wrapper-swapped", replace_expr(ST, "_count_descents", "perm.count_descents()", "perm.count_ascents()"), "fire", "C11-T1"),
        V("shortcut-maj-inv", replace_expr(ST, "PermutationStatistic.maj", "Perm.major_index", "Perm.count_inversions"), "fire", "C11-T1"),
        V("get-all-skips-first", replace_expr(ST, "PermutationStatistic._get_all", "PermutationStatistic._STATISTICS", "PermutationStatistic._STATISTICS[1:]"), "fire-or-undecided", "C11-T1"),
        V("preserved-any", replace_expr(ST, "PermutationStatistic.preserved_in", "all((self.func(k) == self.func(v) for k, v in bijection.items()))", "any((self.func(k) == self.func(v) for k, v in bijection.items()))"), "fire", "C11-Q1"),
        V("preserved-keys-only", replace_expr(ST, "PermutationStatistic.preserved_in", "self.func(k) == self.func(v)", "self.func(k) == self.func(k)"), "fire", "C11-Q1"),
        V("preservations-negated", replace_expr(ST, "PermutationStatistic.check_all_preservations", "stats.preserved_in(bijection)", "not stats.preserved_in(bijection)"), "fire", "C11-Q1"),
        V("equidistributed-short-range", replace_expr(ST, "PermutationStatistic.equally_distributed", "range(n + 1)", "range(n)"), "fire", "C11-Q1"),
        V("equidistributed-same-class", replace_expr(ST, "PermutationStatistic.equally_distributed", "stat.distribution_for_length(i, class2)", "stat.distribution_for_length(i, class1)"), "fire", "C11-Q1"),
        V("count-adds-two", replace_expr(PE, "Perm.count_ltrmax", "sum((1 for _ in self.ltrmax()))", "sum((2 for _ in self.ltrmax()))"), "fire", "C11-P1"),
        V("transformed-result-dropped", replace_stmt(ST, "PermutationStatistic.check_all_transformed", "return dict(transf)", "return {}"), "fire", "C11-Q1"),
        V("transformed-same-side", replace_expr(ST, "PermutationStatistic.check_all_transformed", "stat1.func(k) == stat2.func(v)", "stat1.func(k) == stat2.func(k)"), "fire", "C11-Q1"),
        V("transformed-one-shot", replace_expr(ST, "PermutationStatistic.check_all_transformed", "list(cls._get_all())", "cls._get_all()"), "fire", "C11-I1", "the original defect"),
        V("distribution-filtered", replace_expr(ST, "PermutationStatistic.distribution_for_length", "Counter((self.func(p) for p in iterator))", "Counter((self.func(p) for p in iterator if len(p) > 1))"), "fire", "C11-Q1"),
        V("distribution-wrong-level", replace_expr(ST, "PermutationStatistic.distribution_for_length", "perm_class.of_length(n)", "perm_class.of_length(n + 1)"), "fire", "C11-Q1"),
        V("distribution-memo-on-object", insert_stmt(ST, "PermutationStatistic.distribution_for_length", "iterator = perm_class.of_length(n) if perm_class else Perm.of_length(n)", "self._last_n = n", "before"), "undecided", note="unreviewed state on a statistic object"),
        V("ltrmax-sentinel-0", replace_stmt(PE, "Perm.ltrmax", "max_val = -1", "max_val = 0"), "fire", "C11-RS"),
        V("ltrmin-finds-maxima", replace_expr(PE, "Perm.ltrmin", "val < min_val", "val > min_val"), "fire", "C11-RS"),
        V("rtlmin-position-unreflected", replace_expr(PE, "Perm._rtlmin_reverse_list", "lis.append(n - idx - 1)", "lis.append(idx)"), "fire", "C11-RS"),
        V("rtlmax-scans-forward", replace_expr(PE, "Perm._rtlmax_reverse_list", "enumerate(reversed(self))", "enumerate(self)"), "fire", "C11-RS"),
        V("rtlmin-not-reversed", replace_expr(PE, "Perm.rtlmin", "reversed(self._rtlmin_reverse_list())", "self._rtlmin_reverse_list()"), "fire-or-undecided", "C11-RS"),
        V("order-product", replace_expr(PE, "Perm.order", "acc * cycle // math.gcd(acc, cycle)", "acc * cycle"), "fire", "C11-RS"),
        V("ltrmin-nonstrict", replace_expr(PE, "Perm.ltrmin", "val < min_val", "val <= min_val"), "silent", note="entries are distinct: the non-strict test is the same scan"),
        V("prime-strict-bound", replace_expr("permuta/misc/math.py", "is_prime", "i ** 2 <= n", "i * i < n"), "fire", "C11-PR"),
        V("prime-range-form-exclusive-bound", [replace_stmt("permuta/misc/math.py", "is_prime", "while i ** 2 <= n: ...", "for i in range(5, isqrt(n), 6):\n    if n % i == 0 or n % (i + 2) == 0:\n        return False"),
                                               replace_stmt("permuta/misc/math.py", "is_prime", "i = 5", "from math import isqrt")], "fire", "C11-PR"),
        V("prime-range-form", [replace_stmt("permuta/misc/math.py", "is_prime", "while i ** 2 <= n: ...", "for i in range(5, isqrt(n) + 1, 6):\n    if n % i == 0 or n % (i + 2) == 0:\n        return False"),
                               replace_stmt("permuta/misc/math.py", "is_prime", "i = 5", "from math import isqrt")], "silent"),
        V("transformed-unordered-pairs", replace_expr(ST, "PermutationStatistic.check_all_transformed", "product(all_stats, all_stats)", "combinations_with_replacement(all_stats, 2)"), "fire", "C11-Q1"),
        V("transformed-not-any-form", replace_expr(ST, "PermutationStatistic.check_all_transformed", "all((stat1.func(k) == stat2.func(v) for k, v in bijection.items()))", "not any((stat1.func(k) != stat2.func(v) for k, v in bijection.items()))"), "silent"),
        V("prime-step-4", replace_stmt("permuta/misc/math.py", "is_prime", "i += 6", "i += 4"), "fire", "C11-PR"),
        V("prime-offset-4", replace_expr("permuta/misc/math.py", "is_prime", "n % (i + 2) == 0", "n % (i + 4) == 0"), "fire", "C11-PR"),
        V("prime-no-3-filter", replace_expr("permuta/misc/math.py", "is_prime", "n % 2 == 0 or n % 3 == 0", "n % 2 == 0"), "fire", "C11-PR"),
        V("prime-bound-mul", replace_expr("permuta/misc/math.py", "is_prime", "i ** 2 <= n", "i * i <= n"), "silent"),
        V("prime-bound-flipped", replace_expr("permuta/misc/math.py", "is_prime", "i ** 2 <= n", "n >= i * i"), "silent"),
        V("peaks-nonstrict", replace_expr(PE, "Perm.peaks", "prev < curr > nxt", "prev < curr >= nxt"), "fire", "C11-D1"),
        V("valleys-as-peaks", replace_expr(PE, "Perm.valleys", "prev > curr < nxt", "prev < curr > nxt"), "fire-or-undecided", "C11-D1", note="two operators changed at once: beyond a point change"),
        V("peaks-index-shift", replace_expr(PE, "Perm.peaks", "idx + 1", "idx"), "fire", "C11-D1"),
        V("inc-bonds-as-dec", replace_expr(PE, "Perm.inc_bonds", "curr == prev + 1", "prev == curr + 1"), "fire", "C11-D1"),
        V("double-excedance-weak", replace_expr(PE, "Perm.double_excedance", "idx < val < self[val]", "idx <= val < self[val]"), "fire", "C11-D1"),
        V("depth-all-terms", replace_expr(PE, "Perm.depth", "sum((val - idx for idx, val in enumerate(self) if val > idx))", "sum((val - idx for idx, val in enumerate(self) if val > idx - 1))"), "fire", "C11-D1"),
        V("major-index-zero-based", replace_expr(PE, "Perm.major_index", "1 + desc", "desc"), "fire", "C11-D1"),
        V("descents-weak", replace_expr(PE, "Perm.descents", "prev > curr", "prev >= curr"), "fire", "C11-D1"),
        V("column-primes-offset", replace_expr(PE, "Perm.count_column_sum_primes", "val + idx + 2", "val + idx + 1"), "fire", "C11-D1"),
        V("non-inversions-formula", replace_expr(PE, "Perm.count_non_inversions", "n * (n - 1) // 2", "n * (n + 1) // 2"), "fire", "C11-D1"),
        V("longest-desc-run-reverse", replace_expr(PE, "Perm.length_of_longestrun_descending", "self.complement()", "self.inverse()"), "fire-or-undecided", "C11-D1"),
        V("layers-standardised", replace_expr(PE, "Perm.rtlmax_ltrmin_decomposition", "Perm((perm[i] for i in range(len(perm)) if i not in pos_set))", "Perm.to_standard((perm[i] for i in range(len(perm)) if i not in pos_set))"), "silent", note="the repair of known finding C11-L1"),
        V("remove-without-renumbering", replace_expr(PE, "Perm.remove_element", "Perm((val if val < selected else val - 1 for val in self if val != selected))", "Perm((val for val in self if val != selected)).inverse()"), "fire", "C11-L1"),
        # silent
        V("reformat-statistics", reformat_only(ST), "silent"),
        V("count-len-list", replace_expr(PE, "Perm.count_peaks", "sum((1 for _ in self.peaks()))", "len(list(self.peaks()))"), "silent"),
        V("count-from-list-wrapper", replace_expr(PE, "Perm.count_valleys", "sum((1 for _ in self.valleys()))", "len(self.valley_list())"), "silent"),
        V("table-lambda", replace_expr(ST, "PermutationStatistic", "Perm.count_cycles", "lambda p: p.count_cycles()"), "silent"),
        V("table-new-row", custom(ST, _append_row), "silent", note="new rows are unreviewed, not alarms"),
        V("peaks-swapped-sides", replace_expr(PE, "Perm.peaks", "prev < curr > nxt", "curr > prev and nxt < curr"), "silent"),
        V("preserved-loop-form", replace_stmt(ST, "PermutationStatistic.preserved_in", "return all((self.func(k) == self.func(v) for k, v in bijection.items()))",
                                              "for k, v in bijection.items():\n    if self.func(k) != self.func(v):\n        return False\nreturn True"), "silent"),
        V("rename-table-var", rename_local(ST, "PermutationStatistic.check_all_transformed", "transf", "found"), "silent"),
    ]


# ------------------------------------------------------------------ L1: a sub-permutation is standardised before Perm methods run on it


def rule_l1(ctx: Ctx) -> None:
    """Scans (ltrmin, rtlmax, ...) use len(self) / -1 as sentinels and index by value: they assume the values are
    0..n-1.  A Perm built from a *subset* of the entries of another one (filtered comprehension or slice) has other
    values; it must be renumbered (element expression is not the bare entry) or go through to_standard before a Perm
    method is called on it."""
    repo = ctx.repo
    n = 0
    for fi in repo.all_funcs():
        if fi.cls is None or fi.cls.name != "Perm":
            continue
        for node in walk_no_nested(fi.node):
            if not (isinstance(node, ast.Call) and unparse(node.func) in ("Perm", "cls", "type(self)", "self.__class__", "Perm.to_standard", "cls.to_standard") and len(node.args) == 1):
                continue
            a = node.args[0]
            bare = None
            if unparse(node.func).endswith(".to_standard"):
                if (isinstance(a, (ast.GeneratorExp, ast.ListComp)) and any(g.ifs for g in a.generators)) or (isinstance(a, ast.Subscript) and isinstance(a.slice, ast.Slice)):
                    n += 1
                    ctx.ok("C11-L1", fi.where, f"sub-permutation `{unparse(node)[:70]}` is standardised", stmt_containing(fi, node), fi)
                continue
            if isinstance(a, (ast.GeneratorExp, ast.ListComp)) and any(g.ifs for g in a.generators):
                elt = a.elt
                tgt_names = {x.id for g in a.generators for x in ast.walk(g.target) if isinstance(x, ast.Name)}
                # bare entry: the loop variable itself, or src[loop variable]
                bare = (isinstance(elt, ast.Name) and elt.id in tgt_names) or (isinstance(elt, ast.Subscript) and isinstance(elt.slice, ast.Name) and elt.slice.id in tgt_names)
            elif isinstance(a, ast.Subscript) and isinstance(a.slice, ast.Slice):
                bare = True
            if bare is None:
                continue
            n += 1
            st = stmt_containing(fi, node)
            if not bare:
                ctx.ok("C11-L1", fi.where, f"sub-permutation `{unparse(node)[:70]}` renumbers its entries", st, fi)
                continue
            # is a Perm method called on the result?
            used = False
            if isinstance(st, ast.Assign) and len(st.targets) == 1 and isinstance(st.targets[0], ast.Name) and st.value is node:
                nm = st.targets[0].id
                for m in walk_no_nested(fi.node):
                    if isinstance(m, ast.Call) and isinstance(m.func, ast.Attribute) and isinstance(m.func.value, ast.Name) and m.func.value.id == nm and repo.method("Perm", m.func.attr) is not None:
                        used = True
            else:
                par = [m for m in walk_no_nested(fi.node) if isinstance(m, ast.Attribute) and m.value is node]
                used = bool(par)
            if used:
                ctx.violation("C11-L1", fi, st, f"`{unparse(node)[:80]}` keeps the original values of a subset of the entries (not a permutation of 0..k-1) and Perm methods are then called on it; the scans that use len(self) / -1 as sentinels give wrong answers on it", tag="unstandardised-sub-permutation", robust=True)
            else:
                ctx.ok("C11-L1", fi.where, f"`{unparse(node)[:60]}`: no Perm method is called on the un-standardised value", st, fi)
    if n < 3:
        raise AnalysisError(f"only {n} sub-permutation constructions found in Perm (3 confirmed by hand)")


def stmt_containing(fi: FuncInfo, node: ast.AST) -> ast.stmt:
    best = None
    for st in walk_no_nested(fi.node):
        if isinstance(st, ast.stmt) and st is not fi.node and any(sub is node for sub in ast.walk(st)):
            if best is None or sum(1 for _ in ast.walk(st)) < sum(1 for _ in ast.walk(best)):
                best = st
    return best if best is not None else fi.node


_OLD_RUN_L1 = run


def run(ctx: Ctx) -> None:  # noqa: F811
    _OLD_RUN_L1(ctx)
    ctx.run(rule_l1, ctx)


FLOORS["C11-L1"] = 3
