"""C12 – sorting operators, Simion–Schmidt domain, (named families undecided)."""

from __future__ import annotations

import ast
from typing import Dict, List, Optional, Tuple

from ..core import AnalysisError, FuncInfo, Repo, attr_chain, call_name, deviates, is_const, unparse, walk_no_nested
from ..report import Ctx
from ..skelrules import check_skeleton

PROP = "C12"
FLOORS = {"C12-S1": 10, "C12-S2": 2, "C12-G1": 5}

EXPLANATION = (
    "Decided by construction: (a) each 'sortable' predicate holds exactly when the output of the operator *of the same name* is the identity, and "
    "west-k sortability uses exactly k stack passes (S1); the public operators wrap the helper of the same name (S1); (b) the pass counters iterate "
    "the matching operator until the identity, counting one per pass (S2); (c) inputs outside the domain of the Simion–Schmidt map are rejected: each "
    "private helper is reached only through a guard on the pattern of its domain, guard literal and error message agree, helpers have no other "
    "caller (G1). NOT decided: that _stack_sort, pop_stack_sort, _bubble_sort, _quick_sort compute one pass of their device, that the map is a "
    "bijection fixing the left-to-right minima, and the named family predicates (Baxter, simsun, ..., RSK shape) – value-level."
)


def run(ctx: Ctx) -> None:
    ctx.run(rule_s1, ctx)
    ctx.run(rule_s2, ctx)
    ctx.run(rule_g1, ctx)


def rule_s1(ctx: Ctx) -> None:
    repo = ctx.repo
    for op in ("stack", "pop_stack", "bubble", "quick"):
        f = repo.need_method("Perm", f"{op}_sortable")
        ctx.run(check_skeleton, ctx, "C12-S1", f, [f"return self.{op}_sort().is_increasing()", f"return self.{op}_sort() == Perm.identity(len(self))"],
                f"{op}_sortable = {op}_sort(self) is the identity", required_calls=[f"{op}_sort"])
    for k, name in ((2, "west_2_stack_sortable"), (3, "west_3_stack_sortable")):
        f = repo.need_method("Perm", name)
        chain = "self" + ".stack_sort()" * k
        ctx.run(check_skeleton, ctx, "C12-S1", f, [f"return {chain}.is_increasing()"], f"{name} = identity after exactly {k} stack passes")
    for op in ("stack", "bubble", "quick"):
        f = repo.need_method("Perm", f"{op}_sort")
        ctx.run(check_skeleton, ctx, "C12-S1", f, [f"return Perm(Perm._{op}_sort(list(self)))", f"return Perm(self._{op}_sort(list(self)))"], f"{op}_sort wraps the helper _{op}_sort on the entries of self", required_calls=[f"_{op}_sort"])
    # is_increasing is the identity test (also C11-D1)
    f = repo.need_method("Perm", "is_increasing")
    ctx.run(check_skeleton, ctx, "C12-S1", f, ["return all(i == v for i, v in enumerate(self))"], "is_increasing = identity test")


def rule_s2(ctx: Ctx) -> None:
    repo = ctx.repo
    for name, ops in (("count_stack_sorts", ("_stack_sort", "stack_sort")), ("count_pop_stack_sorts", ("pop_stack_sort",))):
        f = repo.need_method("Perm", name)
        ctx.run(check_counter, ctx, f, ops)


def check_counter(ctx: Ctx, f: FuncInfo, ops: Tuple[str, ...]) -> None:
    body = f.body
    loops = [st for st in body if isinstance(st, ast.While)]
    rets = [st for st in body if isinstance(st, ast.Return)]
    if len(loops) != 1 or len(rets) != 1:
        raise AnalysisError(f"{f.where}: counter shape not recognised")
    lp = loops[0]
    inits = {unparse(st.targets[0]): st.value for st in body if isinstance(st, ast.Assign) and len(st.targets) == 1}
    counter = unparse(rets[0].value)
    if counter not in inits or not is_const(inits[counter], 0):
        ctx.violation("C12-S2", f, rets[0], f"the returned counter `{counter}` does not start at 0")
        return
    # loop body: state = OP(state); counter += 1
    step, inc = None, None
    for st in lp.body:
        if isinstance(st, ast.Assign) and isinstance(st.value, ast.Call):
            step = st
        elif isinstance(st, ast.AugAssign) and unparse(st.target) == counter:
            inc = st
        else:
            raise AnalysisError(f"{f.where}: unexpected statement in counting loop")
    if step is None or inc is None:
        raise AnalysisError(f"{f.where}: counting loop shape")
    if not (isinstance(inc.op, ast.Add) and is_const(inc.value, 1)):
        ctx.violation("C12-S2", f, inc, f"the counter advances by `{unparse(inc.op)}{unparse(inc.value)}` per pass, not by one")
        return
    state = unparse(step.targets[0])
    cn = call_name(step.value)
    opname = cn[-1] if cn else ""
    applied_to_state = (len(cn) == 2 and cn[0] == state and not step.value.args) or (len(step.value.args) == 1 and unparse(step.value.args[0]) == state)
    if opname not in ops:
        ctx.violation("C12-S2", f, step, f"{f.name} iterates `{opname}`; its name promises {' / '.join(ops)}")
        return
    if not applied_to_state:
        ctx.violation("C12-S2", f, step, f"each pass is applied to `{unparse(step.value)}` instead of the result of the previous pass")
        return
    # initial state is self
    if state not in inits or unparse(inits[state]) not in (f.params[0], f"list({f.params[0]})"):
        ctx.violation("C12-S2", f, lp, f"the first pass is applied to `{unparse(inits.get(state)) if state in inits else '?'}`, not to the permutation itself")
        return
    # loop condition: state is not the identity
    test = unparse(lp.test)
    me = f.params[0]
    copies = [k for k, v in inits.items() if unparse(v) in (me, f"list({me})", f"tuple({me})")]

    def norm(t: str) -> str:  # a copy of the permutation has the permutation's length
        for c in copies:
            t = t.replace(f"len({c})", f"len({me})")
        return t

    ident_names = [k for k, v in inits.items() if norm(unparse(v)) in (f"list({me}.identity(len({me})))", f"{me}.identity(len({me}))", f"list(range(len({me})))", f"tuple(range(len({me})))", f"[*range(len({me}))]")]
    ok = test == f"not {state}.is_increasing()" or any(test in (f"{state} != {i}", f"{i} != {state}") for i in ident_names)
    if not ok:
        wants = [f"not {state}.is_increasing()"] + [f"{a} != {b}" for i in ident_names for a, b in ((state, i), (i, state))]
        deviates(ctx, "C12-S2", f, lp, test, wants, f"passes continue while `{test}`; expected 'while the current arrangement is not the identity'", k=2)
        return
    ctx.ok("C12-S2", f.where, f"counter: start 0; while not identity: apply {opname} once to the previous result, +1; return counter", lp, f)


def perm_literal_name(node: ast.AST, module=None) -> Optional[str]:
    """Perm((0, 1, 2)) -> '123' (1-based classical notation); a module-level constant bound to such a literal stands for it."""
    if isinstance(node, ast.Name) and module is not None and node.id in module.assigns:
        return perm_literal_name(module.assigns[node.id], None)
    if isinstance(node, ast.Call) and call_name(node) == ("Perm",) and len(node.args) == 1 and isinstance(node.args[0], (ast.Tuple, ast.List)):
        try:
            vals = [int(e.value) for e in node.args[0].elts]  # type: ignore[attr-defined]
        except Exception:  # pylint: disable=broad-except
            return None
        if sorted(vals) == list(range(len(vals))):
            return "".join(str(v + 1) for v in vals)
    return None


def rule_g1(ctx: Ctx) -> None:
    repo = ctx.repo
    f = repo.need_method("Bijections", "simion_and_schmidt")
    fwd = repo.need_method("Bijections", "_simion_and_schmidt")
    inv = repo.need_method("Bijections", "_simion_and_schmidt_inv")
    perm, flag = f.params[0], f.params[1]
    # locate the two helper calls and the guards that dominate them
    helper_calls: Dict[str, List[Tuple[ast.Call, List[ast.stmt], bool]]] = {}

    def walk(stmts: List[ast.stmt], guards: List[ast.stmt], under_flag: Optional[bool]) -> None:
        local_guards = list(guards)
        for st in stmts:
            if isinstance(st, ast.If):
                t = unparse(st.test)
                raises = len(st.body) == 1 and isinstance(st.body[0], ast.Raise)
                if raises and not st.orelse:
                    local_guards.append(st)
                    continue
                if t == flag:
                    walk(st.body, local_guards, True)
                    walk(st.orelse, local_guards, False)
                    if st.body and isinstance(st.body[-1], (ast.Return, ast.Raise)):
                        under_flag = False if under_flag is None else under_flag
                    continue
                if t == f"not {flag}":
                    walk(st.body, local_guards, False)
                    walk(st.orelse, local_guards, True)
                    if st.body and isinstance(st.body[-1], (ast.Return, ast.Raise)):
                        under_flag = True if under_flag is None else under_flag
                    continue
                walk(st.body, local_guards, under_flag)
                walk(st.orelse, local_guards, under_flag)
                continue
            for node in ast.walk(st):
                if isinstance(node, ast.Call):
                    cn = call_name(node)
                    if cn and cn[-1] in (fwd.name, inv.name):
                        helper_calls.setdefault(cn[-1], []).append((node, list(local_guards), bool(under_flag)))

    walk(f.body, [], None)
    spec = {fwd.name: ("123", False, "forward map (Av(123) -> Av(132))"), inv.name: ("132", True, "inverse map (Av(132) -> Av(123))")}
    for hname, (patt, want_flag, what) in spec.items():
        calls = helper_calls.get(hname, [])
        if len(calls) != 1:
            raise AnalysisError(f"{f.where}: expected exactly one call of {hname}, found {len(calls)}")
        call, guards, under = calls[0]
        if under != want_flag:
            ctx.violation("C12-G1", f, call, f"{hname} ({what}) is reached when inverse={under}; forward and inverse helpers are swapped", robust=True)
            continue
        # guards relevant to this call: `if perm.contains(P): raise`
        found = None
        for g in guards:
            t = g.test
            if isinstance(t, ast.Call) and call_name(t) == (perm, "contains") and len(t.args) == 1:
                found = (g, perm_literal_name(t.args[0], f.module), False)
            elif isinstance(t, ast.UnaryOp) and isinstance(t.op, ast.Not) and isinstance(t.operand, ast.Call) and call_name(t.operand) == (perm, "avoids") and len(t.operand.args) == 1:
                found = (g, perm_literal_name(t.operand.args[0], f.module), False)
            elif isinstance(t, ast.Call) and call_name(t) == (perm, "avoids"):
                found = (g, perm_literal_name(t.args[0]) if t.args else None, True)
            elif isinstance(t, ast.UnaryOp) and isinstance(t.op, ast.Not) and isinstance(t.operand, ast.Call) and call_name(t.operand) == (perm, "contains"):
                found = (g, perm_literal_name(t.operand.args[0]) if t.operand.args else None, True)
        if found is None:
            ctx.violation("C12-G1", f, call, f"{hname} is called without a dominating domain check: inputs outside {what.split('(')[1].split(' ')[0]} are not rejected", robust=True)
            continue
        g, lit, inverted = found
        if inverted:
            ctx.violation("C12-G1", f, g, f"domain guard before {hname} is inverted: it rejects the permutations *inside* the domain", robust=True)
            continue
        if lit is None:
            # Perm.from_string("132") reads the digits as they are (it does not standardise): a one-based spelling is not a permutation of 0..n-1
            for n in ast.walk(g.test):
                if isinstance(n, ast.Call) and call_name(n) == ("Perm", "from_string") and len(n.args) == 1 and isinstance(n.args[0], ast.Constant) and isinstance(n.args[0].value, str) \
                        and n.args[0].value.isdigit():
                    vals = [int(ch) for ch in n.args[0].value]
                    if sorted(vals) != list(range(len(vals))):
                        ctx.violation("C12-G1", f, g, f"the guard before {hname} tests `{unparse(n)}` = Perm({tuple(vals)}), which is not a permutation of 0..{len(vals) - 1} (from_string does not standardise): "
                                      f"the domain of the {what}, Av({patt}), is not what is checked", robust=True)
                        break
                    lit = "".join(str(v + 1) for v in vals)
            else:
                if lit is None:
                    raise AnalysisError(f"{f.where}: the pattern tested by the guard before {hname} (`{unparse(g.test)[:60]}`) is not a literal permutation")
            if lit is None:
                continue
        if False:
            raise AnalysisError(f"{f.where}: the pattern tested by the guard before {hname} (`{unparse(g.test)[:60]}`) is not a literal permutation")
        if lit != patt:
            ctx.violation("C12-G1", f, g, f"the guard before {hname} tests pattern {lit}; the domain of the {what} is Av({patt})", robust=True)
            continue
        msg = "".join(str(c.value) for c in ast.walk(g.body[0]) if isinstance(c, ast.Constant) and isinstance(c.value, str))
        if patt not in msg:
            ctx.violation("C12-G1", f, g, f"guard tests {patt} but its error message says {msg!r}: the two stated beliefs contradict each other", robust=True)
            continue
        ctx.ok("C12-G1", f.where, f"{hname} is dominated by `if {perm}.contains({patt}): raise` (message agrees)", g, f)
    # who may call the helpers
    for helper in (fwd, inv):
        callers = []
        for fi in repo.all_funcs():
            for node in walk_no_nested(fi.node):
                if isinstance(node, ast.Call):
                    cn = call_name(node)
                    if cn and cn[-1] == helper.name:
                        callers.append(fi)
        others = [c for c in callers if c is not f]
        if others:
            for c in others:
                ctx.violation("C12-G1", c, c.node, f"{helper.name} is called from {c.qual}, bypassing the domain check of simion_and_schmidt", robust=True)
        else:
            ctx.ok("C12-G1", helper.where, "only caller is the guarded public entry point", helper.node, helper)
    # empty permutation shortcut returns the empty permutation
    first = f.body[1] if len(f.body) > 1 else None
    from ..core import inlined_text

    if isinstance(first, ast.If) and inlined_text(f, first.test) in (f"len({perm}) == 0", f"not {perm}") and unparse(first.body[0]) in ("return Perm()", f"return {perm}"):
        ctx.ok("C12-G1", f.where, "empty permutation maps to itself", first, f)


GENERIC_FILES = ['permuta/patterns/perm.py', 'permuta/permutils/bijections.py', 'permuta/bisc/perm_properties.py', 'permuta/permutils/groups.py']


def variants():
    from ..selftest import generic_equiv, generic_silent

    return _variants() + generic_silent(GENERIC_FILES) + generic_equiv(GENERIC_FILES)


def _variants():
    from ..selftest import V, insert_stmt, reformat_only, rename_local, replace_expr, replace_stmt

    PE, BJ = "permuta/patterns/perm.py", "permuta/permutils/bijections.py"
    return [
        V("pop-sortable-uses-stack", replace_expr(PE, "Perm.pop_stack_sortable", "self.pop_stack_sort()", "self.stack_sort()"), "fire", "C12-S1"),
        V("bubble-sortable-decreasing", replace_expr(PE, "Perm.bubble_sortable", "self.bubble_sort().is_increasing()", "self.bubble_sort().is_decreasing()"), "fire-or-undecided", "C12-S1"),
        V("stack-sortable-negated", replace_expr(PE, "Perm.stack_sortable", "self.stack_sort().is_increasing()", "not self.stack_sort().is_increasing()"), "fire", "C12-S1"),
        V("west2-three-passes", replace_expr(PE, "Perm.west_2_stack_sortable", "self.stack_sort().stack_sort()", "self.stack_sort().stack_sort().stack_sort()"), "fire", "C12-S1"),
        V("west3-two-passes", replace_expr(PE, "Perm.west_3_stack_sortable", "self.stack_sort().stack_sort().stack_sort()", "self.stack_sort().stack_sort()"), "fire", "C12-S1"),
        V("quick-sort-wraps-bubble", replace_expr(PE, "Perm.quick_sort", "Perm._quick_sort(list(self))", "Perm._bubble_sort(list(self))"), "fire", "C12-S1"),
        V("counter-starts-at-1", replace_stmt(PE, "Perm.count_pop_stack_sorts", "num_sorts = 0", "num_sorts = 1"), "fire", "C12-S2"),
        V("counter-wrong-operator", replace_expr(PE, "Perm.count_pop_stack_sorts", "perm.pop_stack_sort()", "perm.stack_sort()"), "fire", "C12-S2"),
        V("counter-not-iterated", replace_expr(PE, "Perm.count_stack_sorts", "self._stack_sort(perm_list)", "self._stack_sort(list(self))"), "fire", "C12-S2"),
        V("counter-step-two", replace_stmt(PE, "Perm.count_stack_sorts", "num_sorts += 1", "num_sorts += 2"), "fire", "C12-S2"),
        V("counter-until-decreasing", replace_expr(PE, "Perm.count_pop_stack_sorts", "not perm.is_increasing()", "not perm.is_decreasing()"), "fire", "C12-S2"),
        V("guard-forward-removed", replace_stmt(BJ, "Bijections.simion_and_schmidt", "if perm.contains(Perm((0, 1, 2))): ...", ""), "fire", "C12-G1"),
        V("guard-inverse-inverted", replace_expr(BJ, "Bijections.simion_and_schmidt", "perm.contains(Perm((0, 2, 1)))", "perm.avoids(Perm((0, 2, 1)))"), "fire", "C12-G1"),
        V("guards-swapped-patterns", [replace_expr(BJ, "Bijections.simion_and_schmidt", "Perm((0, 2, 1))", "Perm((0, 1, 2))"), replace_expr(BJ, "Bijections.simion_and_schmidt", "Perm((0, 1, 2))", "Perm((0, 2, 1))", which=2)], "fire", "C12-G1"),
        V("helpers-swapped", [replace_expr(BJ, "Bijections.simion_and_schmidt", "Bijections._simion_and_schmidt_inv(perm, n)", "Bijections._simion_and_schmidt(perm, n)"),
                              replace_expr(BJ, "Bijections.simion_and_schmidt", "Bijections._simion_and_schmidt(perm, n)", "Bijections._simion_and_schmidt_inv(perm, n)", which=2)], "fire", "C12-G1"),
        V("guard-pattern-213", replace_expr(BJ, "Bijections.simion_and_schmidt", "Perm((0, 2, 1))", "Perm((1, 0, 2))"), "fire", "C12-G1"),
        V("stack-sort-right-unsorted", replace_stmt(PE, "Perm._stack_sort", "n_lis.extend(Perm._stack_sort(perm_slice[max_i + 1:n]))", "n_lis.extend(perm_slice[max_i + 1:n])"), "fire", "C12-R1"),
        V("bubble-sort-right-sorted", replace_stmt(PE, "Perm._bubble_sort", "n_lis.extend(perm_slice[max_i + 1:n])", "n_lis.extend(Perm._bubble_sort(perm_slice[max_i + 1:n]))"), "fire", "C12-R1"),
        V("bubble-sort-first-branch-recursive", replace_stmt(PE, "Perm._bubble_sort", "n_lis = perm_slice[1:n]", "n_lis = Perm._bubble_sort(perm_slice[1:n])"), "fire", "C12-R1"),
        V("stack-sort-off-by-one-slice", replace_expr(PE, "Perm._stack_sort", "perm_slice[max_i + 1:n]", "perm_slice[max_i:n]"), "fire", "C12-R1"),
        V("stack-sort-pivot-by-position", replace_expr(PE, "Perm._stack_sort", "pos_elem[1]", "pos_elem[0]"), "fire", "C12-R1"),
        V("pop-stack-smaller", replace_expr(PE, "Perm.pop_stack_sort", "num > stack[0]", "num < stack[0]"), "fire", "C12-R1"),
        V("pop-stack-no-clear", replace_stmt(PE, "Perm.pop_stack_sort", "stack.clear()", ""), "fire", "C12-R1"),
        V("pop-stack-no-final-flush", replace_stmt(PE, "Perm.pop_stack_sort", "result.extend(stack)", "", ), "fire-or-undecided", "C12-R1"),
        # silent
        V("reformat-bijections", reformat_only(BJ), "silent"),
        V("guard-not-avoids", replace_expr(BJ, "Bijections.simion_and_schmidt", "perm.contains(Perm((0, 1, 2)))", "not perm.avoids(Perm((0, 1, 2)))"), "silent"),
        V("rename-counter", rename_local(PE, "Perm.count_stack_sorts", "num_sorts", "passes"), "silent"),
        V("sortable-eq-identity", replace_expr(PE, "Perm.stack_sortable", "self.stack_sort().is_increasing()", "self.stack_sort() == Perm.identity(len(self))"), "silent"),
    ]


# ------------------------------------------------------------------ R1: recursive definitions of the sorting operators


def rule_r1(ctx: Ctx) -> None:
    """West's recursive characterisations are the definitions of one pass: S(L n R) = S(L) S(R) n for a stack,
    B(L n R) = B(L) R n for bubble sort (n the largest entry).  The helpers are compared with them, branch by branch."""
    repo = ctx.repo
    for name, right_sorted in (("_stack_sort", True), ("_bubble_sort", False)):
        f = repo.method("Perm", name)
        if f is None:
            ctx.note(f"C12-R1: Perm.{name} not present")
            continue
        ctx.run(check_recursive_sort, ctx, f, right_sorted)
    ps = repo.method("Perm", "pop_stack_sort")
    if ps is not None:
        ctx.run(check_pop_stack, ctx, ps)


def check_recursive_sort(ctx: Ctx, f: FuncInfo, right_sorted: bool) -> None:
    from ..core import flow_env

    sl = f.params[0]
    env = flow_env(f)
    n = next((k for k, v in env.items() if unparse(v) == f"len({sl})"), None)
    if n is None:
        raise AnalysisError(f"{f.where}: length local not found")
    # max position/value
    mx = [st for st in f.body if isinstance(st, ast.Assign) and isinstance(st.targets[0], ast.Tuple) and isinstance(st.value, ast.Call) and call_name(st.value) == ("max",)]
    if len(mx) != 1 or not unparse(mx[0].value).startswith(f"max(enumerate({sl}), key="):
        raise AnalysisError(f"{f.where}: selection of the largest entry not recognised")
    mi, mv = [unparse(e) for e in mx[0].targets[0].elts]
    key = next((k.value for k in mx[0].value.keywords if k.arg == "key"), None)
    selects = None  # which component of each (position, value) pair the key compares
    if isinstance(key, ast.Lambda) and len(key.args.args) == 1 and isinstance(key.body, ast.Subscript) and unparse(key.body.value) == key.args.args[0].arg and isinstance(key.body.slice, ast.Constant):
        selects = key.body.slice.value
    elif isinstance(key, ast.Call) and call_name(key) in (("operator", "itemgetter"), ("itemgetter",)) and len(key.args) == 1 and isinstance(key.args[0], ast.Constant) and not key.keywords:
        selects = key.args[0].value
    if selects is None:
        raise AnalysisError(f"{f.where}: the key of the pivot selection (`{unparse(key)[:50] if key is not None else None}`) is not recognised")
    if selects not in (1, -1):
        ctx.violation("C12-R1", f, mx[0], "the pivot is not the entry of largest *value* (key must select the value of each (position, value) pair)", robust=True)
        return
    base = [st for st in f.body if isinstance(st, ast.If) and unparse(st.test) in (f"{n} in (0, 1)", f"{n} <= 1", f"{n} < 2")]
    if not (base and unparse(base[0].body[0]) == f"return {sl}"):
        raise AnalysisError(f"{f.where}: base case not recognised")
    chain = [st for st in f.body if isinstance(st, ast.If) and st not in base]
    if len(chain) != 1:
        raise AnalysisError(f"{f.where}: case analysis on the position of the maximum not recognised")
    acc = None
    cases: Dict[str, List[str]] = {}
    cur: Optional[ast.If] = chain[0]
    rec = f"Perm.{f.name}"

    def norm(stmts) -> List[str]:
        out = []
        for st in stmts:
            t = unparse(st).replace(f"self.{f.name}", rec).replace(f"cls.{f.name}", rec)
            out.append(t)
        return out

    while cur is not None:
        cases[unparse(cur.test)] = norm(cur.body)
        if len(cur.orelse) == 1 and isinstance(cur.orelse[0], ast.If):
            cur = cur.orelse[0]
        else:
            cases["else"] = norm(cur.orelse)
            cur = None
    tail = [unparse(st) for st in f.body[f.body.index(chain[0]) + 1:]]
    # slices are read in their canonical spelling (sa/canon.py: x[0:k] = x[:k], x[a:len(x)] = x[a:], x[:len(x) - 1] = x[:-1])
    left = f"{rec}({sl}[:{mi}])"
    right_general = f"{rec}({sl}[{mi} + 1:])" if right_sorted else f"{sl}[{mi} + 1:]"
    want = {
        f"{mi} == 0": [[f"n_lis = {rec}({sl}[1:])"] if right_sorted else [f"n_lis = {sl}[1:]"]],
        f"{mi} == {n} - 1": [[f"n_lis = {rec}({sl}[:-1])"]],
        "else": [[f"n_lis = {left}", f"n_lis.extend({right_general})"]],
    }
    accname = None
    for k, bodies in want.items():
        got = cases.get(k)
        if got is None:
            raise AnalysisError(f"{f.where}: branch `{k}` not found")
        if accname is None and got and " = " in got[0]:
            accname = got[0].split(" = ")[0]
        exp = [[x.replace("n_lis", accname or "n_lis") for x in b] for b in bodies]
        if got in exp:
            ctx.ok("C12-R1", f.where, f"branch {k}: {'; '.join(got)}", f.node, f)
        else:
            side = "S(L) S(R) n" if right_sorted else "B(L) R n"
            ctx.violation("C12-R1", f, chain[0], f"{f.name}, branch `{k}`: computes `{'; '.join(got)}`; one pass is {side} with L, R the entries before/after the largest entry n: expected `{'; '.join(exp[0])}`")
    if tail == [f"{accname}.append({mv})", f"return {accname}"]:
        ctx.ok("C12-R1", f.where, "the largest entry leaves last", f.node, f)
    else:
        ctx.violation("C12-R1", f, f.node, f"after the recursive part the function does `{'; '.join(tail)}`; the largest entry must be appended last and the result returned")


def check_pop_stack(ctx: Ctx, f: FuncInfo) -> None:
    """Pop-stack: push while the next entry is smaller than the top; otherwise empty the whole stack
    (top first) to the output, then push; finally empty the stack."""
    body = f.body
    loops = [st for st in body if isinstance(st, ast.For)]
    if len(loops) != 1 or unparse(loops[0].iter) != f.params[0]:
        raise AnalysisError(f"{f.where}: input loop not recognised")
    lp = loops[0]
    x = unparse(lp.target)
    inits = {unparse(st.target if isinstance(st, ast.AnnAssign) else st.targets[0]): unparse(st.value) for st in body if isinstance(st, (ast.Assign, ast.AnnAssign)) and st.value is not None}
    stack = next((k for k, v in inits.items() if v in ("collections.deque()", "deque()", "[]") and any(f"{k}.appendleft" in unparse(s) or f"{k}.append(" in unparse(s) for s in lp.body)), None)
    out = next((k for k in inits if k != stack and inits[k] == "[]"), None)
    if stack is None or out is None:
        raise AnalysisError(f"{f.where}: stack/output not recognised")
    pushes = [unparse(s) for s in lp.body if isinstance(s, ast.Expr)]
    top = f"{stack}[0]" if f"{stack}.appendleft({x})" in pushes else f"{stack}[-1]"
    ifs = [s for s in lp.body if isinstance(s, ast.If)]
    if len(ifs) != 1:
        raise AnalysisError(f"{f.where}: pop condition not recognised")
    t = unparse(ifs[0].test)
    good_tests = {f"{stack} and {x} > {top}", f"{stack} and {top} < {x}", f"len({stack}) > 0 and {x} > {top}"}
    if t not in good_tests:
        if top in t and x in t:
            ctx.violation("C12-R1", f, ifs[0], f"the stack is emptied when `{t}`; a pop-stack must be emptied exactly when the next entry is larger than the top (`{stack} and {x} > {top}`)")
            return
        raise AnalysisError(f"{f.where}: pop condition `{t}` not recognised")
    top_first = [f"{out}.extend({stack})"] if top.endswith("[0]") else [f"{out}.extend(reversed({stack}))", f"{out}.extend({stack}[::-1])"]
    bottom_first = [f"{out}.extend(reversed({stack}))", f"{out}.extend({stack}[::-1])"] if top.endswith("[0]") else [f"{out}.extend({stack})"]
    emptied = {f"{stack}.clear()", f"{stack} = []", f"{stack} = collections.deque()", f"{stack} = deque()", f"del {stack}[:]"}

    def flush_verdict(stmts: List[str]) -> str:
        """'ok': the whole stack goes to the output top first; 'wrong': positively something else; 'unknown'"""
        if stmts[:1] and stmts[0] in top_first:
            return "ok"
        if stmts[:1] and stmts[0] in bottom_first:
            return "wrong"  # bottom of the stack leaves first
        if not any(out in st for st in stmts):
            return "wrong"  # nothing reaches the output
        return "unknown"

    popped = [unparse(s) for s in ifs[0].body]
    v = flush_verdict(popped)
    if v == "ok" and len(popped) == 2 and popped[1] in emptied:
        pass
    elif v == "wrong" or (v == "ok" and len(popped) == 1):
        ctx.violation("C12-R1", f, ifs[0], f"popping does `{'; '.join(popped)}`; the whole stack must go to the output, top first, and the stack must be emptied")
        return
    else:
        raise AnalysisError(f"{f.where}: what happens when the stack is popped (`{'; '.join(popped)[:80]}`) is not recognised")
    if ifs[0] is not lp.body[0] or len(lp.body) != 2:
        raise AnalysisError(f"{f.where}: loop body shape")
    after = [unparse(s) for s in body[body.index(lp) + 1:]]
    v = flush_verdict(after)
    returned = bool(after) and after[-1] in (f"return Perm({out})", f"return Perm(tuple({out}))")
    if v == "ok" and returned:
        ctx.ok("C12-R1", f.where, "pop-stack pass: push while smaller than the top, else empty the stack top-first; flush at the end", lp, f)
    elif v == "wrong" or (returned and len(after) == 1):
        ctx.violation("C12-R1", f, body[-1], f"after the input is read the function does `{'; '.join(after)}`; the remaining stack must be flushed top first and the output returned")
    else:
        raise AnalysisError(f"{f.where}: what happens after the input is read (`{'; '.join(after)[:80]}`) is not recognised")


_OLD_RUN = run


def run(ctx: Ctx) -> None:  # noqa: F811
    _OLD_RUN(ctx)
    ctx.run(rule_r1, ctx)


FLOORS["C12-R1"] = 9
EXPLANATION = EXPLANATION.replace("NOT decided: that _stack_sort, pop_stack_sort, _bubble_sort, _quick_sort compute one pass of their device,",
                                  "(d) the stack-sort and bubble-sort helpers are West's recursive definitions of one pass (S(LnR) = S(L)S(R)n, B(LnR) = B(L)Rn) and pop_stack_sort is the "
                                  "push/empty-all automaton of a pop stack (R1, branch-by-branch template comparison). NOT decided: that _quick_sort computes one pass of its device,")
