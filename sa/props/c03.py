"""C03 – mesh / bivincular / vincular / covincular occurrences: the by-construction clauses."""

from __future__ import annotations

import ast
from typing import Dict, List, Optional, Set, Tuple

from ..core import AnalysisError, FuncInfo, Repo, attr_chain, call_name, unparse, walk_no_nested
from ..report import Ctx
from ..skelrules import check_skeleton
from . import c01

PROP = "C03"
FLOORS = {"C03-I1": 6, "C03-B6": 2, "C03-B1": 3, "C03-B2": 5, "C03-B3": 2, "C03-B4": 6, "C03-B5": 3}

EXPLANATION = (
    "Decided by construction: (a) bivincular, vincular and covincular patterns behave as the mesh patterns given by their adjacency requirements – they "
    "ARE mesh patterns whose search is inherited unchanged (B1), whose shading is produced by one writer that shades the full column of every adjacent "
    "position and the full row of every adjacent value, boundary cells included (B2), read back by the inverse reader (B3), with the three constructors "
    "passing (indices, values), (indices, ()), ((), values) (B2); (b) containment/avoidance of mixed lists of classical and mesh patterns agree with the "
    "occurrence sets – dynamic dispatch through each pattern's own occurrences_in (B5 = C01-D1 rows) and exhaustive target dispatch (B4). NOT decided: "
    "(c) that the reported occurrences are exactly the classical occurrences with no other point in a shaded cell – of this clause only a necessary "
    "condition is decided (B6: the cell of every non-occurrence point is computed as (#occurrence points to its left, #occurrence values strictly below) and "
    "the candidate is rejected iff that cell is shaded); that the candidates are exactly the classical occurrences is C01's undecided half."
)

SEARCH_METHODS = ("occurrences_in", "_occurrences_in_perm", "_occurrences_in_mesh", "_contains", "contains", "avoids", "__contains__", "count_occurrences_in")


def run(ctx: Ctx) -> None:
    ctx.run(rule_b1, ctx)
    ctx.run(rule_b2, ctx)
    ctx.run(rule_b3, ctx)
    ctx.run(rule_b4, ctx)
    ctx.run(rule_b5, ctx)
    ctx.run(rule_b6, ctx)
    from .. import oneshot

    # adjacency requirements / shadings may be given as any iterable (the library's own random() passes generators)
    ctx.run(oneshot.report, ctx, "C03-I1", ["permuta.patterns.bivincularpatt", "permuta.patterns.meshpatt"], ["BivincularPatt._to_shading", "BivincularPatt.__init__", "MeshPatt.__init__"])


def rule_b6(ctx: Ctx) -> None:
    """The mesh test classifies every non-occurrence point into the cell (#occurrence points to its
    left, #occurrence values strictly below) and rejects iff that cell is shaded (= C17-K1 fingerprint
    of MeshPatt._occurrences_in_perm against the geometric definition of a cell)."""
    from . import c17

    sub = Ctx("C17", ctx.repo)
    c17.rule_k1(sub)
    for o in sub.obligations:
        if "MeshPatt._occurrences_in_perm" in o["where"] and o["verdict"] == "discharged":
            ctx.ok("C03-B6", o["where"], o["what"])
    for fd in sub.findings:
        if "MeshPatt._occurrences_in_perm" in fd.where:
            fi = ctx.repo.funcs[fd.where]
            ctx.violation("C03-B6", fi, fi.node, fd.message)


def rule_b1(ctx: Ctx) -> None:
    repo = ctx.repo
    biv = repo.cls("BivincularPatt")
    if "MeshPatt" not in [c.name for c in repo.mro("BivincularPatt")]:
        ctx.violation("C03-B1", biv.where, biv.node, "BivincularPatt is no longer a MeshPatt: its occurrences are not those of a mesh pattern by construction", file=biv.module.relpath, robust=True)
        return
    occ = biv.methods.get("occurrences_in")
    if occ is None:
        ctx.ok("C03-B1", biv.where, "BivincularPatt inherits MeshPatt.occurrences_in")
    else:
        rets = [n for n in walk_no_nested(occ.node) if isinstance(n, (ast.Return, ast.YieldFrom)) and getattr(n, "value", None) is not None]
        good = False
        for r in rets:
            v = r.value
            if isinstance(v, ast.Call) and call_name(v) == ("super()", "occurrences_in") and v.args and unparse(v.args[0]) == occ.params[1]:
                good = True
        other_exits = [n for n in walk_no_nested(occ.node) if isinstance(n, (ast.Yield,))]
        if good and len(rets) == 1 and not other_exits:
            ctx.ok("C03-B1", occ.where, "delegates to super().occurrences_in(patt, ...) with the target unchanged", rets[0], occ)
        else:
            ctx.violation("C03-B1", occ, occ.node, "BivincularPatt.occurrences_in does not simply delegate to the inherited mesh search with the target unchanged: a private search could disagree with the mesh pattern it stands for", robust=True)
    for cname in ("BivincularPatt", "VincularPatt", "CovincularPatt"):
        ci = repo.cls(cname)
        over = [m for m in SEARCH_METHODS if m in ci.methods and not (cname == "BivincularPatt" and m == "occurrences_in")]
        if over:
            f = ci.methods[over[0]]
            ctx.violation("C03-B1", f, f.node, f"{cname} overrides {over}: its containment no longer follows from the inherited mesh-pattern search", robust=True)
        else:
            ctx.ok("C03-B1", ci.where, "overrides none of the search / containment methods")


def rule_b2(ctx: Ctx) -> None:
    repo = ctx.repo
    ts = repo.need_method("BivincularPatt", "_to_shading")
    n, idxs, vals = ts.params[0], ts.params[1], ts.params[2]
    loops = [st for st in ts.body if isinstance(st, ast.For)]
    if len(loops) != 2:
        raise AnalysisError(f"{ts.where}: expected one loop per requirement kind")
    seen: Set[str] = set()
    for lp in loops:
        src = unparse(lp.iter)
        var = unparse(lp.target)
        if src not in (idxs, vals):
            ctx.violation("C03-B2", ts, lp, f"loop runs over `{src}`, not over the adjacency requirements")
            continue
        seen.add(src)
        yields = [x for x in ast.walk(lp) if isinstance(x, (ast.Yield, ast.YieldFrom))]
        if len(yields) != 1 or not isinstance(yields[0], ast.YieldFrom) or not isinstance(yields[0].value, ast.GeneratorExp):
            raise AnalysisError(f"{ts.where}: yield shape not recognised")
        ge = yields[0].value
        g = ge.generators[0]
        if len(ge.generators) != 1 or g.ifs:
            ctx.violation("C03-B2", ts, yields[0], "the full line of cells is filtered")
            continue
        rng = unparse(g.iter)
        t = unparse(g.target)
        if rng != f"range({n} + 1)":
            ctx.violation("C03-B2", ts, yields[0], f"cells of the line are enumerated by `{rng}`; the full line is range({n} + 1) (boundary cell {n} included)")
            continue
        if not (isinstance(ge.elt, ast.Tuple) and len(ge.elt.elts) == 2):
            raise AnalysisError(f"{ts.where}: yielded element is not a cell")
        first, second = unparse(ge.elt.elts[0]), unparse(ge.elt.elts[1])
        # shadow: the comprehension variable may shadow the loop variable name of the *other* loop; compare by role
        if src == idxs:
            ok = (first == var and second == t and var != t)
            role = "column (fixed first coordinate = adjacent position)"
        else:
            ok = (second == var and first == t and var != t)
            role = "row (fixed second coordinate = adjacent value)"
        if ok:
            ctx.ok("C03-B2", ts.where, f"each element of `{src}` shades its full {role}", yields[0], ts)
        else:
            ctx.violation("C03-B2", ts, yields[0], f"requirement from `{src}` yields ({first}, {second}): a position must flow to the first coordinate and a value to the second, the other coordinate ranging over the whole line")
    if seen != {idxs, vals}:
        ctx.violation("C03-B2", ts, ts.node, f"only {sorted(seen)} are turned into shading")
    # constructor chain
    want = {
        "BivincularPatt": lambda f: ("super().__init__", [f.params[1], f"BivincularPatt._to_shading(len({f.params[1]}), {f.params[2]}, {f.params[3]})"]),
        "VincularPatt": lambda f: ("super().__init__", [f.params[1], f.params[2], "()"]),
        "CovincularPatt": lambda f: ("super().__init__", [f.params[1], "()", f.params[2]]),
    }
    for cname, mk in want.items():
        init = repo.need_method(cname, "__init__")
        if init.cls.name != cname:
            raise AnalysisError(f"{cname} has no constructor of its own")
        calls = [x for x in walk_no_nested(init.node) if isinstance(x, ast.Call) and call_name(x) == ("super()", "__init__")]
        if len(calls) != 1:
            raise AnalysisError(f"{init.where}: super().__init__ call not found")
        _fn, args = mk(init)
        got = [unparse(a) for a in calls[0].args]
        got = [g if g not in ("[]", "tuple()", "frozenset()") else "()" for g in got]
        alt = [a.replace("BivincularPatt._to_shading", "self._to_shading") for a in args]
        if got == args or got == alt:
            ctx.ok("C03-B2", init.where, f"{cname}(...) -> super().__init__({', '.join(args)})", calls[0], init)
        else:
            ctx.violation("C03-B2", init, calls[0], f"{cname} passes ({', '.join(got)}) to its base constructor; expected ({', '.join(args)})")


def rule_b3(ctx: Ctx) -> None:
    repo = ctx.repo
    f = repo.need_method("BivincularPatt", "get_adjacent_requirements")
    loops = [st for st in f.body if isinstance(st, ast.For)]
    if len(loops) != 1 or unparse(loops[0].iter) != "self.shading":
        raise AnalysisError(f"{f.where}: reader shape not recognised")
    lp = loops[0]
    x, y = [unparse(e) for e in lp.target.elts]
    env = {}
    for st in f.body:
        if isinstance(st, ast.Assign) and isinstance(st.targets[0], ast.Tuple) and isinstance(st.value, ast.Tuple):
            for t, v in zip(st.targets[0].elts, st.value.elts):
                env[unparse(t)] = unparse(v)
        elif isinstance(st, ast.Assign) and len(st.targets) == 1 and isinstance(st.targets[0], ast.Name):
            env[st.targets[0].id] = unparse(st.value)
    n_name = [k for k, v in env.items() if v == "len(self)"]
    n_txt = n_name[0] if n_name else "len(self)"
    found = {}
    for st in lp.body:
        if not (isinstance(st, ast.If) and len(st.body) == 1 and isinstance(st.body[0], ast.Expr) and isinstance(st.body[0].value, ast.Call)):
            raise AnalysisError(f"{f.where}: unexpected statement in reader loop")
        add = st.body[0].value
        added = unparse(add.args[0])
        t = st.test
        if not (isinstance(t, ast.Call) and call_name(t) == ("all",) and isinstance(t.args[0], ast.GeneratorExp)):
            raise AnalysisError(f"{f.where}: reader test is not all(...)")
        ge = t.args[0]
        g = ge.generators[0]
        if unparse(g.iter) != f"range({n_txt} + 1)" or g.ifs:
            ctx.violation("C03-B3", f, st, f"reader scans `{unparse(g.iter)}` of the line; the writer shades range(n + 1)")
            continue
        i = unparse(g.target)
        cell = ge.elt
        if not (isinstance(cell, ast.Compare) and isinstance(cell.ops[0], ast.In) and unparse(cell.comparators[0]) == "self.shading" and isinstance(cell.left, ast.Tuple)):
            raise AnalysisError(f"{f.where}: reader element test not recognised")
        a, b = unparse(cell.left.elts[0]), unparse(cell.left.elts[1])
        if added == x and (a, b) == (x, i):
            found["index"] = st
            ctx.ok("C03-B3", f.where, "position x is reported iff its whole column (x, 0..n) is shaded", st, f)
        elif added == y and (a, b) == (i, y):
            found["value"] = st
            ctx.ok("C03-B3", f.where, "value y is reported iff its whole row (0..n, y) is shaded", st, f)
        else:
            ctx.violation("C03-B3", f, st, f"reader reports `{added}` when cells ({a}, {b}) are shaded: roles disagree with the writer (position <-> column, value <-> row)")
    rets = [st for st in f.body if isinstance(st, ast.Return)]
    if len(found) == 2 and not (len(rets) == 1 and isinstance(rets[0].value, ast.Tuple) and len(rets[0].value.elts) == 2):
        ctx.violation("C03-B3", f, rets[0] if rets else f.node, "the reader does not return the pair (adjacent positions, adjacent values)")
        return
    if rets and len(found) == 2:
        # returned as (indices, values)
        sets = {}
        for k, st in found.items():
            sets[k] = unparse(st.body[0].value.func.value)
        r = unparse(rets[0].value)
        if r.index(sets["index"]) > r.index(sets["value"]):
            ctx.violation("C03-B3", f, rets[0], "adjacent positions and adjacent values are returned in the wrong order")


from ..core import reach_conditions as _reach_conditions  # noqa: E402


def _classify_for(fi: FuncInfo, test: ast.AST):
    p = fi.params[1] if len(fi.params) > 1 else "patt"
    t = unparse(test)
    if t == f"isinstance({p}, Perm)":
        return "T"
    if t in (f"not isinstance({p}, Perm)", f"isinstance({p}, MeshPatt)"):
        return "F"
    return None


def rule_b4(ctx: Ctx) -> None:
    repo = ctx.repo
    f = repo.need_method("MeshPatt", "occurrences_in")
    patt = f.params[1]
    concrete = [c.name for c in repo.subclasses("Patt", strict=True)]

    def classify(test: ast.AST):
        t = unparse(test)
        if t == f"isinstance({patt}, Perm)":
            return "T"
        if t in (f"not isinstance({patt}, Perm)", f"isinstance({patt}, MeshPatt)"):
            return "F"
        return None

    def wanted(n: ast.AST) -> bool:
        return isinstance(n, ast.Call) and call_name(n) is not None and len(call_name(n)) == 2 and call_name(n)[0] == f.params[0] and call_name(n)[1] in ("_occurrences_in_perm", "_occurrences_in_mesh") \
            and [unparse(a) for a in n.args] == [patt]

    from ..core import method_reference_polarity

    # the two searches may be called directly or selected as bound-method values; the function that chooses may be a helper
    pol, host = None, f
    for cand in [f] + [m2 for m2 in repo.cls("MeshPatt").methods.values() if m2 is not f]:
        pol = method_reference_polarity(cand, ["_occurrences_in_perm", "_occurrences_in_mesh"], (lambda c: (lambda test: _classify_for(c, test)))(cand))
        if pol is not None:
            host = cand
            break
    if pol is None:
        raise AnalysisError(f"{f.where}: dispatch on the kind of target not recognised (no function refers to both searches)")
    if host is not f and not any(isinstance(n, ast.Attribute) and n.attr == host.name for n in ast.walk(f.node)):
        raise AnalysisError(f"{f.where}: the dispatching helper {host.name} is not used by occurrences_in")
    tp, tm = pol["_occurrences_in_perm"], pol["_occurrences_in_mesh"]
    node = min((n for n in walk_no_nested(host.node) if isinstance(n, ast.Attribute) and n.attr in ("_occurrences_in_perm", "_occurrences_in_mesh")), key=lambda n: n.lineno)
    node = next((st for st in walk_no_nested(host.node) if isinstance(st, ast.stmt) and st is not host.node and any(sub is node for sub in ast.walk(st))), node)
    f_disp = host
    if tp == "T" and tm == "F":
        ctx.ok("C03-B4", f_disp.where, "Perm targets -> permutation search, every other admissible target -> mesh search", node, f_disp)
    elif tp == "F" and tm == "T":
        ctx.violation("C03-B4", f_disp, node, "dispatch sends Perm targets to `_occurrences_in_mesh` and other targets to `_occurrences_in_perm`; expected _occurrences_in_perm / _occurrences_in_mesh", robust=True)
    else:
        raise AnalysisError(f"{f.where}: dispatch on the kind of target not recognised (perm search under {tp}, mesh search under {tm})")
    # an assertion on the target that comes before the dispatch restricts both branches
    first_disp = min((f.body.index(st) for st in f.body if any(isinstance(n, ast.Attribute) and n.attr in ("_occurrences_in_perm", "_occurrences_in_mesh", f_disp.name) for n in ast.walk(st))), default=len(f.body))
    asserts = [st for st in f.body[:first_disp] if isinstance(st, ast.Assert)]
    admissible = None
    for a in asserts:
        if isinstance(a.test, ast.Call) and call_name(a.test) == ("isinstance",) and unparse(a.test.args[0]) == patt:
            spec = a.test.args[1]
            admissible = {unparse(e) for e in (spec.elts if isinstance(spec, ast.Tuple) else [spec])}
    for c in sorted(concrete):
        mro = {k.name for k in repo.mro(c)}
        if "Perm" in mro:
            ctx.ok("C03-B4", repo.cls(c).where, "concrete pattern class handled by the permutation branch")
        elif "MeshPatt" in mro:
            ctx.ok("C03-B4", repo.cls(c).where, "concrete pattern class handled by the mesh branch")
        else:
            ctx.violation("C03-B4", repo.cls(c).where, repo.cls(c).node, f"pattern class {c} is neither a Perm nor a MeshPatt: MeshPatt.occurrences_in would treat it as a mesh pattern", file=repo.cls(c).module.relpath, robust=True)
    if admissible is not None and not (admissible >= {"Perm", "MeshPatt"} or "Patt" in admissible):
        ctx.violation("C03-B4", f, asserts[0], f"admissible targets {sorted(admissible)} exclude Perm or MeshPatt before the dispatch", robust=True)


def rule_b5(ctx: Ctx) -> None:
    sub = Ctx("C01", ctx.repo)
    c01.rule_d1(sub)
    for o in sub.obligations:
        if o["where"].endswith(("Perm._contains", "Perm.contains", "Perm.avoids")) and o["verdict"] == "discharged":
            ctx.ok("C03-B5", o["where"], "mixed lists go through each pattern's own occurrences_in: " + o["what"][:140])
    for f in sub.findings:
        if f.where.endswith(("Perm._contains", "Perm.contains", "Perm.avoids")):
            fi = ctx.repo.funcs[f.where]
            ctx.violation("C03-B5", fi, fi.node, f.message)
    if sub.undecided:
        raise AnalysisError("; ".join(sub.undecided))


GENERIC_FILES = ['permuta/patterns/meshpatt.py', 'permuta/patterns/bivincularpatt.py', 'permuta/patterns/perm.py']


def variants():
    from ..selftest import generic_equiv, generic_silent

    return _variants() + generic_silent(GENERIC_FILES) + generic_equiv(GENERIC_FILES)


def _variants():
    from ..selftest import V, insert_stmt, reformat_only, rename_local, replace_expr, replace_stmt

    BV, MP, PE = "permuta/patterns/bivincularpatt.py", "permuta/patterns/meshpatt.py", "permuta/patterns/perm.py"
    return [
        V("biv-private-search", replace_stmt(BV, "BivincularPatt.occurrences_in", "return super().occurrences_in(patt, args, kwargs)", "return self.pattern.occurrences_in(patt)"), "fire", "C03-B1"),
        V("biv-search-other-target", replace_expr(BV, "BivincularPatt.occurrences_in", "super().occurrences_in(patt, args, kwargs)", "super().occurrences_in(patt.get_perm(), args, kwargs)"), "fire", "C03-B1"),
        V("vinc-overrides-contains", insert_stmt(BV, "VincularPatt", "def __repr__(self): ...", "def _contains(self, patt):\n    return self.pattern._contains(patt)", "before"), "fire", "C03-B1"),
        V("shading-range-n", replace_expr(BV, "BivincularPatt._to_shading", "range(n + 1)", "range(n)", which=1), "fire", "C03-B2"),
        V("shading-range-from-1", replace_expr(BV, "BivincularPatt._to_shading", "range(n + 1)", "range(1, n + 1)", which=2), "fire", "C03-B2"),
        V("shading-roles-swapped", replace_expr(BV, "BivincularPatt._to_shading", "((idx, val) for val in range(n + 1))", "((val, idx) for val in range(n + 1))"), "fire", "C03-B2"),
        V("shading-values-ignored", replace_expr(BV, "BivincularPatt._to_shading", "adjacent_values", "adjacent_indices", which=1), "fire", "C03-B2"),
        V("vinc-passes-values", replace_expr(BV, "VincularPatt.__init__", "super().__init__(perm, adjacent_indices, ())", "super().__init__(perm, (), adjacent_indices)"), "fire", "C03-B2"),
        V("covinc-passes-indices", replace_expr(BV, "CovincularPatt.__init__", "super().__init__(perm, (), adjacent_values)", "super().__init__(perm, adjacent_values, ())"), "fire", "C03-B2"),
        V("biv-len-minus-one", replace_expr(BV, "BivincularPatt.__init__", "len(perm)", "len(perm) - 1"), "fire", "C03-B2"),
        V("biv-args-swapped", replace_expr(BV, "BivincularPatt.__init__", "BivincularPatt._to_shading(len(perm), adjacent_indices, adjacent_values)", "BivincularPatt._to_shading(len(perm), adjacent_values, adjacent_indices)"), "fire", "C03-B2"),
        V("reader-range-n", replace_expr(BV, "BivincularPatt.get_adjacent_requirements", "range(n + 1)", "range(n)", which=1), "fire", "C03-B3"),
        V("reader-roles-swapped", replace_expr(BV, "BivincularPatt.get_adjacent_requirements", "(x, i) in self.shading", "(i, x) in self.shading"), "fire", "C03-B3"),
        V("dispatch-swapped", [replace_expr(MP, "MeshPatt.occurrences_in", "self._occurrences_in_perm(patt)", "self._occurrences_in_mesh(patt)"), replace_expr(MP, "MeshPatt.occurrences_in", "self._occurrences_in_mesh(patt)", "self._occurrences_in_perm(patt)", which=2)], "fire", "C03-B4"),
        V("perm-contains-any-to-all", replace_expr(PE, "Perm.contains", "all((self._contains(patt) for patt in patts))", "any((self._contains(patt) for patt in patts))"), "fire", "C03-B5"),
        V("to-shading-assert-consumes", [insert_stmt(BV, "BivincularPatt._to_shading", "for idx in adjacent_indices: ...", "assert all(0 <= idx <= n for idx in adjacent_indices)", "before")], "fire", "C03-I1"),
        V("mesh-init-validates-then-stores", replace_stmt(MP, "MeshPatt.__init__", "self.shading = shading if isinstance(shading, frozenset) else frozenset(shading)", "assert all(len(c) == 2 for c in shading)\nself.shading = shading if isinstance(shading, frozenset) else frozenset(shading)"), "fire", "C03-I1"),
        V("mesh-cell-nonstrict", replace_expr(MP, "MeshPatt._occurrences_in_perm", "candidate_element < element", "candidate_element <= element"), "fire", "C03-B6"),
        V("mesh-cell-swapped", replace_expr(MP, "MeshPatt._occurrences_in_perm", "(x, y) in self.shading", "(y, x) in self.shading"), "fire", "C03-B6"),
        # silent
        V("reformat-biv", reformat_only(BV), "silent"),
        V("biv-drop-occurrences-override", custom_remove(BV), "silent", note="inheriting the search is the same by-construction fact"),
        V("vinc-empty-list", replace_expr(BV, "VincularPatt.__init__", "super().__init__(perm, adjacent_indices, ())", "super().__init__(perm, adjacent_indices, [])"), "silent"),
        V("rename-writer-vars", rename_local(BV, "BivincularPatt._to_shading", "adjacent_indices", "positions"), "silent"),
    ]


def custom_remove(relpath):
    from ..selftest import remove_def

    return remove_def(relpath, "BivincularPatt.occurrences_in")
